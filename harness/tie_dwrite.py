"""Validation of the translator `tools/gen_dwrite.py`: the *generated* Lean functions (driver mode `dwritesrc`, built from
the committed `Gen/DirectWriteSrc.lean`) against the real `gscrib.writers.PrintrunWriter` and `gscrib.printrun.printcore`
objects (no port, no threads).

A case starts from a random pair of objects - a real `PrintrunWriter` whose `_device` is `None` or the `printcore` object
its own `_create_device()` returns (so the callback wiring is the real one), with random attribute values, a fake
`printer` that records or refuses writes - and applies a few direct calls: `write`, `_send_statement`,
`_abort_on_device_error`, `_wait_for_acknowledgment`, `_wait_for_connection`, `_wait_for_pending_operations`,
`_start_print_thread`, `disconnect`, `set_timeout`, the callbacks, the three properties, and on the device `send`,
`send_now`, `_reset_line_numbers`, `startprint`, `_sendnext`.  After every call all attributes the translation carries
are compared, plus what was handed to the port and how the call ended.

Blocking points are made observable without threads: the two events are replaced by an object whose `wait()` - when the
caller looks at the flag - first lets a scripted *other thread* run (a line delivered to `_on_device_message`, an error to
`_on_printrun_error`) and, if the flag is still not set, raises `Blocked` (a `BaseException`, so no `except Exception`
of the code under test sees it) carrying a snapshot of the objects at that moment; `time.sleep` of the two modules does
the same; `threading.Thread` of printcore.py is replaced by an inert object; `connect` of the writer by a stub raising
`Enters`.  A method that the translation cuts into sections is called once and compared with the sections run in
sequence by the driver (`W <stmt> <script>`, `T`).  A case ends at its first `blocked` / `enters` / `outside`.
See `tie_state.py` for the role of this run."""
from __future__ import annotations

import contextlib
import logging
import signal
import types
from fractions import Fraction

from . import core

MODE = "dwritesrc"
CMDS = ["G1 X1", "M105", " G4 P0 \n", "M110 N-1", "G0", "\tM114\r\n", "", "?"]
LINES = ["ok", "ok T:20", " OK\n", "error: cold", "ALARM:1", "!! halt", "echo: busy", "T:20 /0", "Grbl 1.1", "Error:checksum", "okay", "", "wait"]


class Blocked(BaseException):
    def __init__(self, snap):
        self.snap = snap


class Enters(BaseException):
    def __init__(self, what, snap):
        self.what, self.snap = what, snap


def enc(s: str) -> str:
    return "_".join(format(ord(c), "x") for c in s) if s else "~"


def enc_list(l) -> str:
    return ",".join(enc(x) for x in l) if l else "@"


def show_q(q) -> str:
    q = Fraction(q)
    return str(q.numerator) if q.denominator == 1 else f"{q.numerator}/{q.denominator}"


def b01(b) -> str:
    return "1" if b else "0"


class FakePrinter:
    is_connected = True

    def __init__(self, flow, fail, device_mod):
        self.has_flow_control, self.fail, self.mod, self.written = flow, fail, device_mod, []

    def write(self, data):
        text = data.decode("ascii")
        if text.endswith("\n"):
            text = text[:-1]
        if text.startswith("N") and "*" in text and " " in text:       # `N<lineno> <command>*<checksum>`
            text = text[text.index(" ") + 1:text.rindex("*")]
        self.written.append(text)
        if self.fail:
            raise self.mod.DeviceError("")

    def disconnect(self):
        pass


class FakeThread:
    def __init__(self, *a, **k):
        pass

    def start(self):
        pass

    def join(self, *a):
        pass


class Env:
    """the harness side of one case"""

    def __init__(self, mods):
        self.mods = mods
        self.w = None
        self.script = []        # what another thread does while the caller waits
        self.expired = False
        self.printer = None     # the FakePrinter of the case (kept when the device forgets it)

    def snap(self):
        return state_of(self)

    def run_script(self):
        for kind, text in self.script:
            if kind == "M":
                self.w._on_device_message(text)
            else:
                self.w._on_printrun_error(text)
        self.script = []


class FakeEvent:
    def __init__(self, env, flag):
        self.env, self.flag = env, flag

    def set(self):
        self.flag = True

    def clear(self):
        self.flag = False

    def is_set(self):
        return self.flag

    def wait(self, timeout=None):
        self.env.run_script()       # the other threads run between the caller's last statement and its look at the flag
        if self.flag:
            return True
        if timeout is not None and self.env.expired:
            return False
        raise Blocked(self.env.snap())


def state_of(env) -> str:
    from gscrib.excepts import DeviceError, GscribError

    w = env.w
    d = w._device
    if d is None:
        dev = "dev=0"
    else:
        mq = "-" if d.mainqueue is None else enc_list([l.raw for l in d.mainqueue.lines])
        wire = enc_list(env.printer.written if env.printer is not None else [])
        dev = (f"dev=1 pr={b01(d.printer)} cl={b01(d.clear)} on={b01(d.online)} pg={b01(d.printing)} pa={b01(d.paused)} mq={mq} "
               f"pq={enc_list(list(d.priqueue.queue))} qi={d.queueindex} ln={d.lineno} rf={d.resendfrom} tcp={b01(d.tcp_streaming_mode)} "
               f"sln={b01(d._send_line_numbers)} pt={b01(d.print_thread is not None)} wire={wire}")
    e = w._device_error
    err = "-" if e is None else ("D" + enc(str(e))) if type(e) is DeviceError else "G" if type(e) is GscribError else "?" + type(e).__name__
    return f"{dev} to={show_q(w._timeout)} err={err} sh={b01(w._shutdown_requested)} ack={b01(w._ack_event.is_set())} onl={b01(w._online_event.is_set())}"


def gen_init(rng) -> dict:
    idle = rng.random() < 0.55      # a connected, idle device: the state `write()` is meant for
    B = lambda p: rng.random() < p
    printing = False if idle else B(0.4)
    s = {
        "dev": True if idle else B(0.85), "pr": True if idle else B(0.85), "cl": B(0.8) if idle else B(0.5), "on": True if idle else B(0.7),
        "pg": printing, "pa": False if idle else B(0.15),
        "mq": rng.choice([[], [], None]) if idle else rng.choice([None, [], [], [], ["G1 X5"], ["G1 X5", "G1 X6"]]),
        "pq": [rng.choice(CMDS[:5]) for _ in range(rng.choice([0, 0, 0, 1, 2]))],
        "qi": rng.choice([0, 0, 0, 1, 2]), "ln": rng.choice([0, 0, 1, 2, 3]), "rf": rng.choice([-1, -1, -1, -1, 0, 1, 2]),
        "sl": rng.choice([{}, {}, {0: "G1 X9"}, {0: "G1 X9", 1: "G2 X8"}]),
        "tcp": B(0.15), "sln": B(0.75), "pt": True if printing else B(0.2), "flow": B(0.3), "fail": B(0.2),
        "to": Fraction(rng.choice([30, 1, 5, 120]), rng.choice([1, 2, 8])),
        "err": rng.choice([None, None, None, None, ("D", "boom"), ("D", ""), ("G", "")]), "sh": B(0.06),
        "ack": B(0.5), "onl": True if idle else B(0.6),
    }
    return s


def init_line(s) -> str:
    mq = "-" if s["mq"] is None else enc_list(s["mq"])
    sl = ",".join(f"{k}:{enc(v)}" for k, v in sorted(s["sl"].items())) if s["sl"] else "@"
    err = "-" if s["err"] is None else ("D" + enc(s["err"][1])) if s["err"][0] == "D" else "G"
    return (f"init dev={b01(s['dev'])} pr={b01(s['pr'])} cl={b01(s['cl'])} on={b01(s['on'])} pg={b01(s['pg'])} pa={b01(s['pa'])} mq={mq} "
            f"pq={enc_list(s['pq'])} qi={s['qi']} ln={s['ln']} rf={s['rf']} sl={sl} tcp={b01(s['tcp'])} sln={b01(s['sln'])} pt={b01(s['pt'])} "
            f"flow={b01(s['flow'])} fail={b01(s['fail'])} to={show_q(s['to'])} err={err} sh={b01(s['sh'])} ack={b01(s['ack'])} onl={b01(s['onl'])}")


def build(env, s):
    """the real objects in the state `s`"""
    from queue import Queue

    pw, pc, gcoder, device = env.mods
    from gscrib.excepts import DeviceError, GscribError

    saved = {sig: signal.getsignal(sig) for sig in (signal.SIGTERM, signal.SIGINT)}
    try:
        w = pw.PrintrunWriter(mode="serial", host="none", port="/dev/null-not-a-port", baudrate=115200)
    finally:
        for sig, h in saved.items():
            signal.signal(sig, h)
    env.w = w
    w._ack_event = FakeEvent(env, s["ack"])
    w._online_event = FakeEvent(env, s["onl"])
    w._timeout = float(s["to"])
    w._shutdown_requested = s["sh"]
    w._device_error = None if s["err"] is None else DeviceError(s["err"][1]) if s["err"][0] == "D" else GscribError("Internal error: x")

    def connect_stub():
        raise Enters("connect", env.snap())
    w.connect = connect_stub
    env.printer = None
    if s["dev"]:
        d = w._create_device()
        env.printer = FakePrinter(s["flow"], s["fail"], device)
        d.printer = env.printer if s["pr"] else None
        d.clear, d.online, d.printing, d.paused = s["cl"], s["on"], s["pg"], s["pa"]
        d.mainqueue = None if s["mq"] is None else gcoder.GCode(list(s["mq"]))
        d.priqueue = Queue(0)
        for c in s["pq"]:
            d.priqueue.put_nowait(c)
        d.queueindex, d.lineno, d.resendfrom = s["qi"], s["ln"], s["rf"]
        d.sentlines = dict(s["sl"])
        d.tcp_streaming_mode, d._send_line_numbers = s["tcp"], s["sln"]
        d.print_thread = FakeThread() if s["pt"] else None
        w._device = d
    return w


def gen_ops(rng):
    ops = []
    for _ in range(rng.choice([1, 1, 2, 3, 4])):
        r = rng.random()
        stmt = rng.choice(CMDS)
        if r < 0.28:
            script = [(rng.choice(["M", "M", "M", "E"]), rng.choice(LINES)) for _ in range(rng.choice([0, 1, 1, 2]))]
            ops.append(("write", stmt, script))
        elif r < 0.36:
            ops.append(("S", stmt))
        elif r < 0.42:
            ops.append(("A",))
        elif r < 0.46:
            ops.append(("WA",))
        elif r < 0.52:
            ops.append(("WC", rng.random() < 0.5))
        elif r < 0.60:
            ops.append(("WP",))
        elif r < 0.66:
            ops.append(("spt",))
        elif r < 0.74:
            ops.append(("D", rng.random() < 0.75))
        elif r < 0.77:
            ops.append(("ST", Fraction(rng.randint(-3, 40), rng.choice([1, 4]))))
        elif r < 0.79:
            ops.append(("ON",))
        elif r < 0.82:
            ops.append(("ER", rng.choice(["x", "", "Can't read"])))
        elif r < 0.84:
            ops.append(("M", rng.choice(LINES)))
        elif r < 0.86:
            ops.append(("Q",))
        elif r < 0.89:
            ops.append((rng.choice(["ps", "pn"]), stmt))
        elif r < 0.91:
            ops.append(("pr",))
        elif r < 0.93:
            ops.append(("pp",))
        else:
            ops.append(("px",))
    return ops


def proto(op) -> list[str]:
    """the driver segments of one harness operation"""
    k = op[0]
    if k == "write":
        return [" ".join([f"W {enc(op[1])}"] + [f"{kind}:{enc(t)}" for kind, t in op[2]])]
    if k == "spt":
        return ["T"]
    if k in ("S", "ps", "pn", "ER", "M"):
        return [f"{k} {enc(op[1])}"]
    if k in ("WC", "D"):
        return [f"{k} {b01(op[1])}"]
    if k == "ST":
        return [f"ST {show_q(op[1])}"]
    return [k]


def impl_op(env, op) -> str:
    """run one operation on the real objects -> `out=… <state>`"""
    w = env.w
    k = op[0]
    env.script, env.expired = [], False
    extra = ""
    try:
        if k == "write":
            env.script = list(op[2])
            w.write(op[1].encode("utf-8"))
        elif k == "S":
            w._send_statement(op[1].encode("utf-8"))
        elif k == "A":
            w._abort_on_device_error()
        elif k == "WA":
            w._wait_for_acknowledgment()
        elif k == "WC":
            env.expired = op[1]
            w._wait_for_connection()
        elif k == "WP":
            w._wait_for_pending_operations()
        elif k == "spt":
            w._start_print_thread()
        elif k == "D":
            w.disconnect(op[1])
        elif k == "ST":
            w.set_timeout(float(op[1]))
        elif k == "ON":
            w._on_device_online()
        elif k == "ER":
            w._on_printrun_error(op[1])
        elif k == "M":
            w._on_device_message(op[1])
        elif k == "Q":
            extra = f" props={b01(w.is_connected)}{b01(w.is_printing)}{b01(w.has_pending_operations)}"
        elif k == "ps":
            w._device.send(op[1])
        elif k == "pn":
            w._device.send_now(op[1])
        elif k == "pr":
            w._device._reset_line_numbers()
        elif k == "pp":
            w._device.startprint(env.mods[2].GCode([]))
        elif k == "px":
            w._device._sendnext()
        out = "done"
    except Blocked as b:
        return "out=blocked " + b.snap
    except Enters as e:
        return f"out=enters:{e.what} " + e.snap
    except Exception as e:  # the class is what the translation carries
        out = "raised:" + ("Empty" if type(e).__name__ == "Empty" else type(e).__name__)
    return f"out={out} " + state_of(env) + extra


def model_result(segs, recs):
    """the record of a harness operation (one driver segment each)"""
    return recs[-1]


@contextlib.contextmanager
def patched(mods):
    pw, pc, _, _ = mods
    old = (pw.time, pc.time, pc.threading)

    def sleep(_t):
        raise Blocked(patched.env.snap())
    fake_time = types.SimpleNamespace(sleep=sleep, time=old[0].time)
    fake_threading = types.SimpleNamespace(Thread=FakeThread, current_thread=lambda: object(), Lock=old[2].Lock, Event=old[2].Event)
    pw.time, pc.time, pc.threading = fake_time, fake_time, fake_threading
    try:
        yield
    finally:
        pw.time, pc.time, pc.threading = old


def constants_record(mods, env) -> str:
    pw, pc, _, _ = mods
    from gscrib.writers import SerialWriter, SocketWriter
    import inspect

    w = build(env, {"dev": False, "ack": False, "onl": False, "to": Fraction(0), "sh": False, "err": None})
    d = w._create_device()
    cbs = []
    for attr in ("errorcb", "onlinecb", "recvcb"):
        f = getattr(d, attr)
        cbs.append(f"{attr}:{getattr(f, '__name__', '?')}")
    # the initial values as __init__ leaves them (fresh objects, nothing patched in)
    saved = {sig: signal.getsignal(sig) for sig in (signal.SIGTERM, signal.SIGINT)}
    try:
        w0 = pw.PrintrunWriter(mode="serial", host="none", port="/dev/null-not-a-port", baudrate=115200)
    finally:
        for sig, h in saved.items():
            signal.signal(sig, h)
    env0 = Env(mods)
    env0.w = w0
    init = "out=done " + state_of(env0)
    d0 = pc.printcore()
    pcinit = (f"pr={b01(d0.printer)} cl={b01(d0.clear)} on={b01(d0.online)} pg={b01(d0.printing)} pa={b01(d0.paused)} "
              f"mq={'-' if d0.mainqueue is None else '?'} pq={enc_list(list(d0.priqueue.queue))} qi={d0.queueindex} ln={d0.lineno} rf={d0.resendfrom} "
              f"tcp={b01(d0.tcp_streaming_mode)} sln={b01(d0._send_line_numbers)} pt={b01(d0.print_thread is not None)} wire=@")
    # delegation, observed: the front-end method calls the delegate's method of the same name with these arguments
    dele = []
    for cls, args in ((SerialWriter, ("/dev/null-not-a-port", 115200)), (SocketWriter, ("no-such-host.invalid", 9))):
        saved = {sig: signal.getsignal(sig) for sig in (signal.SIGTERM, signal.SIGINT)}
        try:
            front = cls(*args)
        finally:
            for sig, h in saved.items():
                signal.signal(sig, h)
        calls = []

        class Rec:
            def __getattr__(self, name):
                return lambda *a, **k: calls.append((name, a, k))
        front._writer_delegate = Rec()
        for name, params, vals in (("connect", [], []), ("disconnect", ["wait"], [False]), ("write", ["statement"], [b"G1"]), ("set_timeout", ["timeout"], [2.0])):
            calls.clear()
            getattr(front, name)(*vals)
            if len(calls) != 1:
                dele.append(f"{cls.__name__}.{name}({', '.join(params)})->?")
                continue
            cname, a, kw = calls[0]
            shown = ", ".join(params[vals.index(x)] if x in vals else "?" for x in a) if not kw else "?"
            dele.append(f"{cls.__name__}.{name}({', '.join(params)})->{cname}({shown})")
    return (f"timeout={show_q(Fraction(repr(pw.DEFAULT_TIMEOUT)))} poll={show_q(Fraction(repr(pw.POLLING_INTERVAL)))} effects=2 "
            f"callbacks={','.join(cbs)} delegation={';'.join(dele)} init={init} pcinit={pcinit}")


def validate(rng, cases: int) -> dict:
    core.use_repo()
    import importlib
    import sys

    import gscrib.writers.printrun_writer  # noqa: F401  (the package re-exports classes under the module names)
    pw, pc, gcoder, device = (sys.modules.get(n) or importlib.import_module(n) for n in (
        "gscrib.writers.printrun_writer", "gscrib.printrun.printcore", "gscrib.printrun.gcoder", "gscrib.printrun.device"))

    mods = (pw, pc, gcoder, device)
    lg = logging.getLogger("gscrib")
    old_level, old_disable = lg.level, logging.root.manager.disable
    lg.setLevel(logging.CRITICAL + 1)
    logging.disable(logging.CRITICAL)       # gcoder warns on the root logger about lines it cannot parse
    if not lg.handlers:
        lg.addHandler(logging.NullHandler())
    outcomes: dict = {}
    calls = 0
    try:
        all_cases = [(gen_init(rng), gen_ops(rng)) for _ in range(cases)]
        lines = ["K"]
        for init, ops in all_cases:
            lines.append(" | ".join([init_line(init)] + [seg for op in ops for seg in proto(op)]))
        got = core.run_model(MODE, lines)
        env = Env(mods)
        patched.env = env
        with patched(mods):
            want_k = constants_record(mods, env)
            calls += 1
            if got[0] != want_k:
                return {"cases": cases, "calls": calls, "outcomes": {"K": 1}, "disagreement": {"ops": ["K"], "step": 0, "impl": want_k, "model": got[0]}}
            for (init, ops), line, rec_line in zip(all_cases, lines[1:], got[1:]):
                recs = rec_line.split(" ; ")
                build(env, init)
                pos = 0
                for step, op in enumerate(ops):
                    segs = proto(op)
                    mrecs = recs[pos:pos + len(segs)]
                    pos += len(segs)
                    if len(mrecs) != len(segs):
                        raise core.Infra(f"dwritesrc returned too few records: {line!r}")
                    model = model_result(segs, mrecs)
                    mout = model.split(" ", 1)[0][4:]
                    calls += 1
                    if mout.startswith("outside"):
                        outcomes[f"{op[0]}:outside"] = outcomes.get(f"{op[0]}:outside", 0) + 1
                        break
                    impl = impl_op(env, op)
                    tag = f"{op[0]}:{mout.split(':')[0] if not mout.startswith('raised') else mout}"
                    outcomes[tag] = outcomes.get(tag, 0) + 1
                    if impl != model:
                        return {"cases": cases, "calls": calls, "outcomes": outcomes,
                                "disagreement": {"ops": [line], "step": step, "impl": impl, "model": model}}
                    if mout in ("blocked",) or mout.startswith("enters"):
                        break
    finally:
        lg.setLevel(old_level)
        logging.disable(old_disable)
    return {"cases": cases, "calls": calls, "outcomes": outcomes, "disagreement": None}

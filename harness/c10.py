"""C10 - interpolated paths follow the requested curve and end on target.

Model: lean/GscribModel/Model/Tracer.lean (driver mode `tracer`); theorems: Props/C10.lean.
Implementation: a real `GCodeBuilder`; `g.trace.<shape>(...)` with `trace.parametric` shadowed on the instance to
record `function(thetas)`; the emitted G-code is re-read by an independent interpreter (tracer_common.interpret).

Correspondence (two stages, see tracer_common.Stage) and an oracle that only looks at the reconstructed vertices.
"""
from __future__ import annotations

import math

import numpy as np

from . import core
from . import tracer_common as tc

PROP = "C10"
TWO_PI = tc.TWO_PI


# ------------------------------------------------------------------ oracle (independent of the model)
def _arc_radius_centre(case, V, tie=None):
    """the two centres at distance |r| from start and target; keep the one the emitted vertices fit best.

    `tie`: when the vertices fit both centres to within this distance (one or two moves, or an arc so flat that its
    sagitta is below the output rounding) they do not tell the two arcs apart; the centre the request describes is then
    taken (minor arc: to the left of the chord when going counter-clockwise, to the right when going clockwise)."""
    s, t, r = case["start"], tc.spec_target(case), abs(case["radius"])
    dx, dy = t[0] - s[0], t[1] - s[1]
    d = math.hypot(dx, dy)
    if r < d / 2:
        r = d / 2  # the documented snap of a radius that is a hair too small
    h = math.sqrt(max(r * r - d * d / 4, 0.0))
    mx, my = (s[0] + t[0]) / 2, (s[1] + t[1]) / 2
    cands = [(mx + h * dy / d, my - h * dx / d), (mx - h * dy / d, my + h * dx / d)]
    spread = [float(np.abs(np.hypot(V[:, 0] - c[0], V[:, 1] - c[1]) - r).max()) for c in cands]
    k = 0 if spread[0] <= spread[1] else 1
    if tie is not None and max(spread) <= tie:
        left = (not case["cw"]) == (case["radius"] > 0)
        k = 1 if left else 0
    return cands[k], r


def oracle(case: dict, impl: dict) -> list[tuple[str, str]]:
    """C10 on the implementation's observable output.  Returns [(tag, message)], empty = property holds."""
    out: list[tuple[str, str]] = []
    skips: list[str] = []
    if case.get("invalid"):
        return out  # geometrically invalid request: outside the property's quantifier
    if impl["outcome"] != "ok":
        return [("raised", f"geometrically valid {case['shape']} request raised {impl['outcome']}")]
    V = tc.verts_array(impl)
    n = len(V) - 1
    shape = case["shape"]
    if n < 1:
        return [("no-output", "no move was emitted")]
    if impl["nlines_other"]:
        out.append(("foreign-lines", f"{impl['nlines_other']} non-motion lines emitted by a tracer call"))
    sc = max(1.0, float(np.abs(V).max()))
    tp = tc.tol_pos(case, n, sc)
    res = impl["res_eff"]
    s = np.array(case["start"], dtype=float)
    if float(np.abs(V[0] - s).max()) > 10.0 ** (-case["dp"]) + 1e-9 * sc:
        out.append(("start", f"path does not start at the current position: {V[0].tolist()} vs {s.tolist()}"))

    def end_check(target):
        t = np.array(target, dtype=float)
        dev = float(np.abs(V[-1] - t).max())
        if dev > tp:
            out.append(("end", f"last vertex {V[-1].tolist()} is {dev:.3e} away from the target {t.tolist()} (tolerance {tp:.1e})"))
        pos = np.array([0.0 if v is None else float(v) for v in impl["position"]])
        devp = float(np.abs(pos - t).max())
        if devp > 1e-9 * sc * (1 + n / 100):
            out.append(("end-position", f"builder position {pos.tolist()} is {devp:.3e} away from the target {t.tolist()}"))

    if shape == "polyline":
        exp, cur = [], list(case["start"])
        for p in case["points"]:
            cur = [cur[i] if (i >= len(p) or p[i] is None) else p[i] for i in range(3)]
            exp.append(list(cur))
        if n != len(exp):
            return out + [("polyline", f"{n} vertices emitted for {len(exp)} points")]
        for k, e in enumerate(exp):
            lim = (0.5 + 1e-6) * 10.0 ** (-case["dp"]) * ((k + 1) if case["rel"] else 1)
            dev = max(abs(float(impl["verts"][k + 1][i]) - e[i]) for i in range(3))
            if dev > lim:
                out.append(("polyline", f"vertex {k} is {V[k + 1].tolist()}, expected exactly {e} (deviation {dev:.3e})"))
                break
        end_check(exp[-1])
        return out

    if shape == "spline":
        ctrl = [list(case["start"])]
        for p in case["points"]:
            if list(p) != ctrl[-1]:
                ctrl.append(list(p))
        end_check(ctrl[-1])
        seg = tc.seg_lengths(V)
        if n >= 4:
            nxt = float(seg[1:4].max())
            if nxt <= 2 * res + 2 * tp and seg[0] > 1.06 * res + 2 * tp and seg[0] > 1.5 * nxt + 2 * tp:
                # the moves that follow are at the scale of the resolution, so the curve is sampled that finely there, and it
                # is smooth: a first move that is longer than one resolution and out of scale with them is a jump from the
                # current position to a curve that begins somewhere else
                out.append(("start", f"first move is {seg[0]:.4g} long (resolution {res:.4g}, next moves {[round(float(x), 6) for x in seg[1:4]]}): the curve does not begin at the current position"))
        a, b = V[:-1], V[1:]
        j0 = 0
        for k, cp in enumerate(ctrl):
            d = tc.point_segment_dist(np.array(cp, dtype=float), a[j0:], b[j0:])
            ok = np.nonzero(d <= res + tp)[0]
            if len(ok) == 0:
                out.append(("spline-control", f"control point {k} {cp} is {float(d.min()):.4g} > one resolution ({res:.4g}) from the rest of the path (in order)"))
                break
            j0 += int(ok[0])
        return out

    if shape == "parametric":
        fn = case["fn"]
        a0 = np.array(fn["a"], dtype=float)
        end_check(case["end"])
        if fn["name"] == "line":
            d = np.array(fn["d"], dtype=float)
            L = float(np.linalg.norm(d))
            u = d / L
            rel = V - a0
            par = rel @ u
            off = np.linalg.norm(rel - np.outer(par, u), axis=1)
            if float(off.max()) > 2 * tp:
                out.append(("on-curve", f"vertex {int(off.argmax())} is {float(off.max()):.3e} off the line"))
            if (np.diff(par) < -2 * tp).any() or par.min() < -2 * tp or par.max() > L + 2 * tp:
                out.append(("on-curve", "vertices do not advance monotonically along the line"))
        elif fn["name"] == "parabola":
            th = (V[:, 0] - a0[0]) / fn["w"]
            tol = tp * (2 + 2 * abs(fn["k"] / fn["w"]) + abs(fn["h"] / fn["w"]))
            ey = np.abs(V[:, 1] - (a0[1] + fn["k"] * th * th))
            ez = np.abs(V[:, 2] - (a0[2] + fn["h"] * th))
            if float(max(ey.max(), ez.max())) > tol:
                out.append(("on-curve", f"vertex off the parabola by {float(max(ey.max(), ez.max())):.3e} (tolerance {tol:.1e})"))
            if (np.diff(th) < -2 * tp / abs(fn["w"])).any():
                out.append(("on-curve", "vertices do not advance monotonically along the parabola"))
        else:
            cx, cy = a0[0] - fn["rx"], a0[1]
            e = np.abs(((V[:, 0] - cx) / fn["rx"]) ** 2 + ((V[:, 1] - cy) / fn["ry"]) ** 2 - 1)
            tol = 6 * tp / min(fn["rx"], fn["ry"]) + 1e-9
            if float(e.max()) > tol or float(np.abs(V[:, 2] - a0[2]).max()) > tp:
                out.append(("on-curve", f"vertex off the ellipse (implicit equation residual {float(e.max()):.3e}, tolerance {tol:.1e})"))
        return out

    # ---- circular shapes ------------------------------------------------------------------------
    t = tc.spec_target(case)
    end_check(t)
    cw = case["cw"]
    dz = t[2] - case["start"][2]
    seg = tc.seg_lengths(V)
    if seg[0] > 1.06 * res + 2 * tp:
        out.append(("start", f"first move is {seg[0]:.4g} long (resolution {res:.4g}): the path does not leave from the current position along the curve"))

    if shape in ("arc", "circle", "arc_radius"):
        if shape == "arc_radius":
            c, r = _arc_radius_centre(case, V, tie=2 * tp)
        else:
            c = tc.spec_centre(case)
            r = math.hypot(case["center"][0], case["center"][1])  # the centre is an (x, y) offset; a third component has no meaning on the XY plane
        rad = np.hypot(V[:, 0] - c[0], V[:, 1] - c[1])
        dev = float(np.abs(rad - r).max())
        if dev > 2 * tp:
            out.append(("radius", f"radius about the centre varies: vertex {int(np.abs(rad - r).argmax())} at {rad[int(np.abs(rad - r).argmax())]:.9g}, expected {r:.9g}"))
            return out
        ang = np.arctan2(V[:, 1] - c[1], V[:, 0] - c[0])
        ang_tol = 4 * tp / r + 1e-9
        a_o = math.atan2(case["start"][1] - c[1], case["start"][0] - c[0])
        a_t = math.atan2(t[1] - c[1], t[0] - c[0])
        sweep = TWO_PI if shape == "circle" else tc.directed_sweep(a_o, a_t, cw)
        if shape != "circle" and (sweep < 10 * ang_tol or sweep > TWO_PI - 10 * ang_tol):
            return out + []  # start and target coincide within rounding: sweep not defined by the request
        step_bound = (1.06 * res + 2 * tp) / r
        if step_bound >= 0.9 * math.pi:
            impl.setdefault("skips", []).append("coarse-angle")
            return out
        steps = tc.directed_steps(ang, cw, ang_tol)
        if float(steps.max()) > math.pi:
            k = int(steps.argmax())
            out.append(("direction", f"vertex {k + 1} steps against the selected direction ({'cw' if cw else 'ccw'})"))
            return out
        total = float(steps.sum())
        if abs(total - sweep) > 2 * ang_tol:
            out.append(("sweep", f"total sweep {total:.9g} rad, expected {sweep:.9g} ({'cw' if cw else 'ccw'})"))
            return out
        if shape == "arc_radius":
            if case["radius"] > 0 and total > math.pi + 2 * ang_tol:
                out.append(("minor-major", f"positive radius but the major arc ({total:.6g} rad) was traced"))
            if case["radius"] < 0 and total < math.pi - 2 * ang_tol:
                out.append(("minor-major", f"negative radius but the minor arc ({total:.6g} rad) was traced"))
        f = np.concatenate(([0.0], np.cumsum(steps))) / sweep
        ez = np.abs(V[:, 2] - (case["start"][2] + dz * f))
        tol_z = tp + abs(dz) * ang_tol / sweep
        if float(ez.max()) > tol_z:
            out.append(("z-linear", f"Z is not linear in the angle: vertex {int(ez.argmax())} off by {float(ez.max()):.3e} (tolerance {tol_z:.1e})"))
        return out

    # helix / spiral / thread
    c = tc.spec_centre(case)
    r0 = math.hypot(case["start"][0] - c[0], case["start"][1] - c[1])
    r1 = math.hypot(t[0] - c[0], t[1] - c[1])
    turns = case.get("turns")
    if shape == "thread":
        turns = max(1, int(abs(dz) / case["pitch"]))
    rad = np.hypot(V[:, 0] - c[0], V[:, 1] - c[1])
    rmax = max(r0, r1)
    if shape == "thread":
        dev = float(np.abs(rad - rmax).max())
        if dev > 2 * tp + 1e-9 * sc:
            out.append(("thread-radius", f"thread radius about the axis through the midpoint varies: {float(rad.min()):.9g} .. {float(rad.max()):.9g}, expected {rmax:.9g}"))
            return out
    if rmax < 1000 * tp:
        return out  # degenerate (vertical line): no angle to speak of
    a_t = math.atan2(t[1] - c[1], t[0] - c[0])
    a_o = math.atan2(case["start"][1] - c[1], case["start"][0] - c[0]) if r0 > 0 else 0.0
    if shape == "thread":
        base = math.pi
    else:
        base = tc.directed_sweep(a_o, a_t, cw)
        if base < 1e-6 or base > TWO_PI - 1e-6:
            return out
    total_spec = base + TWO_PI * (turns - 1)
    r_floor = max(200 * tp, 0.02 * rmax)
    valid = np.nonzero(rad >= r_floor)[0]
    if len(valid) < 2 or not np.array_equal(valid, np.arange(valid[0], len(V))):
        impl.setdefault("skips", []).append("radius-through-centre")
        return out
    i0 = int(valid[0])
    speed_min = math.sqrt((r1 - r0) ** 2 + (min(r0, r1) * total_spec) ** 2 + dz * dz)
    step_bound = total_spec * (1.06 * res + 2 * tp) / speed_min
    if step_bound >= 0.9 * math.pi:
        impl.setdefault("skips", []).append("coarse-angle")
        return out
    ang = np.arctan2(V[i0:, 1] - c[1], V[i0:, 0] - c[0])
    ang_tol = 4 * tp / float(rad[i0:].min()) + 1e-9
    steps = tc.directed_steps(ang, cw, ang_tol)
    if len(steps) and float(steps.max()) > math.pi:
        out.append(("direction", f"vertex {i0 + int(steps.argmax()) + 1} steps against the selected direction ({'cw' if cw else 'ccw'})"))
        return out
    meas = float(steps.sum())
    if i0 == 0:
        if abs(meas - total_spec) > 2 * ang_tol:
            out.append(("turns", f"total angle {meas:.9g} rad, expected {total_spec:.9g} = base sweep {base:.6g} + 2pi*({turns}-1)"))
            return out
    else:
        # the first vertices are too close to the axis to have an angle (spiral): radius and angle are both
        # linear in the curve parameter, so the angle still to travel from vertex i0 is known from its radius
        want = total_spec * (1 - (float(rad[i0]) - r0) / (r1 - r0))
        if abs(meas - want) > 2 * ang_tol + total_spec * 2 * tp / abs(r1 - r0):
            out.append(("turns", f"angle travelled from vertex {i0} is {meas:.9g} rad, expected {want:.9g} for {turns} turn(s)"))
            return out
    togo = np.concatenate((np.cumsum(steps[::-1])[::-1], [0.0]))  # angle still to travel to the target
    f = 1 - togo / total_spec
    tol_f = ang_tol / total_spec + 1e-9
    er = np.abs(rad[i0:] - (r0 + (r1 - r0) * f))
    tol_r = 2 * tp + abs(r1 - r0) * tol_f
    if float(er.max()) > tol_r:
        out.append(("radius-linear", f"radius is not linear in the angle: vertex {i0 + int(er.argmax())} off by {float(er.max()):.3e} (tolerance {tol_r:.1e})"))
    ez = np.abs(V[i0:, 2] - (case["start"][2] + dz * f))
    tol_z = tp + abs(dz) * tol_f
    if float(ez.max()) > tol_z:
        out.append(("z-linear", f"Z is not linear in the angle: vertex {i0 + int(ez.argmax())} off by {float(ez.max()):.3e} (tolerance {tol_z:.1e})"))
    return out


# ------------------------------------------------------------------ a request traced after a user call of trace.parametric()
# A case may carry "before": {"fn", "inplace", "size", "length", "k", "builder", ...}: before the request that is judged, the
# program calls the public `trace.parametric(function, length)` with a path function of its own, at k times the resolution,
# on the same builder (which is then moved back onto the start) or on another builder of the same process.  The library
# hands the function an array of curve parameters; nothing in the API says what the function may do with it, so some of
# these functions are written the frugal numpy way and turn that array into what they need *in place*.  Whatever the
# function did to its argument, the next request has to be traced as C10 says.
def user_fn(b: dict, a, seen: list):
    """the caller's path function: a curve of length ~ b["size"] leaving from the current position `a`"""
    L, kind, inplace = b["size"], b["fn"], b["inplace"]

    def f(thetas):
        seen.append(len(thetas))
        if kind == "ring":  # b["turns"] turns of a circle through the current position, parameter -> angle
            r = L / (TWO_PI * b["turns"])
            w = TWO_PI * b["turns"]
            ang = np.multiply(thetas, w, out=thetas) if inplace else thetas * w
            return np.column_stack((a[0] + r * (np.cos(ang) - 1), a[1] + r * np.sin(ang), a[2] + 0 * ang))
        if kind == "eased-line":  # a straight line run with growing speed, parameter -> its square
            u = np.square(thetas, out=thetas) if inplace else thetas * thetas
            return np.column_stack([a[i] + u * b["d"][i] for i in range(3)])
        if kind == "apex-parabola":  # a parabola described about its apex, which is where it ends: parameter -> theta - 1
            u = np.subtract(thetas, 1.0, out=thetas) if inplace else thetas - 1.0
            return np.column_stack((a[0] + b["w"] * (1 + u), a[1] + b["kk"] * (1 - u * u), a[2] + b["h"] * (1 + u)))
        raise core.Infra(f"unknown user path function {kind}")

    return f


def _user_call(g, case: dict) -> int:
    """the "before" call on builder `g` (standing on the start, in the request's distance mode); returns the number of curve
    parameters the function was handed"""
    b = case["before"]
    seen: list = []
    res = g.state.resolution
    if b["k"] != 1.0:
        g.set_resolution(res * b["k"])
    g.trace.parametric(user_fn(b, case["start"], seen), b["length"])
    if b["k"] != 1.0:
        g.set_resolution(res)
    return seen[0] if seen else 0


def _plain_builder(case: dict):
    from gscrib import GCodeBuilder

    g = GCodeBuilder(decimal_places=case["dp"], line_endings="\n")
    w = tc._writer()
    g.add_writer(w)
    g.set_length_units(case["units"])
    g.set_resolution(case["res"])
    g.set_direction("cw" if case["cw"] else "ccw")
    s = case["start"]
    g.move(x=s[0], y=s[1], z=s[2])
    if case["rel"]:
        g.set_distance_mode("relative")
    return g, w


def run_impl(case: dict) -> dict:
    """tc.run_impl; for a request with a "before" entry: the same, after the user call.  Nothing here consults the model."""
    b = case.get("before")
    if not b:
        impl = tc.run_impl(case)
    else:
        if case.get("switch") or case.get("warm") or case.get("warm_near") or case.get("iso"):
            raise core.Infra("a 'before' call is combined with the plain set-up only")
        g, w = _plain_builder(case)
        try:
            n_before = _user_call(g, case)
        except core.Infra:
            raise
        except Exception as e:  # noqa - a valid call of the public API
            return {"outcome": "before:" + type(e).__name__, "verts": [], "calls": [], "res_eff": float(g.state.resolution), "position": tuple(g.position)}
        if b["builder"] == "other":
            impl = tc.run_impl(case)  # a new builder: nothing of the first one may reach it
        else:
            s = case["start"]
            g.move_absolute(x=s[0], y=s[1], z=s[2])
            # from here on as tc.run_impl
            n0 = len(w.lines)
            calls = []
            tr = g.trace
            orig = tr.parametric

            def wrapped(function, length, **kw):
                c = {"length": float(length), "function": function}
                calls.append(c)

                def f2(thetas):
                    pts = function(thetas)
                    c["thetas"] = np.array(thetas, dtype=np.float64)
                    c["points"] = np.array(pts, dtype=np.float64)
                    return pts

                return orig(f2, length, **kw)

            tr.parametric = wrapped
            outcome = "ok"
            try:
                tc._dispatch(tr, case)
            except core.Infra:
                raise
            except Exception as e:  # noqa
                outcome = type(e).__name__
            finally:
                del tr.parametric
            blocks = tc.interpret(w.lines)
            setup = [x for x in blocks if x[0] < n0]
            moves = [x for x in blocks if x[0] >= n0]
            res = float(g.state.resolution)
            impl = {
                "outcome": outcome,
                "res_eff": res,
                "res_before": res,
                "sf": float(g.state.length_units.scale_factor),
                "calls": calls,
                "lines": w.lines[n0:],
                "nlines_other": (len(w.lines) - n0) - len(moves),
                "verts": [setup[-1][1]] + [m[1] for m in moves],
                "words": [m[2] for m in moves],
                "position": tuple(g.position),
            }
        impl["before_n"] = n_before
    call = impl["calls"][0] if impl.get("calls") else None
    impl["n_samples"] = len(call["thetas"]) if call and "thetas" in call else None
    return impl


# ------------------------------------------------------------------ batches
def nontrivial(case, impl) -> bool:
    return impl["outcome"] == "ok" and len(impl["verts"]) >= 4


def run_batch(R, cases, label, correspond=True):
    st = tc.Stage(R, PROP)
    for case in cases:
        impl = run_impl(case)
        R.case(tc.case_repr(case), nontrivial=nontrivial(case, impl), validated=correspond)
        nm = len(impl["verts"]) - 1
        R.count(
            label,
            "shape:" + case["shape"],
            "dir:" + ("cw" if case["cw"] else "ccw"),
            "mode:" + ("relative" if case["rel"] else "absolute"),
            "units:" + case["units"] + ("+switch" if case.get("switch") else ""),
            f"dp:{case['dp']}",
            "res:1e%d" % math.floor(math.log10(case["res"])),
            "moves:" + ("0" if nm <= 0 else "<=10" if nm <= 10 else "<=100" if nm <= 100 else "<=1000" if nm <= 1000 else ">1000"),
            "outcome:" + impl["outcome"] + (" (invalid request)" if case.get("invalid") else ""),
            "start:" + ("origin" if not any(case["start"]) else "away"),
        )
        for tag, msg in oracle(case, impl):
            R.fail(tc.case_repr(case), msg, tag=tag)
        for sk in impl.get("skips", []):
            R.count("oracle-skip:" + sk)
        if case.get("zword"):
            R.count("z-word:" + case["zword"] + ("/relative" if case["rel"] else "/absolute"))
        if case.get("before"):
            b = case["before"]
            R.count(
                "before:" + b["fn"] + ("/in-place" if b["inplace"] else "/allocating"),
                "before:" + b["builder"] + "-builder",
                "before:sample-count-" + ("equal" if impl.get("before_n") == impl.get("n_samples") else "differs"),
            )
        if correspond:
            st.add(case, impl)
    if correspond:
        st.run()


CORPUS = [
    # the docstring examples and the shapes of the repository's own tests, from starts away from the origin
    {"shape": "arc", "cw": True, "rel": False, "start": [10.0, 0.0, 0.0], "res": 0.1, "units": "mm", "dp": 5, "target": [0.0, 10.0, None], "center": [-10.0, 0.0]},
    {"shape": "arc", "cw": False, "rel": True, "start": [3.5, -2.25, 1.0], "res": 0.25, "units": "mm", "dp": 6, "target": [3.5, 7.75, 4.0], "center": [0.0, 5.0]},
    {"shape": "circle", "cw": False, "rel": True, "start": [12.5, 4.0, -1.0], "res": 0.5, "units": "in", "dp": 6, "center": [-10.0, 0.0]},
    {"shape": "arc_radius", "cw": True, "rel": False, "start": [1.0, 1.0, 0.0], "res": 0.1, "units": "mm", "dp": 5, "target": [11.0, 11.0, None], "radius": 10.0},
    {"shape": "arc_radius", "cw": False, "rel": True, "start": [1.0, 1.0, 0.0], "res": 0.1, "units": "mm", "dp": 5, "target": [11.0, 11.0, 2.0], "radius": -10.0},
    {"shape": "helix", "cw": True, "rel": False, "start": [10.0, 0.0, 0.0], "res": 0.2, "units": "mm", "dp": 6, "target": [5.0, 0.0, 10.0], "center": [-10.0, 0.0], "turns": 3},
    {"shape": "thread", "cw": False, "rel": True, "start": [7.0, -3.0, 2.0], "res": 0.2, "units": "mm", "dp": 6, "target": [11.0, 0.0, 8.5], "pitch": 2.0},
    {"shape": "spiral", "cw": False, "rel": False, "start": [-4.0, 6.0, 0.0], "res": 0.1, "units": "mm", "dp": 6, "target": [6.0, 6.0, None], "turns": 2},
    {"shape": "spline", "cw": True, "rel": True, "start": [2.0, 2.0, 0.0], "res": 0.1, "units": "mm", "dp": 5, "points": [[7.0, 7.0, 0.0], [12.0, -3.0, 1.0], [17.0, 2.0, 0.0]]},
    {"shape": "polyline", "cw": True, "rel": True, "start": [2.0, 2.0, 5.0], "res": 0.1, "units": "mm", "dp": 5, "points": [[7.0, 7.0], [12.0, -3.0, 1.0], [12.0, -3.0, 1.0], [0.25, 2.0, None]]},
]


# hand-written members of the three families below (kept apart from CORPUS, which C12 re-uses)
CORPUS_FAMILIES = [
    # a short arc on a large radius (sweeps of 5e-5 and 3e-5 rad), described by its radius and by its centre
    {"shape": "arc_radius", "cw": False, "rel": False, "start": [12.5, -3.0, 1.0], "res": 20.0, "units": "mm", "dp": 5, "target": [12.625, -3.0, None], "radius": 2500.0},
    {"shape": "arc", "cw": True, "rel": True, "start": [0.0, 1000.0, 0.25], "res": 4.0, "units": "mm", "dp": 6, "target": [0.03125, 999.9999995117188, 0.25], "center": [0.0, -1000.0]},
    # whole-number control points written as Python ints, from a start between them
    {"shape": "spline", "cw": True, "rel": False, "start": [1.5, -2.25, 0.5], "res": 0.1, "units": "mm", "dp": 5, "points": [[4, 3, 1], [9, -2, 0], [12, 1, 2]]},
    {"shape": "polyline", "cw": False, "rel": False, "start": [-0.75, 0.5, 2.0], "res": 0.1, "units": "mm", "dp": 5, "points": [[4, 3], [9, -2, 1], [4, 3, 1]]},
    # a centre offset that carries a third component (an absolute 3-D centre minus the current position)
    {"shape": "arc", "cw": False, "rel": False, "start": [6.0, 8.0, -1.5], "res": 0.25, "units": "mm", "dp": 5, "target": [-8.0, 6.0, None], "center": [-6.0, -8.0, 1.5]},
    {"shape": "helix", "cw": True, "rel": True, "start": [15.0, -5.0, 4.0], "res": 0.5, "units": "mm", "dp": 6, "target": [10.0, -12.5, -2.0], "center": [-5.0, 0.0, -4.0], "turns": 2},
]


# ------------------------------------------------------------------ further generator families
def gen_tiny_sweep(rng) -> dict:
    """Start and target a hair apart on the circle: bearings from the centre differ by 10^U(-6.3,-1.5) rad (a short chord on
    a large radius, or a tiny chord).  Going the selected way round this is a sweep of that small angle (75 %) or of a
    whole turn less that angle (25 %).  arc, arc_radius (the sign of the radius says which) and helix (1-2 turns).

    The resolution is never finer than 1/1000 of a whole turn at that radius, so that whatever sweep gets traced the path
    stays small."""
    for _ in range(2000):
        c = tc._common(rng)
        c["switch"] = False
        shape = rng.choice(["arc", "arc_radius", "arc", "arc_radius", "helix"])
        c["shape"] = shape
        s = c["start"]
        r = 10 ** rng.uniform(-0.5, 3.7)
        eps = 10 ** rng.uniform(-6.3, -1.5)
        long_way = rng.random() < 0.25
        sweep = TWO_PI - eps if long_way else eps
        turns = rng.choice([1, 1, 2]) if shape == "helix" else 1
        ratio_r = rng.choice([1.0, 1.0, 0.8, 1.25]) if shape == "helix" else 1.0
        alpha = rng.uniform(0, TWO_PI)
        if rng.random() < 0.15:
            alpha = rng.choice([0.0, 0.5, 1.0, 1.5]) * math.pi  # axis-aligned
        cen = (r * math.cos(alpha), r * math.sin(alpha))
        cx, cy = s[0] + cen[0], s[1] + cen[1]
        rr = math.hypot(cen[0], cen[1])
        a0 = math.atan2(s[1] - cy, s[0] - cx)
        a1 = a0 + (-sweep if c["cw"] else sweep)
        r1 = rr * ratio_r
        total = sweep + TWO_PI * (turns - 1)
        planar = math.hypot(0.5 * (rr + r1) * total, r1 - rr)
        dz = 0.0 if rng.random() < 0.5 else rng.choice([-1, 1]) * rng.uniform(0.1, 1.5) * planar
        path = math.hypot(planar, dz)
        lr = 10 ** (rng.uniform(0.5, 2.3) if (long_way or turns > 1 or ratio_r != 1.0) else rng.uniform(-1.5, 1.3))
        res = max(path / lr, TWO_PI * max(rr, r1) * turns / 1000)
        moves = path / res + 2
        tol = (1 + (moves if c["rel"] else 0)) * 10.0 ** (-c["dp"]) + 1e-9 * (60 + 2 * max(rr, r1))
        if eps * min(rr, r1) < 100 * tol:
            continue  # the two points would coincide within the output rounding
        tgt = [cx + r1 * math.cos(a1), cy + r1 * math.sin(a1), s[2] + dz]
        c["target"] = tgt if (dz != 0.0 or rng.random() < 0.5) else [tgt[0], tgt[1], None]
        c["res"] = res
        c["tiny"] = eps
        if shape == "arc_radius":
            c["radius"] = -rr if long_way else rr
        else:
            c["center"] = list(cen)
        if shape == "helix":
            c["turns"] = turns
        return c
    raise core.Infra("gen_tiny_sweep: no case")


def gen_int_points(rng) -> dict:
    """spline / polyline through whole-number points given as Python ints (how they are written by hand), mostly in absolute
    mode (where they reach the library as they are) and from a start that is not a whole number"""
    c = tc._common(rng)
    c["switch"] = False
    shape = "spline" if rng.random() < 0.7 else "polyline"
    c["shape"] = shape
    c["rel"] = rng.random() < 0.15
    s = [tc._grid(rng, -30, 30) for _ in range(3)]
    if rng.random() < 0.85 and all(float(v).is_integer() for v in s[:2]):
        s[rng.randrange(2)] += rng.choice([0.125, 0.25, 0.5, 0.75])
    c["start"] = s
    span = rng.choice([1, 2, 3, 5, 8, 13])
    pts, cur = [], [int(round(v)) for v in s]
    for _ in range(rng.randint(1, 5)):
        if pts and rng.random() < 0.1:
            p = list(cur)  # repeats the previous point
        else:
            while True:
                p = [cur[i] + rng.randint(-span, span) for i in range(3)]
                if p != cur:
                    break
        cur = list(p)
        if shape == "polyline" and rng.random() < 0.3:
            p = p[:2] if rng.random() < 0.5 else [p[0], p[1], None]
        pts.append(p)
    at, poly = list(s), 0.0
    for q in pts:
        nxt = [at[i] if (i >= len(q) or q[i] is None) else q[i] for i in range(3)]
        poly += math.dist(at, nxt)
        at = nxt
    c["points"] = pts
    c["res"] = max(poly, 1.0) / 10 ** rng.uniform(1.2, 2.6)
    c["ints"] = True
    return c


def gen_centre_z(rng) -> dict:
    """arc / circle / helix whose centre offset carries a third, non-zero component (`centre - position` of two 3-D points):
    the path is traced on the XY plane, the component has no bearing on it"""
    shape = rng.choice(["arc", "circle", "helix"])
    c = tc.gen_case(rng, shape, ratio=(0.5, 2.1), max_samples=3000)
    r = math.hypot(c["center"][0], c["center"][1])
    cz = rng.choice([-1, 1]) * max(0.25, round(r * rng.uniform(0.05, 2.0) * 8) / 8)
    if rng.random() < 0.3:
        cz = -c["start"][2] if c["start"][2] else cz  # centre noted at Z = 0
    c["center"] = [c["center"][0], c["center"][1], cz]
    return c


def gen_special_z(rng) -> dict:
    """Helical arc / arc_radius / helix / spiral / thread from a current Z that is not 0, whose Z word *as written in the call*
    is exactly one of the values that are special for the current position: 0 (written 0.0, 0 or -0.0), the current Z,
    minus the current Z - in both distance modes.  Absolute: down (or up) to the work surface Z0, a path that keeps its height
    although a Z is given, a path to the mirrored height.  Relative: no vertical displacement, a displacement of the
    current height, back to Z0."""
    for _ in range(2000):
        c = tc._common(rng)
        c["switch"] = False
        shape = rng.choice(["arc", "arc_radius", "helix", "spiral", "thread"])
        c["shape"] = shape
        z = rng.choice([-1, 1]) * (rng.choice([0.125, 0.25, 0.5, 1.0, 2.0, 5.0, 10.0, 25.0]) if rng.random() < 0.5 else tc._grid(rng, 1, 50))
        s = [tc._grid(rng, -50, 50), tc._grid(rng, -50, 50), z]
        c["start"] = s
        kind = rng.choice(["zero", "zero", "zero", "current", "minus-current", "minus-current"])
        zarg = {"zero": rng.choice([0.0, 0.0, 0, -0.0]), "current": z, "minus-current": -z}[kind]
        tz = (s[2] + zarg) if c["rel"] else zarg  # waypoints in a case are absolute; s[2] + zarg is exact on the 1/8 grid
        dz = float(tz) - s[2]
        c["zword"] = kind
        r = max(abs(dz), abs(z)) * 10 ** rng.uniform(-0.6, 0.9)
        if not (0.05 <= r <= 400):
            continue
        turns = rng.choice([1, 1, 2, 3])
        if shape in ("arc", "arc_radius"):
            sweep = rng.choice([rng.uniform(0.05, TWO_PI - 0.05), rng.uniform(0.05, TWO_PI - 0.05), math.pi / 2, 3 * math.pi / 2])
            if shape == "arc_radius" and abs(sweep - math.pi) < 0.05:
                continue  # near a semicircle the centre is ill-conditioned
            alpha = rng.uniform(0, TWO_PI)
            cen = (r * math.cos(alpha), r * math.sin(alpha))
            cx, cy = s[0] + cen[0], s[1] + cen[1]
            rr = math.hypot(cen[0], cen[1])
            a1 = math.atan2(s[1] - cy, s[0] - cx) + (-sweep if c["cw"] else sweep)
            c["target"] = [cx + rr * math.cos(a1), cy + rr * math.sin(a1), tz]
            if shape == "arc":
                c["center"] = list(cen)
            else:
                c["radius"] = rr if sweep < math.pi else -rr
            path = math.hypot(rr * sweep, dz)
        elif shape == "thread":
            beta = rng.uniform(0, TWO_PI)
            c["target"] = [s[0] + 2 * r * math.cos(beta), s[1] + 2 * r * math.sin(beta), tz]
            if dz == 0.0 or rng.random() < 0.15:
                turns = 1
                c["pitch"] = (abs(dz) or abs(z)) / rng.uniform(0.1, 0.9)
            else:
                c["pitch"] = abs(dz) / (turns + rng.uniform(0.05, 0.95))
            path = math.hypot(r * (math.pi + TWO_PI * (turns - 1)), dz)
        elif shape == "spiral":
            beta = rng.uniform(0, TWO_PI)
            c["target"] = [s[0] + r * math.cos(beta), s[1] + r * math.sin(beta), tz]
            c["turns"] = turns
            path = math.hypot(r * (0.5 * (math.pi + TWO_PI * (turns - 1)) + 0.6), dz)
        else:
            base = rng.uniform(0.05, TWO_PI - 0.05)
            ratio_r = rng.choice([1.0, 1.0, 0.5, 0.8, 1.5, 2.0])
            alpha = rng.uniform(0, TWO_PI)
            cen = (r * math.cos(alpha), r * math.sin(alpha))
            cx, cy = s[0] + cen[0], s[1] + cen[1]
            r1 = math.hypot(cen[0], cen[1]) * ratio_r
            a1 = math.atan2(s[1] - cy, s[0] - cx) + (-base if c["cw"] else base)
            c["target"] = [cx + r1 * math.cos(a1), cy + r1 * math.sin(a1), tz]
            c["center"] = list(cen)
            c["turns"] = turns
            path = math.hypot(0.5 * (r + r1) * (base + TWO_PI * (turns - 1)), dz, r1 - r)
        c["res"] = path / 10 ** rng.uniform(0.7, 2.2)
        return c
    raise core.Infra("gen_special_z: no case")


def request_length(case: dict) -> float:
    """Length of the curve a request describes, worked out the way a caller would who wants to give a path of his own as many
    segments as that one gets: closed form for circular arcs, a 500-point polygon for the others.  (Harness arithmetic only;
    it may differ from the library's own figure in the last bits, which matters only on a boundary of int().)"""
    s, shape = case["start"], case["shape"]

    def polygon(f, n):
        return float(np.linalg.norm(np.diff(np.asarray(f(np.linspace(0, 1, n)), dtype=float), axis=0), axis=1).sum())

    def enforce(d):
        if case["cw"]:
            return d - TWO_PI if d >= 0 else d
        return d + TWO_PI if d <= 0 else d

    if shape == "parametric":
        return case["fn"].get("length") or polygon(tc.param_fn(case["fn"]), 200)
    if shape == "spline":
        from scipy.interpolate import CubicSpline

        ctrl = [list(s)]
        for p in case["points"]:
            if list(p) != ctrl[-1]:
                ctrl.append(list(p))
        th = np.linspace(0, 1, len(ctrl))
        sp = [CubicSpline(th, [p[i] for p in ctrl]) for i in range(3)]
        return polygon(lambda t: np.column_stack([f(t) for f in sp]), 500)
    t = tc.spec_target(case)
    dz = t[2] - s[2]
    if shape == "arc_radius":
        r, d = abs(case["radius"]), math.hypot(t[0] - s[0], t[1] - s[1])
        r = max(r, d / 2)
        ang = 2 * math.asin(min(1.0, d / (2 * r)))
        return math.hypot(r * (TWO_PI - ang if case["radius"] < 0 else ang), dz)
    c = tc.spec_centre(case)
    r0 = math.hypot(s[0] - c[0], s[1] - c[1])
    a_o = math.atan2(s[1] - c[1], s[0] - c[0])
    if shape == "circle":
        return r0 * TWO_PI
    a_t = math.atan2(t[1] - c[1], t[0] - c[0])
    if shape == "arc":
        return math.hypot(r0 * enforce(a_t - a_o), dz)
    turns = max(1, int(abs(dz) / case["pitch"])) if shape == "thread" else case["turns"]
    total = enforce(a_t - a_o) + (-TWO_PI if case["cw"] else TWO_PI) * (turns - 1)
    r1 = math.hypot(t[0] - c[0], t[1] - c[1])

    def helix(th):
        rad, ang = r0 + (r1 - r0) * th, a_o + total * th
        return np.column_stack((c[0] + rad * np.cos(ang), c[1] + rad * np.sin(ang), s[2] + dz * th))

    return polygon(helix, 500)


def gen_after_user_fn(rng) -> dict:
    """A library shape traced right after a call of the public `trace.parametric(function, length)` with a path function of
    the caller's own (see `user_fn`), whose `length`, at the resolution it is traced with (k = 1, 1/2, 2 or 4 times the shape's,
    the length scaled alike), gives the same int(10 * length / resolution) as the shape's own length does; half of the functions
    work in place on the array they are handed; same builder (then moved back onto the start) or a second one.  The request
    that is judged is the library shape."""
    shape = rng.choice(["arc", "circle", "arc_radius", "helix", "spiral", "thread", "spline", "parametric", "arc", "circle", "helix"])
    while True:
        c = tc.gen_case(rng, shape, ratio=(0.7, 2.2), max_samples=3000)
        if not c.get("invalid"):
            break
    c["switch"] = False
    c.pop("warm_near", None)
    L = request_length(c)
    k = rng.choice([1.0, 1.0, 1.0, 0.5, 2.0, 4.0])
    fn = rng.choice(["ring", "ring", "ring", "apex-parabola", "apex-parabola", "eased-line"])
    b = {"fn": fn, "inplace": rng.random() < 0.5, "size": L * k, "length": L * k, "k": k, "builder": rng.choice(["same", "same", "other"])}
    if fn == "ring":
        b["turns"] = rng.choice([1, 1, 2])
    elif fn == "eased-line":
        u = [rng.uniform(-1, 1) for _ in range(3)]
        nu = math.sqrt(sum(x * x for x in u)) or 1.0
        b["d"] = [x / nu * L * k for x in u]
    else:
        b.update(w=L * k * rng.uniform(0.3, 0.7) * rng.choice([-1, 1]), kk=L * k * rng.uniform(0.2, 0.6) * rng.choice([-1, 1]), h=L * k * rng.uniform(-0.3, 0.3))
    c["before"] = b
    return c


def _after(case: dict, **b) -> dict:
    L = request_length(case) * b["k"]
    return dict(case, before=dict(b, size=L, length=L))


# hand-written members of the two families above
CORPUS_SPECIAL_Z = [
    {"shape": "thread", "cw": False, "rel": False, "start": [4.0, -2.0, -6.0], "res": 0.25, "units": "mm", "dp": 5, "target": [10.0, -2.0, 0], "pitch": 2.5, "zword": "zero"},
    {"shape": "arc_radius", "cw": True, "rel": True, "start": [1.0, 1.0, 3.0], "res": 0.2, "units": "mm", "dp": 6, "target": [11.0, 11.0, 0.0], "radius": 10.0, "zword": "minus-current"},
    {"shape": "spiral", "cw": False, "rel": False, "start": [-4.0, 6.0, 2.5], "res": 0.2, "units": "in", "dp": 6, "target": [6.0, 6.0, -2.5], "turns": 2, "zword": "minus-current"},
]


def corpus_after_user_fn() -> list:
    return [
        _after({"shape": "arc", "cw": True, "rel": False, "start": [10.0, 0.0, 2.0], "res": 0.25, "units": "mm", "dp": 5, "target": [0.0, 10.0, 4.0], "center": [-10.0, 0.0]},
               fn="apex-parabola", inplace=True, k=1.0, builder="other", w=12.0, kk=-9.0, h=1.5),
        _after({"shape": "helix", "cw": False, "rel": True, "start": [15.0, -5.0, 4.0], "res": 0.5, "units": "mm", "dp": 6, "target": [10.0, -12.5, -2.0], "center": [-5.0, 0.0], "turns": 2},
               fn="ring", inplace=True, k=2.0, builder="same", turns=1),
        _after({"shape": "spline", "cw": True, "rel": False, "start": [2.0, 2.0, 0.5], "res": 0.2, "units": "mm", "dp": 5, "points": [[7.0, 7.0, 0.0], [12.0, -3.0, 1.0], [17.0, 2.0, 0.0]]},
               fn="ring", inplace=False, k=1.0, builder="same", turns=2),
    ]


def run(R: core.Run):
    R.rule = (
        "tracer requests drawn per shape (arc, arc_radius, circle, helix, thread, spiral, spline, polyline, user parametric) x "
        "{cw, ccw} x {absolute, relative} x starts on a 1/8 grid within +-50 (8% at the origin) x resolution 10^U(-3,1) x "
        "path/resolution 10^U(0,2.5) (6% below 1) x {mm, in} (25% after a unit switch) x decimal places {5,6,9}; ~8% geometrically "
        "invalid requests; plus five families: bearings of start and target 10^U(-6.3,-1.5) rad apart (arc, arc_radius, helix; "
        "the short way round and the long way round; radius 10^U(-0.5,3.7)), spline/polyline through whole-number points given "
        "as Python ints from fractional starts, arc/circle/helix centre offsets with a third non-zero component, "
        "helical arc/arc_radius/helix/spiral/thread from a current Z != 0 whose Z word is exactly 0 / the current Z / minus the current Z "
        "(both modes), a library shape traced after a user call of trace.parametric() with the same int(10*length/resolution) whose path "
        "function works in place on its argument (50%), on the same builder or on a second one; "
        "non-trivial = accepted request that emitted >= 3 moves; distinct by hash of the request"
    )
    R.assumptions = [
        "floating-point rounding inside numpy/libm is sampled, not proved: formula stage agrees within 1e-9*scale at the recorded thetas",
        "scipy CubicSpline is trusted to interpolate; checked at the control parameters only",
        "the G-code is re-read by the harness's own interpreter (G0/G1/G90/G91, XYZ words)",
        "identity transform, no hooks, no bounds (those are C04/C20/C03)",
    ]
    R.trusted = [
        "Lean 4.33 kernel; axioms propext, Classical.choice, Quot.sound only (audited per theorem)",
        "Mathlib modules Analysis.SpecialFunctions.Trigonometric.Basic, ...Complex.Arg, Tactic.Linarith/Ring/FieldSimp (proof files only)",
        "hand-written Lean model Model/Tracer.lean (generic over the scalar; proved at R and Q, executed at Float) tied to /repo by this run's two-stage correspondence",
        "Python harness: generators, adapter (instance-level wrapper of trace.parametric), G-code interpreter, oracle",
    ]
    run_batch(R, [dict(c) for c in CORPUS], "corpus")
    n = R.n(400, 8000)
    hi = 2.5 if not R.thorough else 4.0
    cap = 12000 if not R.thorough else 120000
    cases = []
    for i in range(n):
        shape = tc.SHAPES[i % len(tc.SHAPES)] if i < n * 0.8 else None
        # thorough: most cases moderate, a tail over four decades of path/resolution
        r = (0.0, hi) if (not R.thorough or i % 25 == 0) else (0.0, 2.3)
        cases.append(tc.gen_case(R.rng, shape, ratio=r, max_samples=cap, malformed=0.08))
    chunk = 200
    for k in range(0, len(cases), chunk):
        run_batch(R, cases[k : k + chunk], "random")
    # families the uniform draw above (almost) never produces; the model covers all of them
    run_batch(R, [dict(c) for c in CORPUS_FAMILIES], "corpus-families")
    fam = [gen_tiny_sweep(R.rng) for _ in range(R.n(60, 1200))]
    run_batch(R, fam, "family:tiny-sweep")
    fam = [gen_int_points(R.rng) for _ in range(R.n(45, 900))]
    run_batch(R, fam, "family:int-points")
    fam = [gen_centre_z(R.rng) for _ in range(R.n(36, 700))]
    run_batch(R, fam, "family:centre-z")
    fam = [dict(c) for c in CORPUS_SPECIAL_Z] + [gen_special_z(R.rng) for _ in range(R.n(60, 1200))]
    run_batch(R, fam, "family:special-z")
    # last, so that nothing a user function left behind can reach the requests above
    fam = corpus_after_user_fn() + [gen_after_user_fn(R.rng) for _ in range(R.n(60, 1200))]
    run_batch(R, fam, "family:after-user-fn")
    if R.broken:
        # failing-input search: a fresh batch judged by the oracle only, biased to the shapes that disagreed
        R.search_batches += 1
        shapes = [b["case"]["shape"] for b in R.broken if isinstance(b.get("case"), dict)] or tc.SHAPES
        extra = [tc.gen_case(R.rng, R.rng.choice(shapes + tc.SHAPES), ratio=(0.0, 2.0), max_samples=6000) for _ in range(R.n(300, 2000))]
        run_batch(R, extra, "search", correspond=False)
    return {}, {}


def replay(data):
    core.use_repo()
    fl = data.get("failure") or data.get("first", {})
    case = fl.get("case")
    if not isinstance(case, dict) or "shape" not in case:
        print("replay: no case recorded (", data.get("no_longer_checks"), ")")
        return 1
    impl = run_impl(case)
    msgs = oracle(case, impl)
    R = core.Run(PROP, "quick", 0)
    st = tc.Stage(R, PROP)
    st.add(case, impl)
    st.run()
    print("case  :", case)
    print("impl  :", impl["outcome"], f"{len(impl['verts']) - 1} moves, last vertex", [float(x) for x in impl["verts"][-1]])
    print("model :", "agrees" if not R.broken else f"DISAGREES: {R.broken[0]['name']}: impl {R.broken[0]['impl']} / model {R.broken[0]['model']}")
    print("oracle:", "; ".join(m for _, m in msgs) or "ok")
    return 1 if (msgs or R.broken) else 0

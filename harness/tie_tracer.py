"""Validation of the translator `tools/gen_tracer.py` (and of the prelude `Model/TracerPrelude.lean` behind the numpy
primitives): the *generated* Lean functions (driver mode `tracersrc`, built from the committed `Gen/TracerSrc.lean`,
executed at `Float`) against the real `Direction`, `GCodeCore` and `PathTracer` code on the same random inputs (see
`tie_state.py` for the role of this run).

What is compared, and how:

* `Direction.enforce / full_turn`, `to_absolute`, `to_absolute_list`, `to_distance_mode`  - direct calls, exact (as doubles);
* `_filter_segments` on random point arrays (straight, zig-zag, repeated points, exact grids on which `remaining` lands
  exactly on the tolerance, so that `<` and `<=` differ)                                                                           - direct call, exact;
* `parametric` / `estimate_length` with the polynomial path functions `θ ↦ a + θ·d + θ²·e` (the same IEEE operations on
  both sides): `parametric` exact (the array returned by `_filter_segments` is recorded by shadowing the bound method on
  the *instance*), `estimate_length` within 1e-12 relative (numpy sums pairwise);
* `arc`, `circle`, `helix`, `thread`, `spiral`: the call of `self.parametric(function, length)` is recorded by shadowing
  the bound method on the instance; `ValueError` or not must agree, `length` and `function(thetas)` on a random grid
  within 1e-9·scale (libm `hypot`/`cos`/`sin` may differ from numpy's in the last place).  The number of vertices of the
  whole translated path is compared with the real one as a *soft* outcome (`path-same` / `path-differs` in the
  histogram): a keep/skip decision of the filter may legitimately hang on the last bit of a sample;
* `arc_radius`: as the other shapes (radii well above half the chord, exactly half the chord on Pythagorean chords,
  inside the 0.01 snap tolerance, too small, zero and `-0.0`);
* `polyline` and the whole `parametric` (its final loop included): the points handed to `self._g.move` are recorded by
  wrapping `move` on the builder *instance* (the real `move` still runs, so the position the next vertex is converted
  against is the real builder's), the translated functions run with `moveEffect pos p = to_absolute(p)`  - exact;
* `spline`, control points: `CubicSpline` is replaced *in the module namespace of `gscrib.geometry.tracer`* by a recorder
  (restored afterwards); the `thetas` grid and the three coordinate lists it receives are compared exactly with what the
  translated `spline_args` hands to its `CubicSpline` parameter (targets with `None` components, repeated points, zero
  offsets, `-0.0`); fewer than two distinct points: `ValueError` on both sides;
* `spline`, whole path: the same stand-in spline on both sides (`y[0] + θ·(y[-1] − y[0]) + θ²·(y[1] − y[0])/8`); the
  recorded moves are compared within 1e-9·scale when both sides emit the same number of them (`spline-same`), the
  count alone is a soft outcome (`spline-differs`: `estimate_length` sums pairwise in numpy).
"""
from __future__ import annotations

import math
import struct

import numpy as np

from . import core

MODE = "tracersrc"


def bits(f) -> str:
    return str(struct.unpack(">Q", struct.pack(">d", float(f)))[0])


def unbits(s: str) -> float:
    return struct.unpack(">d", struct.pack(">Q", int(s)))[0]


def pl(p, width=3) -> str:
    p = list(p) + [None] * (width - len(p))
    return ";".join("-" if v is None else bits(v) for v in p)


def rows(a) -> str:
    return ",".join(";".join(bits(v) for v in r) for r in a)


def unrows(s: str):
    if not s:
        return []
    return [tuple(unbits(v) for v in r.split(";")) for r in s.split(",")]


def num(rng, grid_p=0.5):
    """a coordinate: half of the time on a dyadic grid, otherwise any double of moderate size"""
    if rng.random() < grid_p:
        return rng.randint(-640, 640) / 32
    return rng.uniform(-50, 50)


def point(rng, p_none=0.0, n=3):
    return [None if rng.random() < p_none else num(rng) for _ in range(n)]


def _writer():
    from gscrib.writers import BaseWriter

    class Rec(BaseWriter):
        def __init__(self):
            self.lines = []

        def connect(self):
            return self

        def disconnect(self, wait=True):
            pass

        def write(self, b):
            self.lines.append(b)

    return Rec()


def builder(pos, rel, cw=True, res=0.1):
    """a real builder put into a given state by direct assignment (the translated methods read exactly these attributes)"""
    from gscrib import GCodeBuilder
    from gscrib.enums import Direction, DistanceMode
    from gscrib.geometry import Point

    g = GCodeBuilder()
    g.add_writer(_writer())
    g._current_axes = Point(*[None if v is None else float(v) for v in pos])
    g._distance_mode = DistanceMode.RELATIVE if rel else DistanceMode.ABSOLUTE
    g.state._current_direction = Direction.CLOCKWISE if cw else Direction.COUNTER
    g.state._current_resolution = float(res)
    return g


def quad_fn(a, d, e):
    def f(th):
        return np.column_stack([a[k] + th * d[k] + th * th * e[k] for k in range(3)])

    return f


def close(x, y, tol):
    return abs(x - y) <= tol or (math.isnan(x) and math.isnan(y))


class Checker:
    def __init__(self):
        self.lines, self.checks, self.outcomes = [], [], {}

    def count(self, k):
        self.outcomes[k] = self.outcomes.get(k, 0) + 1

    def add(self, line, impl, compare):
        """compare(model_record) -> None | (impl_text, model_text)"""
        self.lines.append(line)
        self.checks.append((impl, compare))


def exact_rows(want):
    want = [tuple(float(v) for v in r) for r in want]

    def cmp(rec):
        got = unrows(rec) if rec != "ValueError" else None
        if got is None or len(got) != len(want) or any(a != b for r, s in zip(got, want) for a, b in zip(r, s)):
            return (str(want[:6]) + f" ({len(want)} rows)", rec[:300])
        return None

    return cmp


def exact_text(want: str):
    return lambda rec: None if rec == want else (want, rec[:300])


# ------------------------------------------------------------------ the individual operations
def op_direction(rng, ck):
    from gscrib.enums import Direction

    cw = rng.random() < 0.5
    d = Direction.CLOCKWISE if cw else Direction.COUNTER
    if rng.random() < 0.2:
        ck.count("full_turn")
        ck.add(f"fullturn cw={int(cw)}", None, exact_text(bits(d.full_turn())))
        return
    a = rng.choice([0.0, -0.0, math.pi, -math.pi, 2 * math.pi, rng.uniform(-7, 7), rng.uniform(-1e-9, 1e-9)])
    ck.count("enforce")
    want = float(d.enforce(a))
    ck.add(f"enforce cw={int(cw)} a={bits(a)}", None, lambda rec, want=want: None if unbits(rec) == want else (repr(want), repr(unbits(rec))))


def op_core(rng, ck):
    from gscrib.geometry import Point

    rel = rng.random() < 0.5
    axes = point(rng, 0.25)
    g = builder(axes, rel)
    k = rng.choice(["abs", "abslist", "dist"])
    ck.count(k)
    if k == "abs":
        p = point(rng, 0.3, rng.choice([2, 3]))
        want = g.to_absolute(tuple(p))
        ck.add(f"abs rel={int(rel)} axes={pl(axes)} p={pl(p)}", None, exact_rows([want]))
    elif k == "dist":
        p = point(rng, 0.3)
        want = g.to_distance_mode(Point(*p))
        ck.add(f"dist rel={int(rel)} axes={pl(axes)} p={pl(p)}", None, exact_rows([want]))
    else:
        ps = [point(rng, 0.3, rng.choice([2, 3])) for _ in range(rng.randint(0, 5))]
        want = g.to_absolute_list([tuple(p) for p in ps])
        ck.add(f"abslist rel={int(rel)} axes={pl(axes)} pts={','.join(pl(p) for p in ps)}", None, exact_rows(want))


def gen_samples(rng):
    """point arrays for `_filter_segments`: (N, 3), N >= 0"""
    kind = rng.choice(["empty", "one", "grid", "tie", "tie", "line", "walk", "repeat"])
    res = rng.choice([0.1, 0.5, 1.0, 0.25, rng.uniform(0.01, 2)])
    if kind == "empty":
        return res, np.zeros((0, 3))
    if kind == "one":
        return res, np.array([point(rng)])
    n = rng.randint(2, 60)
    if kind == "grid":          # steps of exactly res/10, res/5, res/2 … on a dyadic resolution: `remaining` meets the tolerance
        res = rng.choice([0.5, 1.0, 2.0, 0.25])
        step = res / rng.choice([10, 5, 4, 2, 1])
        xs = np.arange(n) * step
        return res, np.column_stack([xs, np.zeros(n), np.zeros(n)])
    if kind == "tie":           # resolution 10·2^k: the tolerance is a dyadic number and `remaining` lands exactly on it
        res = rng.choice([10.0, 5.0, 2.5, 20.0])
        xs = np.cumsum([rng.choice([1, 2, 3, 4, 5, 9]) * (res / 10) for _ in range(n)])
        axis = rng.randrange(3)
        pts = np.zeros((n, 3))
        pts[:, axis] = xs
        return res, pts
    if kind == "line":
        a, d = np.array(point(rng)), np.array(point(rng)) * rng.choice([0.001, 0.01, 0.1])
        return res, a + np.arange(n)[:, None] * d
    steps = np.array([[rng.gauss(0, res / rng.choice([3, 10, 30])) for _ in range(3)] for _ in range(n)])
    if kind == "repeat":
        steps[np.array([rng.random() < 0.3 for _ in range(n)])] = 0
    return res, np.array(point(rng)) + np.cumsum(steps, axis=0)


def op_filter(rng, ck):
    res, pts = gen_samples(rng)
    g = builder([0, 0, 0], False, res=res)
    want = g.trace._filter_segments(np.array(pts, dtype=np.float64))
    ck.count(f"filter-kept-{'all' if len(want) == len(pts) else 'some'}")
    ck.add(f"filter res={bits(res)} pts={rows(pts)}", None, exact_rows(want))


def gen_quad(rng):
    a = [num(rng) for _ in range(3)]
    d = [num(rng) * rng.choice([0.1, 1]) for _ in range(3)]
    e = [0.0, 0.0, 0.0] if rng.random() < 0.5 else [num(rng) * 0.1 for _ in range(3)]
    return a, d, e


def op_param(rng, ck):
    a, d, e = gen_quad(rng)
    f = quad_fn(a, d, e)
    res = rng.choice([0.1, 0.5, 1.0, rng.uniform(0.05, 2)])
    g = builder([0, 0, 0], rng.random() < 0.5, res=res)
    tr = g.trace
    if rng.random() < 0.3:
        n = rng.choice([2, 3, 10, 200, 500])
        want = float(tr.estimate_length(n, f))
        ck.count("estimate_length")

        def cmp(rec, want=want):
            got = unbits(rec)
            return None if close(got, want, 1e-12 * max(1.0, abs(want))) else (repr(want), repr(got))

        ck.add(f"estlen n={n} a={pl(a)} d={pl(d)} e={pl(e)}", None, cmp)
        return
    length = rng.choice([0.0, -1.0, float(tr.estimate_length(100, f)), rng.uniform(0.01, 30), 4.0])
    kept = []
    orig = tr._filter_segments
    tr._filter_segments = lambda pts: kept.append(orig(pts)) or kept[-1]       # instance attribute shadows the method
    try:
        tr.parametric(f, float(length))
        outcome = "ok"
    except ValueError:
        outcome = "ValueError"
    finally:
        del tr._filter_segments
    ck.count(f"parametric-{outcome}")
    line = f"param res={bits(res)} len={bits(length)} a={pl(a)} d={pl(d)} e={pl(e)}"
    ck.add(line, None, exact_text("ValueError") if outcome != "ok" else exact_rows(kept[0]))


TRIPLES = [(3, 4), (4, 3), (6, 8), (5, 12), (-3, 4), (8, -6), (0, 10), (-10, 0), (12, 5)]


def gen_arc_radius(rng):
    """arc_radius: a chord from the current position and a radius around the half chord"""
    rel = rng.random() < 0.5
    cw = rng.random() < 0.5
    pos = point(rng, 0.15)
    o = [0.0 if v is None else v for v in pos]
    res = rng.choice([0.1, 0.5, 1.0, rng.uniform(0.05, 1)])
    exact = rng.random() < 0.4
    if exact:                       # a Pythagorean chord on the dyadic grid: hypot is exact everywhere
        o = [float(round(v * 4)) / 4 for v in o]
        pos = [None if p is None else v for p, v in zip(pos, o)]
        k = rng.choice([0.25, 0.5, 1.0, 2.0])
        dx, dy = (k * c for c in rng.choice(TRIPLES))
    else:
        dx, dy = rng.uniform(-20, 20), rng.uniform(-20, 20)
    half = math.hypot(dx, dy) / 2
    how = rng.choice(["big", "big", "big", "half", "snap", "snap", "small", "small", "zero"])
    if how == "big":
        radius = half * rng.choice([1.05, 1.5, 2.0, 10.0, rng.uniform(1.05, 5)])
    elif how == "half":
        radius = half if exact else half * 1.05
    elif how == "snap":
        radius = max(half - rng.choice([0.005, 0.001, 0.0099]), 0.0)
    elif how == "small":
        radius = max(half - rng.choice([0.02, 0.0101, 0.05, 0.09, 1.0]), 0.0)
    else:
        radius = 0.0
    if rng.random() < 0.5:
        radius = -radius            # the long arc (and `-0.0`)
    z = rng.choice([None, "none3", o[2], o[2] + rng.uniform(-10, 10)])
    t_abs = [o[0] + dx, o[1] + dy]
    target_abs = t_abs if z is None else t_abs + [None if z == "none3" else z]
    target = [None if v is None else (v - o[i] if rel else v) for i, v in enumerate(target_abs)]
    return {"kind": "arc_radius", "rel": rel, "cw": cw, "pos": pos, "res": res, "center": [0.0, 0.0], "target": target,
            "turns": 1, "pitch": 1.0, "radius": radius, "how": how}


def gen_shape(rng):
    kind = rng.choice(["arc", "arc", "circle", "helix", "thread", "spiral", "arc_radius", "arc_radius", "arc_radius"])
    if kind == "arc_radius":
        return gen_arc_radius(rng)
    rel = rng.random() < 0.5
    cw = rng.random() < 0.5
    pos = point(rng, 0.15)
    o = [0.0 if v is None else v for v in pos]
    res = rng.choice([0.1, 0.5, 1.0, rng.uniform(0.05, 1)])
    case = {"kind": kind, "rel": rel, "cw": cw, "pos": pos, "res": res}
    r = rng.choice([1.0, 2.5, rng.uniform(0.5, 20)])
    a0 = rng.uniform(-math.pi, math.pi)
    c_abs = [o[0] - r * math.cos(a0), o[1] - r * math.sin(a0)]
    case["center"] = [c_abs[0] - o[0], c_abs[1] - o[1]] + ([None] if rng.random() < 0.3 else [])
    if rng.random() < 0.3:      # axis-aligned, exactly representable
        r = float(rng.randint(1, 16))
        case["center"] = rng.choice([[-r, 0.0], [0.0, r], [r, 0.0], [0.0, -r]])
        c_abs = [o[0] + case["center"][0], o[1] + case["center"][1]]
        a0 = math.atan2(o[1] - c_abs[1], o[0] - c_abs[0])
    a1 = a0 + rng.uniform(-6, 6)
    r1 = r
    if kind in ("helix", "spiral"):
        r1 = r * rng.choice([1.0, 0.5, 2.0, rng.uniform(0.2, 3)])
    if kind == "arc" and rng.random() < 0.15:
        r1 = r * rng.choice([1.01, 0.9, 1 + 1e-6])      # not on the circle: ValueError
    t_abs = [c_abs[0] + r1 * math.cos(a1), c_abs[1] + r1 * math.sin(a1)]
    if kind == "arc" and rng.random() < 0.2:            # exact quarter / half turns
        cx, cy = case["center"][0], case["center"][1]
        t_abs = rng.choice([[o[0] + cx - cy, o[1] + cy + cx], [o[0] + 2 * cx, o[1] + 2 * cy], [o[0] + cx + cy, o[1] + cy - cx]])
    z = rng.choice([None, "none3", o[2], o[2] + rng.uniform(-10, 10)])
    if z is None:
        target_abs = t_abs                      # a 2-tuple: len(target) == 2
    elif z == "none3":
        target_abs = t_abs + [None]             # a 3-tuple with z = None: len(target) == 3
    else:
        target_abs = t_abs + [z]
    if kind == "spiral":
        # the centre is the current position
        d = [rng.uniform(-10, 10), rng.uniform(-10, 10)]
        target_abs = [o[0] + d[0], o[1] + d[1]] + target_abs[2:]
    target = [None if v is None else (v - o[i] if rel else v) for i, v in enumerate(target_abs)]
    case["target"] = target
    case["turns"] = rng.choice([1, 1, 2, 3, 0, -1])
    case["pitch"] = rng.choice([1.0, 0.5, 2.0, 0.0, -1.0, rng.uniform(0.2, 5)])
    return case


def op_shape(rng, ck):
    case = gen_shape(rng)
    g = builder(case["pos"], case["rel"], case["cw"], case["res"])
    tr = g.trace
    calls = []
    tr.parametric = lambda function, length, **kw: calls.append((function, float(length)))
    kind = case["kind"]
    target, center = tuple(case["target"]), tuple(case["center"])
    try:
        if kind == "arc":
            tr.arc(target, center)
        elif kind == "arc_radius":
            tr.arc_radius(target, case["radius"])
        elif kind == "circle":
            tr.circle(center)
        elif kind == "helix":
            tr.helix(target, center, case["turns"])
        elif kind == "thread":
            tr.thread(target, case["pitch"])
        else:
            tr.spiral(target, case["turns"])
        outcome = "ok"
    except ValueError:
        outcome = "ValueError"
    finally:
        del tr.parametric
    # the whole path on a fresh builder in the same state: number of vertices handed to `move`
    n_path = None
    if outcome == "ok":
        g2 = builder(case["pos"], case["rel"], case["cw"], case["res"])
        kept = []
        orig = g2.trace._filter_segments
        g2.trace._filter_segments = lambda pts: kept.append(orig(pts)) or kept[-1]
        try:
            getattr(g2.trace, kind)(*{"arc": (target, center), "arc_radius": (target, case.get("radius")), "circle": (center,), "helix": (target, center, case["turns"]),
                                      "thread": (target, case["pitch"]), "spiral": (target, case["turns"])}[kind])
            n_path = len(kept[0])
        except ValueError:
            n_path = "E"
        finally:
            del g2.trace._filter_segments
    th = sorted(rng.choice([0.0, 1.0, 0.5, rng.random()]) for _ in range(6))
    line = (f"shape kind={kind} cw={int(case['cw'])} rel={int(case['rel'])} pos={pl(case['pos'])} res={bits(case['res'])} "
            f"target={pl(case['target'])} tlen={len(case['target'])} center={pl(case['center'])} turns={case['turns']} "
            f"pitch={bits(case['pitch'])} radius={bits(case.get('radius', 0.0))} th={','.join(bits(t) for t in th)}")
    ck.count(f"{kind}-{outcome}" + (f"-{case['how']}" if kind == "arc_radius" else ""))
    if outcome != "ok":
        ck.add(line, None, exact_text("ValueError"))
        return
    function, length = calls[0]
    want = np.array(function(np.array(th)), dtype=np.float64)
    scale = max(1.0, float(np.max(np.abs(want))), abs(length))

    def cmp(rec, want=want, length=length, scale=scale, n_path=n_path):
        if rec == "ValueError":
            return (f"ok L={length!r}", rec)
        f = dict(w.split("=", 1) for w in rec.split(" "))
        got_l, got = unbits(f["L"]), unrows(f["pts"])
        if not close(got_l, length, 1e-9 * scale):
            return (f"L={length!r}", f"L={got_l!r}")
        for r, s in zip(got, want):
            if any(not close(a, float(b), 1e-9 * scale) for a, b in zip(r, s)):
                return (str(want.tolist()), str(got))
        ck.count("path-same" if str(n_path) == f["np"] else "path-differs")
        return None

    ck.add(line, None, cmp)


def record_moves(g):
    """wrap `move` on the builder instance: the points the tracer hands to it, in order (the real move still runs)"""
    moves = []
    orig = g.move

    def move(point=None, **kw):
        moves.append(tuple(float(v) for v in point))
        return orig(point, **kw)

    g.move = move
    return moves


def gen_targets(rng, dup_p=0.35):
    """targets for polyline / spline: 2- or 3-tuples with `None` components, repeated points, zero offsets, -0.0"""
    n = rng.choice([0, 1, 2, 3, 4, 6])
    out = []
    for _ in range(n):
        if out and rng.random() < dup_p:
            out.append(list(out[-1]))
            continue
        w = rng.choice([2, 3])
        q = [None if rng.random() < 0.25 else rng.choice([0.0, -0.0, 1.0, rng.randint(-64, 64) / 8, num(rng)]) for _ in range(w)]
        out.append(q)
    return out


def op_poly(rng, ck):
    rel = rng.random() < 0.5
    axes = point(rng, 0.25)
    ps = gen_targets(rng, 0.15)
    g = builder(axes, rel)
    moves = record_moves(g)
    g.trace.polyline([tuple(q) for q in ps])
    ck.count(f"polyline-{'rel' if rel else 'abs'}-{min(len(ps), 3)}")
    ck.add(f"poly rel={int(rel)} axes={pl(axes)} pts={','.join(pl(q) for q in ps)}", None, exact_rows(moves))


def op_pmoves(rng, ck):
    a, d, e = gen_quad(rng)
    f = quad_fn(a, d, e)
    res = rng.choice([0.1, 0.5, 1.0, rng.uniform(0.05, 2)])
    rel = rng.random() < 0.5
    axes = point(rng, 0.25)
    g = builder(axes, rel, res=res)
    length = rng.choice([0.0, -1.0, float(g.trace.estimate_length(100, f)), rng.uniform(0.01, 30), 4.0])
    moves = record_moves(g)
    try:
        g.trace.parametric(f, float(length))
        outcome = "ok"
    except ValueError:
        outcome = "ValueError"
    ck.count(f"parametric-moves-{'rel' if rel else 'abs'}-{outcome}")
    line = f"pmoves rel={int(rel)} axes={pl(axes)} res={bits(res)} len={bits(length)} a={pl(a)} d={pl(d)} e={pl(e)}"
    ck.add(line, None, exact_text("ValueError") if outcome != "ok" else exact_rows(moves))


class _Stop(Exception):
    pass


def op_controls(rng, ck):
    import gscrib.geometry.tracer as tm

    rel = rng.random() < 0.5
    axes = [None if rng.random() < 0.25 else rng.choice([0.0, 1.0, rng.randint(-64, 64) / 8]) for _ in range(3)]
    ps = gen_targets(rng)
    if rel:                     # offsets: make zero offsets (a repeated point) likely
        ps = [[None if v is None else rng.choice([v, 0.0, 0.0, -0.0]) for v in q] for q in ps]
    g = builder(axes, rel)
    seen = []
    real = tm.CubicSpline
    tm.CubicSpline = lambda x, y: seen.append(([float(v) for v in x], [float(v) for v in y])) or (lambda th: np.zeros(len(th)))
    g.trace.parametric = lambda function, length, **kw: None
    try:
        g.trace.spline([tuple(q) for q in ps])
        outcome = "ok"
    except ValueError:
        outcome = "ValueError"
    finally:
        tm.CubicSpline = real
        del g.trace.parametric
    line = f"controls rel={int(rel)} axes={pl(axes)} pts={','.join(pl(q) for q in ps)}"
    if outcome != "ok":
        ck.count("spline-controls-ValueError")
        ck.add(line, None, exact_text("ValueError"))
        return
    grid = seen[0][0]
    controls = list(zip(seen[0][1], seen[1][1], seen[2][1]))
    same_grid = all(s_[0] == grid for s_ in seen) and len(seen) == 3
    ck.count(f"spline-controls-{'dropped' if len(controls) < len(ps) + 1 else 'all'}")
    want = f"grid={','.join(bits(v) for v in grid)} controls={rows(controls)}" if same_grid else "three different grids"
    ck.add(line, None, exact_text(want))


def op_spline(rng, ck):
    import gscrib.geometry.tracer as tm

    rel = rng.random() < 0.5
    axes = point(rng, 0.25)
    ps = gen_targets(rng, 0.2)
    res = rng.choice([0.1, 0.5, 1.0, rng.uniform(0.05, 2)])
    g = builder(axes, rel, res=res)
    moves = record_moves(g)
    real = tm.CubicSpline

    def fake(x, y):
        a, d, e = y[0], y[-1] - y[0], (y[1] - y[0]) * 0.125
        return lambda th: a + th * d + th * th * e

    tm.CubicSpline = fake
    try:
        g.trace.spline([tuple(q) for q in ps])
        outcome = "ok"
    except ValueError:
        outcome = "ValueError"
    finally:
        tm.CubicSpline = real
    line = f"spline rel={int(rel)} axes={pl(axes)} res={bits(res)} pts={','.join(pl(q) for q in ps)}"
    ck.count(f"spline-{outcome}")
    if outcome != "ok":
        ck.add(line, None, exact_text("ValueError"))
        return
    scale = max([1.0] + [abs(v) for m in moves for v in m])

    def cmp(rec, moves=moves, scale=scale):
        if rec == "ValueError":
            return (f"{len(moves)} moves", rec)
        got = unrows(rec)
        if len(got) != len(moves):
            ck.count("spline-differs")
            return None
        for r, s_ in zip(got, moves):
            if any(not close(a, b, 1e-9 * scale) for a, b in zip(r, s_)):
                return (str(moves[:6]), str(got[:6]))
        ck.count("spline-same")
        return None

    ck.add(line, None, cmp)


OPS = [(op_direction, 1), (op_core, 3), (op_filter, 3), (op_param, 2), (op_shape, 5), (op_poly, 2), (op_pmoves, 2),
       (op_controls, 3), (op_spline, 1)]


def validate(rng, cases: int) -> dict:
    core.use_repo()
    ck = Checker()
    weighted = [f for f, w in OPS for _ in range(w)]
    for _ in range(cases * 3):
        rng.choice(weighted)(rng, ck)
    got = core.run_model(MODE, ck.lines)
    for ln, (impl, cmp), rec in zip(ck.lines, ck.checks, got):
        bad = cmp(rec)
        if bad is not None:
            return {"cases": cases, "calls": len(ck.lines), "outcomes": ck.outcomes,
                    "disagreement": {"ops": [ln[:2000]], "step": 0, "impl": bad[0], "model": bad[1]}}
    return {"cases": cases, "calls": len(ck.lines), "outcomes": ck.outcomes, "disagreement": None}

"""Validation of the translator `tools/gen_socket.py`: the *generated* Lean functions (driver mode `socketsrc`, built from
the committed `Gen/SocketSrc.lean`) against the real `gscrib.printrun.device.Device._readline_buf` /
`_readline_socket` (see `tie_state.py` for the role of this run).

A case is either one direct `_readline_buf()` call on an arbitrary buffer (empty chunks, newlines in any chunk), or a
number of successive `_readline_socket()` calls on one `Device` whose `_socketfile` / `_selector` are scripted.  The
script is a list of *passes* `(read0, select0, read1)` - the environment's answers during one trip through the
`while True:` loop (`Model/SocketPrelude.lean`) - lowered to the concrete sequence of `read()` / `select()` answers the
real code will ask for: `read0`; if that is None, `select0`; if that is non-empty, `read1`.  Unlike `harness/c17.py` the
scripted file is not sticky at end-of-stream and answers None once exhausted (the translation's `Pass.idle`), so that
several calls can be compared exactly, including the number of passes each side has consumed.
"""
from __future__ import annotations

from . import core


class _SockFile:
    def __init__(self, reads):
        self.reads, self.i = list(reads), 0

    def read(self, n):
        if self.i >= len(self.reads):
            return None
        v = self.reads[self.i]
        self.i += 1
        return v


class _Sel:
    def __init__(self, answers):
        self.answers, self.i = list(answers), 0

    def select(self, timeout):
        v = self.answers[self.i] if self.i < len(self.answers) else False
        self.i += 1
        return [object()] if v else []


def show_chunk(b) -> str:
    return "e" if b == b"" else bytes(b).hex()


def show_buf(buf) -> str:
    return "-" if not buf else ",".join(show_chunk(c) for c in buf)


def show_read(r) -> str:
    return "N" if r is None else show_chunk(r)


def show_dev(d) -> str:
    return f"c={1 if d._is_connected else 0} buf={show_buf(d._read_buffer)}"


def make_device(connected, buf, reads=(), sels=()):
    from gscrib.printrun.device import Device

    d = Device()
    d._type = "socket"
    d._device = object()
    d._socketfile = _SockFile(reads)
    d._selector = _Sel(sels)
    d._is_connected = connected
    d._timeout = 0
    d._hostname, d._port_number = "h", 1
    d._read_buffer = [bytes(c) for c in buf]
    return d


def lower(passes):
    """passes -> (reads, select answers, number of reads consumed at the end of each pass)"""
    reads, sels, ends = [], [], []
    for r0, s0, r1 in passes:
        reads.append(r0)
        if r0 is None:
            sels.append(s0)
            if s0:
                reads.append(r1)
        ends.append(len(reads))
    return reads, sels, ends


def impl_rb(connected, buf) -> str:
    d = make_device(connected, buf)
    try:
        line = d._readline_buf()
    except Exception as e:  # noqa: BLE001 - the class is the observable
        return "X" + type(e).__name__
    return f"{show_chunk(line)} | {show_dev(d)}"


def impl_rs(ncalls, connected, buf, passes) -> str:
    reads, sels, ends = lower(passes)
    d = make_device(connected, buf, reads, sels)
    out = []
    for _ in range(ncalls):
        try:
            r = d._readline_socket()
        except Exception as e:  # noqa: BLE001
            out.append("X" + type(e).__name__)
            break
        out.append("E" if r is None else "-" if r == b"" else "l" + bytes(r).hex())
    used = d._socketfile.i
    if used == 0:
        unread = len(passes)
    elif used in ends:
        unread = len(passes) - (ends.index(used) + 1)
    else:
        unread = f"misaligned({used} reads)"
    return " ".join(out) + f" | {show_dev(d)} unread={unread}"


ALPHABET = b"ab\r0 ok:\xff\x00"


def gen_bytes(rng, maxlen, dens, nonempty=False):
    n = rng.randint(1 if nonempty else 0, max(1, maxlen))
    return bytes(10 if rng.random() < dens else rng.choice(ALPHABET) for _ in range(n))


def gen_buf(rng, arbitrary):
    """arbitrary: any list of chunks; otherwise a buffer the code itself can have produced (no newline, no empty chunk
    except possibly a leftover tail in last position holding newlines)"""
    k = rng.choice([0, 0, 1, 1, 2, 3, 5])
    if arbitrary:
        return [gen_bytes(rng, rng.choice([1, 3, 8]), rng.choice([0.0, 0.2, 0.6])) for _ in range(k)]
    buf = [gen_bytes(rng, rng.choice([1, 3, 8]), 0.0, nonempty=True) for _ in range(k)]
    if k and rng.random() < 0.3:
        buf = [gen_bytes(rng, 8, 0.4, nonempty=True)]          # the tail left after a line was cut: may hold further lines
    return buf


def gen_read(rng, dens, maxk):
    x = rng.random()
    if x < 0.12:
        return None
    if x < 0.2:
        return b""
    return gen_bytes(rng, maxk, dens, nonempty=True)


def gen_passes(rng):
    n = rng.choice([0, 1, 2, 3, 6, 12, 30])
    dens = rng.choice([0.0, 0.05, 0.2, 0.5])
    maxk = rng.choice([1, 2, 4, 16, 256])
    p_none = rng.choice([0.1, 0.3, 0.6])
    passes = []
    for _ in range(n):
        r0 = None if rng.random() < p_none else gen_read(rng, dens, maxk)
        passes.append((r0, rng.random() < 0.6, gen_read(rng, dens, maxk)))
    return passes


def validate(rng, cases: int) -> dict:
    core.use_repo()
    lines, want = [], []
    outcomes: dict = {}

    def count(k):
        outcomes[k] = outcomes.get(k, 0) + 1

    calls = 0
    corpus = [
        (3, True, [b"a"], [(None, True, b"b\nc"), (b"d", False, None), (b"", False, None)]),
        (2, True, [], [(None, True, b"")]),
        (2, True, [b"a"], [(None, False, b"\n")]),
        (4, True, [b"a\nb\nc"], []),
        (3, False, [b"", b""], [(b"", True, None)]),
        (3, True, [b"x\n", b"y"], [(b"z\n", True, None)]),          # a buffer the code never produces: newline not in the last chunk
        (2, True, [], [(None, True, None), (b"x" * 255 + b"\n", False, None)]),
    ]
    work = [("rs",) + c for c in corpus]
    for _ in range(cases):
        if rng.random() < 0.35:
            work.append(("rb", rng.random() < 0.7, gen_buf(rng, rng.random() < 0.6)))
        else:
            passes = gen_passes(rng)
            n = rng.choice([1, 1, 2, 3, len(passes) + 2])
            work.append(("rs", n, rng.random() < 0.8, gen_buf(rng, rng.random() < 0.25), passes))
    for w in work:
        if w[0] == "rb":
            _, c, buf = w
            lines.append(f"rb {1 if c else 0} {show_buf(buf)}")
            rec = impl_rb(c, buf)
            calls += 1
            count("buf:" + ("error" if rec.startswith("X") else "line" if not rec.startswith("e |") else "nothing"))
        else:
            _, n, c, buf, passes = w
            ps = " ".join(f"{show_read(r0)};{1 if s0 else 0};{show_read(r1)}" for r0, s0, r1 in passes)
            lines.append(f"rs {n} {1 if c else 0} {show_buf(buf)} {ps}".rstrip())
            rec = impl_rs(n, c, buf, passes)
            toks = rec.split(" | ")[0].split(" ")
            calls += len(toks)
            for t in toks:
                count("socket:" + {"l": "line", "-": "empty", "E": "eof", "X": "error"}[t[0]])
            if "misaligned" in rec:
                count("socket:misaligned")
        want.append(rec)
    got = core.run_model("socketsrc", lines)
    for ln, w, g in zip(lines, want, got):
        if w != g:
            return {"cases": len(lines), "calls": calls, "outcomes": outcomes,
                    "disagreement": {"ops": [ln], "step": 0, "impl": w, "model": g}}
    return {"cases": len(lines), "calls": calls, "outcomes": outcomes, "disagreement": None}

"""C06 - the tool and coolant can always be switched off.

Model: Model/Builder.lean; theorems: Props/C06.lean.  Each case is a random history ending in one of the
four shutdown calls; the oracle judges that last call on what the real builder did."""
from __future__ import annotations

from . import builder_common as bc
from . import core
from .builder_impl import parse_record

PROP = "C06"
KEYS = ["out", "stmts", "tool", "coola", "spin", "pmode", "cool", "power"]
W = dict(move=6, dist=1, feed=2, power=3, toolon=10, tooloff=2, poweron=8, poweroff=2, coolon=8, cooloff=2,
         toolchange=2, halt=4, temp=3, misc=3, bounds=8)
SHUT = ["tooloff", "poweroff", "cooloff", "ehalt 0", "ehalt 1"]
EXPECT = {"tooloff": "M05", "poweroff": "M05", "cooloff": "M09", "ehalt 0": "M05;M09;_;M00", "ehalt 1": "M05;M09;_;M30"}


def oracle(lines, recs, im):
    out = []
    for i, (ln, rec) in enumerate(zip(lines, recs)):
        if ln in EXPECT:
            r = parse_record(rec)
            if r["out"] != "ok":
                out.append((i, f"`{ln}` raised {r['out']}", "shutdown-rejected"))
                continue
            if r["stmts"] != EXPECT[ln]:
                out.append((i, f"`{ln}` wrote {r['stmts']}, expected {EXPECT[ln]}", "shutdown-output"))
            if ln in ("tooloff", "poweroff") or ln.startswith("ehalt"):
                if r["tool"] != "0":
                    out.append((i, f"tool still reported active after `{ln}`", "still-active"))
            if ln == "cooloff" or ln.startswith("ehalt"):
                if r["coola"] != "0":
                    out.append((i, f"coolant still reported active after `{ln}`", "still-active"))
    return out


def histories(R, n):
    hs = []
    for _ in range(n):
        g = bc.Gen(R.rng, W, malformed=0.08)
        h = g.history(R.rng.randint(2, 25))
        if R.rng.random() < 0.5:   # a tool-power range that excludes zero, then start the tool inside it
            h += ["bounds tool-power 100 1000", R.rng.choice(["toolon clockwise 500", "poweron dynamic 100", "toolon counter 1000"])]
        if R.rng.random() < 0.5:
            h.append(R.rng.choice(["coolon mist", "coolon flood"]))
        h.append(R.rng.choice(SHUT))
        hs.append(h)
    return hs


def run(R: core.Run):
    R.rule = ("random histories reaching tool on (either API, any power) / coolant on / halted / bounded states, incl. tool-power "
              "ranges that exclude zero, each ending in tool_off, power_off, coolant_off or emergency_halt; non-trivial = tool "
              "or coolant active right before the shutdown call; distinct by hash")
    def nt(lines, recs):
        if len(recs) < 2:
            return False
        p = parse_record(recs[-2])
        return p["tool"] == "1" or p["coola"] == "1"
    corpus = [["bounds tool-power 100 1000", "toolon clockwise 500", s] for s in SHUT]
    bc.correspond(R, corpus, KEYS, True, "corpus", oracle, nt)
    bc.correspond(R, histories(R, R.n(1500, 20000)), KEYS, True, "random", oracle, nt)
    if R.broken:
        R.search_batches += 1
        for h in histories(R, R.n(1500, 5000)):
            lines, recs, im = bc.run_impl(h)
            R.evaluations += 1
            for step, msg, tag in oracle(lines, recs, im):
                R.fail({"history": lines[: step + 1]}, msg, tag=tag, step=step)
    return {}, {}


def replay(data):
    return bc.replay(data, KEYS, oracle)

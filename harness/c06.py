"""C06 - the tool and coolant can always be switched off.

Model: Model/Builder.lean; theorems: Props/C06.lean.  Each case is a random history ending in one of the
four shutdown calls; the oracle judges that last call on what the real builder did."""
from __future__ import annotations

from . import builder_common as bc
from . import core
from .builder_impl import parse_record

PROP = "C06"
KEYS = ["out", "stmts", "tool", "coola", "spin", "pmode", "cool", "power"]
W = dict(move=6, dist=1, feed=2, power=3, toolon=10, tooloff=2, poweron=8, poweroff=2, coolon=8, cooloff=2,
         toolchange=2, halt=4, temp=3, misc=3, bounds=8, home=2, probe=2, setaxis=1, moveabs=1, enter=1, exit=1, hook=1)
SHUT = ["tooloff", "poweroff", "cooloff", "ehalt 0", "ehalt 1"]
EXPECT = {"tooloff": "M05", "poweroff": "M05", "cooloff": "M09", "ehalt 0": "M05;M09;_;M00", "ehalt 1": "M05;M09;_;M30"}


def oracle(lines, recs, im):
    out = []
    for i, (ln, rec) in enumerate(zip(lines, recs)):
        ln = " ".join(ln.split()[:2]) if ln.startswith("ehalt") else ln     # `ehalt <reset> <message length>`
        if ln in EXPECT:
            r = parse_record(rec)
            if r["out"] != "ok":
                out.append((i, f"`{ln}` raised {r['out']}", "shutdown-rejected"))
                continue
            if r["stmts"] != EXPECT[ln]:
                out.append((i, f"`{ln}` wrote {r['stmts']}, expected {EXPECT[ln]}", "shutdown-output"))
            if ln in ("tooloff", "poweroff") or ln.startswith("ehalt"):
                if r["tool"] != "0":
                    out.append((i, f"tool still reported active after `{ln}`", "still-active"))
            if ln == "cooloff" or ln.startswith("ehalt"):
                if r["coola"] != "0":
                    out.append((i, f"coolant still reported active after `{ln}`", "still-active"))
    return out


def histories(R, n):
    hs = []
    for _ in range(n):
        g = bc.Gen(R.rng, W, malformed=0.08)
        h = g.history(R.rng.randint(2, 25))
        if R.rng.random() < 0.5:   # a tool-power range that excludes zero, then start the tool inside it
            h += ["bounds tool-power 100 1000", R.rng.choice(["toolon clockwise 500", "poweron dynamic 100", "toolon counter 1000"])]
        if R.rng.random() < 0.5:
            h.append(R.rng.choice(["coolon mist", "coolon flood"]))
        if R.rng.random() < 0.25:
            # states in which the machine position is (partly) unknown: right after homing or probing
            h.append(R.rng.choice(["home", "home x=0", "home z=0 y=0", "probe towards z=-1", "probe away-no-error x=1 y=1"]))
        shut = R.rng.choice(SHUT)
        if shut.startswith("ehalt") and R.rng.random() < 0.3:
            # the emergency stop right after the program was already halted (same or another way): it still does its whole job
            h += ["tooloff", "cooloff", R.rng.choice(["halt pause", "halt end-with-reset", "ehalt 0", "ehalt 1", "halt end-without-reset",
                                                       "halt optional-pause"])]
        if shut.startswith("ehalt") and R.rng.random() < 0.4:
            shut += " " + str(R.rng.choice([60, 250, 400, 2000]))    # length of the operator message
        h.append(shut)
        hs.append(h)
    return hs


def fault_cases(R, n):
    """oracle-only: a writer fails once, at the k-th statement of a first emergency_halt(); the caller catches the
    device error and calls emergency_halt() again - which must do its whole job."""
    from gscrib import GCodeBuilder
    from gscrib.excepts import DeviceError
    from gscrib.writers import BaseWriter
    from .builder_impl import canon_stmt

    for _ in range(n):
        r = R.rng
        k, reset1, reset2 = r.randint(1, 4), r.random() < 0.5, r.random() < 0.5

        class Flaky(BaseWriter):
            def __init__(self):
                self.lines, self.count, self.armed = [], 0, False

            def connect(self):
                return self

            def disconnect(self, wait=True):
                pass

            def flush(self):
                pass

            def write(self, b):
                if self.armed:
                    self.count += 1
                    if self.count == k:
                        self.armed = False
                        raise DeviceError("link glitch injected by the harness")
                self.lines.append(bytes(b).decode("utf-8"))

        g = GCodeBuilder(output=None, print_lines=False, line_endings="\n")
        w = Flaky()
        g.add_writer(w)
        prep = r.choice([["tool_on"], ["power_on"], ["coolant_on"], ["tool_on", "coolant_on"], []])
        for p_ in prep:
            {"tool_on": lambda: g.tool_on("clockwise", 1000), "power_on": lambda: g.power_on("dynamic", 40),
             "coolant_on": lambda: g.coolant_on("flood")}[p_]()
        w.armed = True
        first = "ok"
        try:
            g.emergency_halt("first attempt", reset1)
        except DeviceError:
            first = "DeviceError"
        except Exception as e:  # noqa
            R.evaluations += 1
            R.fail({"prepare": prep, "fault_at_statement": k, "reset": [reset1, reset2]},
                   f"emergency_halt() raised {type(e).__name__} (the only fault injected is a DeviceError of the writer)",
                   tag="shutdown-rejected")
            continue
        resume = r.random() < 0.5
        if resume:
            try:
                g.coolant_on("mist")
            except Exception:  # noqa
                pass
        n0 = len(w.lines)
        case = {"prepare": prep, "fault_at_statement": k, "first": first, "resumed_coolant": resume, "reset": [reset1, reset2]}
        R.evaluations += 1
        R.count("fault-injection")
        try:
            g.emergency_halt("second attempt", reset2)
        except Exception as e:  # noqa
            R.fail(case, f"second emergency_halt() raised {type(e).__name__}", tag="shutdown-rejected")
            continue
        got = ";".join(canon_stmt(l) for l in w.lines[n0:])
        want = EXPECT["ehalt 1" if reset2 else "ehalt 0"]
        if got != want:
            R.fail(case, f"second emergency_halt() wrote {got or 'nothing'}, expected {want}", tag="shutdown-output")
        elif g.state.is_tool_active or g.state.is_coolant_active:
            R.fail(case, "tool or coolant still reported active after the second emergency_halt()", tag="still-active")


def styled_cases(R, n):
    """oracle-only: builders configured with every comment style the formatter supports; the operator message of the
    emergency stop (and earlier comments / raw statements) contains text that looks like tool and coolant words.  Whatever
    the message says, the four statements come out and the devices are reported off."""
    from . import fmt_common as fc

    texts = ["M08 stuck", "M3 M7 on", "coolant M8", "spindle (M03) jam", "M05 M09 failed; M04", "m8 m3", "tool M4 / mist M7",
             "T1 M6", "M00", "x", "M30 M2", "S1000 M03", "G1 X5 M08"]
    for _ in range(n):
        r = R.rng
        symbols = r.choice(fc.ALL_SYMBOLS)
        opening, closing = fc.style_of(symbols)
        g, w = fc.make_builder(5, symbols, "\n")
        prep = r.choice([["tool_on"], ["power_on"], ["coolant_on"], ["tool_on", "coolant_on"], [], ["comment"], ["coolant_on", "comment"]])
        text, reset = r.choice(texts), r.random() < 0.5
        case = {"comment_symbols": symbols, "prepare": prep, "message": text, "reset": reset}
        R.evaluations += 1
        R.count("styled:" + ("pair" if closing else "eol"))
        try:
            for p_ in prep:
                {"tool_on": lambda: g.tool_on("clockwise", 1000), "power_on": lambda: g.power_on("dynamic", 40),
                 "coolant_on": lambda: g.coolant_on("flood"), "comment": lambda: g.comment(r.choice(texts))}[p_]()
        except Exception as e:  # noqa
            R.fail(case, f"preparing the state raised {type(e).__name__}: {e}", tag="styled-prepare")
            continue
        n0 = len(w.raw)
        try:
            g.emergency_halt(text, reset)
        except Exception as e:  # noqa
            R.fail(case, f"emergency_halt() raised {type(e).__name__}: {e}", tag="shutdown-rejected")
            continue
        out = b"".join(w.raw[n0:]).decode("utf-8")
        got = ";".join(" ".join(ws) for ws in fc.strip_comments(out, opening, closing))
        want = "M05;M09;" + ("M30" if reset else "M00")
        if got != want:
            R.fail(case, f"emergency_halt() executable output {got or 'nothing'}, expected {want} (raw {out!r})", tag="shutdown-output")
        elif g.state.is_tool_active or g.state.is_coolant_active:
            R.fail(case, "tool or coolant still reported active after emergency_halt()", tag="still-active")


def hook_cases(R, n):
    """oracle-only: shutdown calls made from inside move hooks (which may then veto the move) and at top level next to such hooks
    (builder_common.hook_sessions): a shutdown call that returned normally has written its codes, in order, by the time the
    enclosing call is over"""
    want = {"tool_off": ["M05"], "power_off": ["M05"], "coolant_off": ["M09"], "emergency_halt": ["M05", "M09", "_", "M00"]}

    def has(lines, seq):
        return any(lines[i:i + len(seq)] == seq for i in range(len(lines) - len(seq) + 1))

    for case, events, _specs in bc.hook_sessions(R.rng, n):
        R.evaluations += 1
        R.count("hook-sessions")
        for k, e in enumerate(events):
            done = [(api, "from a hook") for api, res in e["nested"] if res == "ok" and api in want]
            if e["name"] in want and e["raised"] is None:
                done.append((e["name"], "at top level"))
            for api, where in done:
                R.count("hook-sessions:shutdown " + where)
                if not has(e["lines"], want[api]):
                    R.fail(dict(case, step=k), f"`{api}` called {where} during `{e['call']}` returned normally but "
                           f"{';'.join(want[api])} was not written (written during that call: {e['lines'] or 'nothing'})", tag="shutdown-output")
                    break
            if e["name"] in want and e["raised"] is None and not e["nested"]:
                if (e["name"] in ("tool_off", "power_off", "emergency_halt") and e["tool"]) or (e["name"] in ("coolant_off", "emergency_halt") and e["cool"]):
                    R.fail(dict(case, step=k), f"tool or coolant still reported active after `{e['call']}`", tag="still-active")


def run(R: core.Run):
    R.rule = ("random histories reaching tool on (either API, any power) / coolant on / halted / bounded states, incl. tool-power "
              "ranges that exclude zero, each ending in tool_off, power_off, coolant_off or emergency_halt; non-trivial = tool "
              "or coolant active right before the shutdown call; distinct by hash")
    def nt(lines, recs):
        if len(recs) < 2:
            return False
        p = parse_record(recs[-2])
        return p["tool"] == "1" or p["coola"] == "1"
    corpus = [["bounds tool-power 100 1000", "toolon clockwise 500", s] for s in SHUT]
    bc.correspond(R, corpus, KEYS, True, "corpus", oracle, nt)
    bc.correspond(R, histories(R, R.n(1500, 20000)), KEYS, True, "random", oracle, nt)
    fault_cases(R, R.n(60, 1000))
    styled_cases(R, R.n(300, 3000))
    hook_cases(R, R.n(200, 2500))
    if R.broken:
        R.search_batches += 1
        for h in histories(R, R.n(1500, 5000)):
            lines, recs, im = bc.run_impl(h)
            R.evaluations += 1
            for step, msg, tag in oracle(lines, recs, im):
                R.fail({"history": lines[: step + 1]}, msg, tag=tag, step=step)
    return {}, {}


def replay(data):
    return bc.replay(data, KEYS, oracle)

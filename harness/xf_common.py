"""Shared pieces of the C04 / C13 harnesses (model `lean/GscribModel/Model/Transform.lean`, driver mode `transform`).

A *case* is a flat list of op tuples (JSON-able):

    ("translate", [x, y, z])      ("scale", [f, ...])        ("rotate", angle_degrees, axis)
    ("chain", [9 floats])         chain_transform(eye(4) with this 3x3 block)   (exact right-angle blocks)
    ("reflect", [nx, ny, nz])     ("mirror", plane)          ("pivot", [x, y, z])
    ("save", name|None)           ("restore", name|None)     ("delete", name)
    ("enter-current",)            ("enter-named", name)      ("exit", raised: bool)
    ("unwind", k)                 if the previous call raised: leave k enclosing `with` blocks by that exception
    ("move", [x|None, y|None, z|None], F|None)   ("rapid", ...)   ("dist", "rel"|"abs")

`Session.execute(case)` drives the real objects and returns the *trace*: one entry per API call actually
made (an `exit` with no block open is skipped, blocks still open at the end are closed), each with the
protocol line for the Lean model, the structured op and the implementation's observations.
"""
from __future__ import annotations

import math
import re
from fractions import Fraction as F

import numpy as np

from . import core

MODE = "transform"
AXES = "xyz"


# ------------------------------------------------------------------ exact numbers
def fr(x) -> F:
    """exact value of a Python number"""
    if isinstance(x, F):
        return x
    if isinstance(x, (int, np.integer)):
        return F(int(x))
    return F(*float(x).as_integer_ratio())


def q(x) -> str:
    v = fr(x)
    return str(v.numerator) if v.denominator == 1 else f"{v.numerator}/{v.denominator}"


def qv(v) -> str:
    return ";".join("-" if c is None else q(c) for c in v)


def parse_q(s: str):
    return None if s == "-" else F(s)


def parse_qv(s: str):
    return [parse_q(c) for c in s.split(";")]


def hexname(name: str) -> str:
    return "h" + name.encode("utf-8").hex()


def round_he(v: F, dp: int) -> F:
    """exact round-half-even at `dp` decimals (what the formatter prints for a value that is exact)"""
    s = v * 10**dp
    n = math.floor(s)
    r = s - n
    if r > F(1, 2) or (r == F(1, 2) and n % 2 == 1):
        n += 1
    return F(n, 10**dp)


def near_tie(v: F, dp: int, guard: float = 1e-9) -> bool:
    """is the exact value within `guard` (absolute) of a rounding tie at `dp` decimals?"""
    s = v * 10**dp
    d = abs(s - math.floor(s) - F(1, 2))
    return d <= F(guard) * 10**dp


# ------------------------------------------------------------------ protocol lines
def op_line(op, block=None) -> str:
    k = op[0]
    if k == "translate":
        return "translate " + qv(op[1])
    if k == "scale":
        return "scale" + ((" " + qv(op[1])) if op[1] else "")
    if k == "rotate":
        b = block if block is not None else np.eye(3)
        return f"rotate {op[2]} " + qv([b[i][j] for i in range(3) for j in range(3)])
    if k == "chain":
        return "chain " + qv(op[1])
    if k == "reflect":
        return "reflect " + qv(op[1])
    if k == "mirror":
        return "mirror " + op[1]
    if k == "pivot":
        return "pivot " + qv(op[1])
    if k in ("save", "restore"):
        return f"{k} " + ("-" if op[1] is None else hexname(op[1]))
    if k == "delete":
        return "delete " + hexname(op[1])
    if k == "enter-current":
        return "enter-current"
    if k == "enter-named":
        return "enter-named " + hexname(op[1])
    if k == "exit":
        return "exit " + ("1" if op[1] else "0")
    if k in ("move", "rapid"):
        return f"{k} " + qv(op[1])
    if k == "dist":
        return "dist " + op[1]
    if k in ("moveabs", "rapidabs", "setaxis"):
        return f"{k} " + qv(op[1])
    raise core.Infra(f"unknown op {op!r}")


def parse_record(rec: str) -> dict:
    """model (or implementation) record -> fields"""
    parts = rec.split(" | ")
    if len(parts) != 6:
        raise core.Infra(f"malformed record {rec!r}")
    out = {"outcome": parts[0], "stmts": parts[1], "raw": rec}
    m = re.fullmatch(r"pos=(\S+) rel=([01])", parts[2])
    out["pos"], out["rel"] = parse_qv(m.group(1)), m.group(2) == "1"
    m = re.fullmatch(r"depth=(\d+) ctx=(\d+) names=(\S*)", parts[3])
    out["depth"], out["ctx"], out["names"] = int(m.group(1)), int(m.group(2)), m.group(3)
    out["ap"] = [parse_qv(p) for p in parts[4][3:].split(" ") if p]
    out["rv"] = [parse_qv(p) for p in parts[5][3:].split(" ") if p]
    st = parts[1]
    out["go"] = None
    if st.startswith("G0 ") or st.startswith("G1 "):
        f = dict(x.split("=") for x in st.split(" ")[1:])
        out["go"] = {"code": st[:2], "w": parse_qv(f["w"]),
                     "mv": parse_qv(f["mv"]) if "mv" in f else None,
                     "d": parse_qv(f["d"]) if "d" in f else None}
    return out


_POOL = None


def submit_model(lines):
    """run the Lean driver on `lines` in a worker thread (it is a subprocess: no GIL contention)"""
    global _POOL
    if _POOL is None:
        from concurrent.futures import ThreadPoolExecutor

        _POOL = ThreadPoolExecutor(max_workers=2)
    return _POOL.submit(core.run_model, MODE, list(lines))


# ------------------------------------------------------------------ emitted text -> structure (independent lexer)
_TOKEN = re.compile(r"^([A-Za-z])(-?\d+(?:\.\d+)?)$")


def lex_line(text: str):
    """`G1 X1.5 Y-2 F100 ; c` -> ("G1", {"x": "1.5", "y": "-2"})  (X/Y/Z words as text)"""
    body = text.split(";")[0].strip()
    toks = body.split()
    if not toks:
        return None, {}
    words = {}
    for t in toks[1:]:
        m = _TOKEN.match(t)
        if not m:
            raise core.Infra(f"unexpected token {t!r} in {text!r}")
        if m.group(1).lower() in AXES:
            words[m.group(1).lower()] = m.group(2)
    return toks[0], words


# ------------------------------------------------------------------ the real objects
class Boom(Exception):
    """the exception a `with` body raises"""


class _Leave:
    """`with _Leave(cm): raise exc` hands a real exception, through a real `with`, to cm.__exit__"""

    def __init__(self, cm):
        self.cm = cm

    def __enter__(self):
        return self

    def __exit__(self, *exc):
        return self.cm.__exit__(*exc)


_ROT = {"installed": False, "last": None}


def install_rotation_tap():
    """Record the matrix of every `Rotation.from_rotvec(...)` call made by gscrib's transformer."""
    if _ROT["installed"]:
        return
    import gscrib.geometry.transformer as tm

    real = tm.Rotation

    class Tap:
        @staticmethod
        def from_rotvec(v, *a, **k):
            r = real.from_rotvec(v, *a, **k)
            _ROT["last"] = np.array(r.as_matrix(), dtype=float)
            return r

    tm.Rotation = Tap
    _ROT["installed"] = True


def _writer_class():
    from gscrib.writers import BaseWriter

    class Rec(BaseWriter):
        def __init__(self):
            self.lines = []

        def connect(self):
            return self

        def disconnect(self, wait=True):
            pass

        def write(self, b):
            self.lines.append(b.decode() if isinstance(b, (bytes, bytearray)) else str(b))

    return Rec


class Session:
    def __init__(self, dp: int = 5, cls: str = "core", probes=()):
        install_rotation_tap()
        import gscrib

        klass = gscrib.GCodeBuilder if cls == "builder" else gscrib.GCodeCore
        self.g = klass(output=None, print_lines=False, decimal_places=dp, line_endings="\n")
        self.rec = _writer_class()()
        self.g.add_writer(self.rec)
        self.t = self.g.transform
        self.dp = dp
        self.probes = [tuple(float(c) for c in p) for p in probes]
        self.cms = []  # open context managers, innermost last

    # ---- observations (API only, plus the two private containers' sizes / keys)
    def observe(self) -> dict:
        from gscrib.geometry import Point

        t = self.t
        pos = self.g.position
        # the probes are evaluated in alternating order: the last point handed to apply_transform / reverse_transform
        # in one observation is the first one handed to it in the next (a remembered result would be reused)
        self._flip = not getattr(self, "_flip", False)
        order = list(range(len(self.probes)))
        if self._flip:
            order.reverse()
        ap, rv = {}, {}
        for i in order:
            ap[i] = [float(c) for c in t.apply_transform(Point(*self.probes[i]))]
        for i in order:
            rv[i] = [float(c) for c in t.reverse_transform(Point(*self.probes[i]))]
        return {
            "pos": [None if c is None else float(c) for c in pos],
            "rel": bool(self.g.distance_mode.is_relative),
            "depth": len(t._transforms_stack),
            "ctx": len(self.cms),
            "names": list(t._named_transforms.keys()),
            "ap": [ap[i] for i in range(len(self.probes))],
            "rv": [rv[i] for i in range(len(self.probes))],
        }

    def _call(self, op):
        """one API call; returns (exception class name | 'ok', rotation block | None)"""
        t, g = self.t, self.g
        k = op[0]
        block = None
        _ROT["last"] = None
        n0 = len(self.rec.lines)
        try:
            if k == "translate":
                t.translate(*op[1])
            elif k == "scale":
                t.scale(*op[1])
            elif k == "rotate":
                try:
                    t.rotate(op[1], op[2])
                finally:
                    block = _ROT["last"]
            elif k == "chain":
                m = np.eye(4)
                m[:3, :3] = np.array(op[1], dtype=float).reshape(3, 3)
                t.chain_transform(m)
            elif k == "reflect":
                t.reflect(list(op[1]))
            elif k == "mirror":
                t.mirror(op[1])
            elif k == "pivot":
                t.set_pivot(tuple(op[1]))
            elif k == "save":
                t.save_state(op[1])
            elif k == "restore":
                t.restore_state(op[1])
            elif k == "delete":
                t.delete_state(op[1])
            elif k == "enter-current":
                cm = g.current_transform()
                cm.__enter__()
                self.cms.append(cm)
            elif k == "enter-named":
                cm = g.named_transform(op[1])
                cm.__enter__()  # raises before the block is entered if the name is unknown
                self.cms.append(cm)
            elif k == "exit":
                cm = self.cms.pop()
                if op[1]:
                    try:
                        with _Leave(cm):
                            raise Boom("body failed")
                    except Boom:
                        pass
                else:
                    cm.__exit__(None, None, None)
            elif k in ("move", "rapid"):
                kw = {a: v for a, v in zip(AXES, op[1]) if v is not None}
                if len(op) > 2 and op[2] is not None:
                    kw["F"] = op[2]
                getattr(g, k)(**kw)
            elif k == "dist":
                g.set_distance_mode("relative" if op[1] == "rel" else "absolute")
            elif k in ("moveabs", "rapidabs", "setaxis"):
                kw = {a: v for a, v in zip(AXES, op[1]) if v is not None}
                {"moveabs": g.move_absolute, "rapidabs": g.rapid_absolute, "setaxis": g.set_axis}[k](**kw)
            else:
                raise core.Infra(f"unknown op {op!r}")
            outcome = "ok"
        except core.Infra:
            raise
        except IndexError:
            outcome = "IndexError"
        except KeyError:
            outcome = "KeyError"
        except ValueError:
            outcome = "ValueError"
        return outcome, block, self.rec.lines[n0:]

    def step(self, op) -> dict:
        pivot = None
        if op[0] in ("scale", "rotate", "reflect", "mirror", "chain"):
            # the point currently sent to the pivot must still be sent there afterwards
            from gscrib.geometry import Point

            piv = self.t._current_transform._pivot
            pre = self.t.reverse_transform(Point(*piv))
        outcome, block, written = self._call(op)
        if op[0] in ("scale", "rotate", "reflect", "mirror", "chain"):
            pivot = ([float(c) for c in piv], [float(c) for c in self.t.apply_transform(pre)])
        return {"op": op, "line": op_line(op, block), "outcome": outcome, "block": block,
                "written": written, "obs": self.observe(), "pivot": pivot}

    def execute(self, case) -> list:
        trace = []
        prev_failed = False
        for op in case:
            k = op[0]
            if k == "unwind":
                if prev_failed:
                    for _ in range(min(int(op[1]), len(self.cms))):
                        trace.append(self.step(("exit", True)))
                prev_failed = False
                continue
            if k == "exit" and not self.cms:
                continue
            e = self.step(op)
            trace.append(e)
            prev_failed = e["outcome"] != "ok"
        while self.cms:  # close what is still open
            trace.append(self.step(("exit", False)))
        return trace


def impl_record(e: dict, dp: int) -> str:
    """the implementation's step in the model's record syntax (exact rationals of the doubles observed)"""
    o = e["obs"]
    stmts = []
    for ln in e["written"]:
        code, words = lex_line(ln)
        if code in ("G90", "G91"):
            stmts.append(code)
        elif code in ("G0", "G1", "G92"):
            stmts.append(f"{code} w=" + ";".join(q(F(words[a])) if a in words else "-" for a in AXES))
        elif code is not None:
            stmts.append("?" + code)
    names = ",".join(hexname(n) for n in o["names"])
    ap = " ".join(qv(p) for p in o["ap"])
    rv = " ".join(qv(p) for p in o["rv"])
    return (f"{e['outcome']} | {','.join(stmts)} | pos={qv(o['pos'])} rel={1 if o['rel'] else 0} | "
            f"depth={o['depth']} ctx={o['ctx']} names={names} | ap={ap} | rv={rv}")


def model_record_rounded(rec: str, dp: int) -> str:
    """model record with the emitted words rounded half-even at `dp` and without the `mv=`/`d=` extras"""
    parts = rec.split(" | ")
    out = []
    for st in parts[1].split(","):
        if st[:3] in ("G0 ", "G1 ") or st.startswith("G92 "):
            code = st.split(" ")[0]
            f = dict(x.split("=") for x in st.split(" ")[1:])
            w = ";".join("-" if c == "-" else q(round_he(F(c), dp)) for c in f["w"].split(";"))
            st = f"{code} w={w}"
        out.append(st)
    parts[1] = ",".join(out)
    return " | ".join(parts)


# ------------------------------------------------------------------ independent numpy reference (oracles)
def _eye_t(v):
    m = np.eye(4)
    m[:3, 3] = v
    return m


def ref_rotation(angle_deg: float, axis: str) -> np.ndarray:
    """textbook rotation matrix (no scipy)"""
    a = math.radians(angle_deg)
    c, s = math.cos(a), math.sin(a)
    if axis == "x":
        return np.array([[1, 0, 0], [0, c, -s], [0, s, c]], dtype=float)
    if axis == "y":
        return np.array([[c, 0, s], [0, 1, 0], [-s, 0, c]], dtype=float)
    return np.array([[c, -s, 0], [s, c, 0], [0, 0, 1]], dtype=float)


PLANE_NORMAL = {"xy": (0.0, 0.0, 1.0), "zx": (0.0, 1.0, 0.0), "yz": (1.0, 0.0, 0.0)}
WS = " \t\n\r\x0b\x0c"


class RefMachine:
    """Immutable-value stack machine: (4x4 matrix, pivot) pairs, a stack, a name map, `with` frames."""

    def __init__(self):
        self.cur = (np.eye(4), np.zeros(3))
        self.stack = []
        self.named = {}
        self.frames = []

    def _about(self, lin3):
        M, p = self.cur
        L = np.eye(4)
        L[:3, :3] = lin3
        self.cur = (_eye_t(p) @ L @ _eye_t(-p) @ M, p)

    @staticmethod
    def _key(name):
        if name is None:
            return None
        k = name.strip(WS)
        return k or None

    def _restore(self, name):
        k = self._key(name)
        if k is not None:
            if k not in self.named:
                return "KeyError"
            self.cur = self.named[k]
            return "ok"
        if not self.stack:
            return "IndexError"
        self.cur = self.stack.pop()
        return "ok"

    def step(self, op) -> str:
        """expected outcome class; state advanced"""
        k = op[0]
        if k == "translate":
            M, p = self.cur
            self.cur = (_eye_t(np.array(op[1], dtype=float)) @ M, p)
        elif k == "scale":
            f = list(op[1])
            if not 1 <= len(f) <= 3 or any(x == 0 for x in f):
                return "ValueError"
            d = [f[0]] * 3 if len(f) == 1 else (f + [1.0, 1.0])[:3]
            self._about(np.diag(d))
        elif k == "rotate":
            if op[2] not in ("x", "y", "z"):
                return "ValueError"
            self._about(ref_rotation(op[1], op[2]))
        elif k == "chain":
            self._about(np.array(op[1], dtype=float).reshape(3, 3))
        elif k in ("reflect", "mirror"):
            if k == "mirror":
                if op[1] not in PLANE_NORMAL:
                    return "ValueError"
                n = np.array(PLANE_NORMAL[op[1]])
            else:
                n = np.array(op[1], dtype=float)
                if not n.any():
                    return "ValueError"
            self._about(np.eye(3) - 2.0 * np.outer(n, n) / float(n @ n))
        elif k == "pivot":
            self.cur = (self.cur[0], np.array(op[1], dtype=float))
        elif k == "save":
            key = self._key(op[1])
            if key is None:
                self.stack.append(self.cur)
            else:
                self.named[key] = self.cur
        elif k == "restore":
            return self._restore(op[1])
        elif k == "delete":
            if op[1] not in self.named:
                return "KeyError"
            del self.named[op[1]]
        elif k == "enter-current":
            self.frames.append((self.cur, list(self.stack)))
        elif k == "enter-named":
            frame = (self.cur, list(self.stack))
            r = self._restore(op[1])
            if r != "ok":
                return r
            self.frames.append(frame)
        elif k == "exit":
            self.cur, self.stack = self.frames.pop()
        return "ok"

    def apply(self, p):
        return (self.cur[0] @ np.array([*p, 1.0]))[:3]

    def reverse(self, p):
        return np.linalg.solve(self.cur[0], np.array([*p, 1.0]))[:3]


def close(a, b, tol=1e-9) -> bool:
    a, b = np.asarray(a, dtype=float), np.asarray(b, dtype=float)
    return bool(np.all(np.abs(a - b) <= tol * max(1.0, float(np.max(np.abs(b))))))


# ------------------------------------------------------------------ generators of transformer calls
GRID = 32
NAMES = ["a", "b", "c"]
EXACT_BLOCKS = [
    [0, -1, 0, 1, 0, 0, 0, 0, 1], [0, 1, 0, -1, 0, 0, 0, 0, 1], [-1, 0, 0, 0, -1, 0, 0, 0, 1],   # z: 90, -90, 180
    [1, 0, 0, 0, 0, -1, 0, 1, 0], [1, 0, 0, 0, 0, 1, 0, -1, 0],                                  # x: 90, -90
    [0, 0, 1, 0, 1, 0, -1, 0, 0], [0, 0, -1, 0, 1, 0, 1, 0, 0],                                  # y: 90, -90
    [0, 1, 0, 1, 0, 0, 0, 0, 1],                                                                 # swap x,y
]


def grid(rng, lim=320):
    return rng.randint(-lim, lim) / GRID


def gen_xf_op(rng, exact: bool, budget: dict):
    """one transformer call that changes the mapping or the pivot.  `budget` bounds the magnification."""
    k = rng.choices(["translate", "scale", "rotate", "reflect", "mirror", "pivot", "chain"],
                    [22, 18, 18 if not exact else 3, 7, 9, 14, 12 if exact else 3])[0]
    if k == "translate":
        if exact or rng.random() < 0.6:
            return ("translate", [grid(rng), grid(rng), grid(rng) if rng.random() < 0.8 else 0.0])
        return ("translate", [rng.uniform(-10, 10) for _ in range(3)])
    if k == "scale":
        n = rng.choice([1, 1, 2, 3])
        pool = [2.0, 0.5, -1.0, 1.0, -2.0, 4.0, 0.25] if exact else [2.0, 0.5, -1.0, 3.0, 1 / 3, 0.1, 1.5, -0.7, 10.0]
        fs = []
        for _ in range(n):
            f = rng.choice(pool)
            lg = math.log2(abs(f))
            if abs(budget["log"] + lg) > budget["max"]:
                f = 1.0 if rng.random() < 0.5 else -1.0
                lg = 0.0
            budget["log"] += lg
            fs.append(f)
        return ("scale", fs)
    if k == "rotate":
        if exact:
            return ("rotate", 0.0, rng.choice(AXES))
        a = rng.choice([0.0, 90.0, -90.0, 180.0, 90.0, -90.0, 30.0, 45.0, 123.4, -17.25, rng.uniform(-360, 360)])
        return ("rotate", a, rng.choice(AXES))
    if k == "reflect":
        if exact:
            n = [0.0, 0.0, 0.0]
            n[rng.randrange(3)] = rng.choice([1.0, -1.0, 2.0, 0.5])
            return ("reflect", n)
        while True:
            n = [float(rng.randint(-3, 3)) for _ in range(3)]
            if any(n):
                return ("reflect", n)
    if k == "mirror":
        return ("mirror", rng.choice(["xy", "yz", "zx"]))
    if k == "pivot":
        if exact or rng.random() < 0.7:
            return ("pivot", [grid(rng, 128), grid(rng, 128), grid(rng, 128)])
        return ("pivot", [rng.uniform(-5, 5) for _ in range(3)])
    return ("chain", [float(x) for x in rng.choice(EXACT_BLOCKS)])


def gen_bad_op(rng):
    """a call the API must reject (or a lookup that must fail)"""
    return rng.choice([
        ("scale", [0.0]), ("scale", [2.0, 0.0]), ("scale", []), ("scale", [1.0, 2.0, 3.0, 4.0]),
        ("rotate", 90.0, "w"), ("mirror", "ab"), ("reflect", [0.0, 0.0, 0.0]),
        ("restore", "zz"), ("delete", "zz"), ("delete", " a"), ("enter-named", "zz"),
    ])


def is_exact_op(op) -> bool:
    """does the op keep IEEE arithmetic exact on the dyadic grid?"""
    k = op[0]
    d = lambda x: fr(x).denominator  # noqa: E731
    pow2 = lambda n: n & (n - 1) == 0  # noqa: E731
    if k in ("translate", "pivot"):
        return all(pow2(d(c)) and d(c) <= GRID for c in op[1])
    if k == "scale":
        return all(c != 0 and pow2(d(c)) and pow2(abs(fr(c).numerator)) for c in op[1])
    if k == "rotate":
        return op[1] == 0
    if k == "chain":
        return all(c in (0, 1, -1) for c in op[1])
    if k == "reflect":
        nz = [c for c in op[1] if c != 0]
        return len(nz) == 1 and pow2(d(nz[0])) and pow2(abs(fr(nz[0]).numerator))
    return True

"""C13 - transform states are saved, restored and inverted exactly.

Model: lean/GscribModel/Model/Transform.lean (driver mode `transform`); theorems: Props/C13.lean.
Implementation: a real `GCodeCore`, its `CoordinateTransformer` and the `current_transform()` /
`named_transform()` context managers (entered for real, left normally or through a real `with` + `raise`).
Oracle: an independent numpy machine over immutable (matrix, pivot) values (`xf_common.RefMachine`).
"""
from __future__ import annotations

import itertools

import numpy as np

from . import core
from . import xf_common as X

PROP = "C13"
TOL = 1e-9


# ------------------------------------------------------------------ generation
def gen_probes(rng, exact):
    if exact:
        return [[X.grid(rng, 256) for _ in range(3)] for _ in range(5)]
    return [[X.grid(rng, 256) if rng.random() < 0.3 else rng.uniform(-50, 50) for _ in range(3)] for _ in range(5)]


def gen_case(rng):
    """a call history (<= 25 calls before the drain), up to 3 names, `with` nesting <= 3"""
    exact = rng.random() < 0.45
    budget = {"log": 0.0, "max": 6.0 if exact else 4.0}
    n = rng.choice([3, 6, 10, 15, 20, 25])
    names = X.NAMES[: rng.choice([1, 2, 3])]
    ops, est_depth, saved, open_ctx, rot = [], 0, set(), 0, 0

    def a_name():
        nm = rng.choice(names)
        r = rng.random()
        return nm if r < 0.85 else (" " + nm if r < 0.93 else nm + " ")

    while len(ops) < n:
        r = rng.random()
        if r < 0.04:
            ops.append(X.gen_bad_op(rng))
        elif r < 0.44:
            op = X.gen_xf_op(rng, exact, budget)
            if op[0] == "rotate" and op[1] not in (0.0,):
                rot += 1
                if rot > 8:  # keeps the exact rationals of the model small enough to print quickly
                    continue
            ops.append(op)
        elif r < 0.52:
            ops.append(("save", None if rng.random() < 0.9 else rng.choice(["", "  "])))
            est_depth += 1
        elif r < 0.60:
            nm = a_name()
            ops.append(("save", nm))
            saved.add(nm.strip())
        elif r < 0.70:
            if est_depth > 0 or rng.random() < 0.15:
                ops.append(("restore", None if rng.random() < 0.9 else rng.choice(["", "  "])))
                est_depth = max(0, est_depth - 1)
        elif r < 0.80:
            if saved and rng.random() < 0.9:
                ops.append(("restore", rng.choice(sorted(saved)) if rng.random() < 0.85 else a_name()))
            elif rng.random() < 0.3:
                ops.append(("restore", a_name()))
        elif r < 0.83:
            nm = rng.choice(sorted(saved)) if saved and rng.random() < 0.8 else a_name()
            ops.append(("delete", nm))
            saved.discard(nm)
        elif r < 0.90:
            if open_ctx < 3:
                if saved and rng.random() < 0.5:
                    ops.append(("enter-named", rng.choice(sorted(saved))))
                elif rng.random() < 0.15:
                    ops.append(("enter-named", rng.choice(["", "zz"] + names)))
                else:
                    ops.append(("enter-current",))
                open_ctx += 1
        elif r < 0.97:
            if open_ctx > 0:
                ops.append(("exit", rng.random() < 0.4))
                open_ctx -= 1
        else:
            if open_ctx > 0:
                # a call that may raise inside the block, the exception leaving k blocks
                ops.append(rng.choice([("restore", None), ("restore", "zz"), ("delete", "zz"), ("scale", [0.0])]))
                ops.append(("unwind", rng.randint(1, open_ctx)))
    # drain: leave the blocks, then make every hidden state observable through the API
    for _ in range(open_ctx):
        ops.append(("exit", rng.random() < 0.3))
    for nm in sorted(saved) or names[:1]:
        ops.append(("restore", nm))
    for _ in range(min(est_depth, 6) + 1):
        ops.append(("restore", None))
    return {"exact": exact and all(X.is_exact_op(o) for o in ops), "probes": gen_probes(rng, exact), "ops": ops}


# exhaustive alphabet (thorough): 10 calls, exact arithmetic
ALPHABET = [
    ("translate", [1.0, 0.5, -2.0]), ("scale", [2.0]), ("chain", [0.0, -1.0, 0.0, 1.0, 0.0, 0.0, 0.0, 0.0, 1.0]),
    ("pivot", [1.0, 2.0, 0.5]), ("save", None), ("restore", None), ("save", "a"), ("restore", "a"),
    ("enter-named", "a"), ("exit", True),
]


def exhaustive_cases(maxlen):
    probes = [[1.5, -2.0, 0.5], [-3.25, 2.0, 8.0]]   # two generic points: every observation is a typeguard-checked call
    for L in range(1, maxlen + 1):
        for seq in itertools.product(range(len(ALPHABET)), repeat=L):
            open_ctx, ok = 0, True
            for i in seq:
                k = ALPHABET[i][0]
                if k == "exit":
                    if open_ctx == 0:
                        ok = False  # an `exit` without a block is not a program
                        break
                    open_ctx -= 1
                elif k == "enter-named":
                    open_ctx += 1  # may fail to enter: the executor then skips the unmatched exit
            if ok:
                yield {"exact": True, "probes": probes, "ops": [ALPHABET[i] for i in seq] + [("restore", "a"), ("restore", None)]}


def jsonable(case):
    return {"exact": case["exact"], "probes": case["probes"], "ops": [list(o) for o in case["ops"]]}


def from_json(d):
    return {"exact": d["exact"], "probes": d["probes"], "ops": [tuple(o) for o in d["ops"]]}


# ------------------------------------------------------------------ oracle (independent of the Lean model)
def oracle(case, trace):
    """the implementation against the immutable-value stack machine, plus the property's own clauses"""
    ref = X.RefMachine()
    probes = case["probes"]
    for i, e in enumerate(trace):
        op = e["op"]
        ref_pivot_before = ref.cur[1].copy()
        want = ref.step(op)
        o = e["obs"]
        where = f"step {i} ({e['line'][:40]})"
        if e["outcome"] != want:
            return f"{where}: raised {e['outcome']}, the specification says {want}", "outcome"
        if o["depth"] != len(ref.stack):
            return f"{where}: stack depth {o['depth']}, expected {len(ref.stack)}", "stack"
        if sorted(o["names"]) != sorted(ref.named):
            return f"{where}: named states {sorted(o['names'])}, expected {sorted(ref.named)}", "names"
        for p, got, back in zip(probes, o["ap"], o["rv"]):
            if not X.close(got, ref.apply(p), TOL):
                return (f"{where}: apply_transform{tuple(p)} = {got}, the immutable-value machine gives "
                        f"{ref.apply(p).tolist()}"), "mapping"
            if not X.close(back, ref.reverse(p), 1e-7):
                return (f"{where}: reverse_transform{tuple(p)} = {back}, expected {ref.reverse(p).tolist()}"), "reverse"
        if e.get("pivot") is not None and e["outcome"] == "ok":
            piv, img = e["pivot"]
            if not X.close(img, piv, 1e-7):
                return (f"{where}: the pivot {tuple(piv)} is not fixed: its pre-image is now mapped to {tuple(img)}"), "pivot"
            if not X.close(piv, ref_pivot_before, TOL):
                return f"{where}: pivot in force {tuple(piv)}, expected {ref_pivot_before.tolist()}", "pivot"
    return None, None


def roundtrip_oracle(sess, probes):
    """reverse(apply(p)) == p on the live object (end of the history)"""
    from gscrib.geometry import Point

    for p in probes:
        img = sess.t.apply_transform(Point(*p))
        back = sess.t.reverse_transform(img)
        if not X.close([float(c) for c in back], p, 1e-7):
            return f"reverse_transform(apply_transform({p})) = {[float(c) for c in back]}"
    return None


# ------------------------------------------------------------------ comparison with the model
def compare(case, trace, model_recs):
    """None if implementation and model agree on every step, else (step, impl, model)"""
    for i, (e, mr) in enumerate(zip(trace, model_recs)):
        ir = X.impl_record(e, 5)
        if case["exact"]:
            if ir != X.model_record_rounded(mr, 5):
                return i, ir, mr
            continue
        m = X.parse_record(mr)
        o = e["obs"]
        if (e["outcome"], o["depth"], o["ctx"], ",".join(X.hexname(n) for n in o["names"])) != (
                m["outcome"], m["depth"], m["ctx"], m["names"]):
            return i, ir, mr
        for got, want in zip(o["ap"] + o["rv"], m["ap"] + m["rv"]):
            if not X.close(got, [float(c) for c in want], TOL):
                return i, ir, mr
    return None


def run_batch(R, cases, label, oracle_only=False, pipe=None):
    """implementation first (sequential), the model in a worker thread, judged by `finish_batch`"""
    traces, lines, spans = [], [], []
    for case in cases:
        sess = X.Session(probes=case["probes"])
        tr = sess.execute(case["ops"])
        rt = roundtrip_oracle(sess, case["probes"])
        traces.append((tr, rt))
        start = len(lines)
        lines.append("reset")
        lines.append("probes " + " ".join(X.qv(p) for p in case["probes"]))
        lines.extend(e["line"] for e in tr)
        spans.append((start + 2, len(lines)))
    fut = None if oracle_only else X.submit_model(lines)
    job = (R, cases, label, oracle_only, traces, spans, fut)
    if pipe is None:
        finish_batch(job)
    else:
        pipe.append(job)


def finish_batch(job):
    R, cases, label, oracle_only, traces, spans, fut = job
    # the oracle does not need the model: evaluate it while the driver is still running
    verdicts = []
    for case, (tr, rt) in zip(cases, traces):
        msg, tag = oracle(case, tr)
        if not msg and rt:
            msg, tag = rt, "reverse"
        verdicts.append((msg, tag))
    model_out = [] if oracle_only else fut.result()
    for case, (tr, _), (a, b), (msg, tag) in zip(cases, traces, spans, verdicts):
        kinds = {e["op"][0] for e in tr}
        errs = sum(1 for e in tr if e["outcome"] != "ok")
        cj = jsonable(case)
        R.case(cj, nontrivial=len(kinds) >= 4 and any(k in kinds for k in ("save", "enter-current", "enter-named")),
               validated=not oracle_only)
        R.count(label, "regime:" + ("exact" if case["exact"] else "tolerant"),
                f"len:{min(len(tr) // 10 * 10, 40)}+", f"errors:{min(errs, 5)}",
                "ctx:" + str(max([e['obs']['ctx'] for e in tr] + [0])))
        for e in tr:
            R.count("op:" + e["op"][0] + ("" if e["outcome"] == "ok" else ":" + e["outcome"]))
        if not oracle_only:
            d = compare(case, tr, model_out[a:b])
            if d:
                R.disagree("transform-history", cj, d[1], d[2], step=d[0])
        if msg:
            R.fail(cj, msg, tag=tag)


def run_all(R, cases, label, chunk, oracle_only=False):
    """pipeline: the model of chunk k runs while the implementation executes chunk k+1"""
    pipe = []
    for i in range(0, len(cases), chunk):
        run_batch(R, cases[i:i + chunk], label, oracle_only, pipe)
        if len(pipe) > 1:
            finish_batch(pipe.pop(0))
    while pipe:
        finish_batch(pipe.pop(0))


CORPUS = [
    # the README's named_transform use: modify after restoring a named state, then restore it again
    {"exact": True, "probes": [[1.5, -2.0, 0.5], [0.0, 0.0, 0.0], [1.0, 0.0, 0.0], [0.0, 1.0, 0.0], [-3.0, 4.0, 8.0]],
     "ops": [("translate", [10.0, 0.0, 0.0]), ("save", "a"), ("restore", "a"), ("scale", [2.0]), ("restore", "a"),
             ("enter-named", "a"), ("translate", [1.0, 1.0, 1.0]), ("exit", False), ("restore", "a")]},
    # save / modify / restore twice; a body that pops the stack and raises
    {"exact": True, "probes": [[1.0, 2.0, 3.0], [0.0, 0.0, 0.0], [-4.0, 0.5, 2.0], [8.0, 8.0, 8.0], [1.0, 0.0, 0.0]],
     "ops": [("pivot", [1.0, 2.0, 0.0]), ("save", None), ("scale", [2.0, 0.5]), ("save", None), ("mirror", "yz"),
             ("enter-current",), ("restore", None), ("restore", None), ("translate", [3.0, 0.0, 0.0]),
             ("restore", None), ("unwind", 1), ("restore", None), ("restore", None), ("restore", None)]},
    {"exact": False, "probes": [[1.0, 2.0, 3.0], [0.1, 0.2, 0.3], [-4.0, 0.5, 2.0], [8.0, 8.0, 8.0], [1.0, 0.0, 0.0]],
     "ops": [("pivot", [1.0, 2.0, 0.5]), ("rotate", 30.0, "x"), ("save", " b "), ("reflect", [1.0, 2.0, -2.0]),
             ("scale", [3.0]), ("enter-named", "b"), ("rotate", 90.0, "z"), ("exit", True), ("restore", "b"),
             ("delete", " b "), ("delete", "b"), ("restore", "b")]},
]


def run(R: core.Run):
    R.rule = ("random call histories (3..25 calls + drain) over translate/scale/rotate/chain/reflect/mirror/set_pivot/"
              "save/restore/delete with <= 3 names (some padded with blanks) and `with current_transform()` / "
              "`with named_transform()` blocks nested <= 3, left normally, by `raise`, or by a failing call unwinding "
              "k blocks; 45% on the exact dyadic grid (literal comparison), the rest with arbitrary angles/values "
              "(1e-9); non-trivial = >= 4 call kinds incl. a save or a block; distinct by hash")
    R.assumptions = [
        "IEEE rounding inside numpy/scipy is not modelled: off-grid histories are compared at 1e-9 (relative to magnitude)",
        "scipy Rotation: the 3x3 block is read from the very call the code makes and handed to the model as exact rationals",
        "scipy.linalg.inv is modelled by the exact inverse (adjugate/determinant)",
        "pivots and normals are given with three finite coordinates; arguments are finite",
    ]
    R.trusted = [
        "Lean 4.33 kernel; axioms propext, Classical.choice, Quot.sound only (audited per theorem)",
        "hand-written Lean model (Model/Transform.lean) tied to /repo by this run's differential check",
        "Python harness: generators, Session adapter (real objects, real `with`+raise), canonicalisation, numpy reference machine",
    ]
    run_batch(R, CORPUS, "corpus")
    cases = [gen_case(R.rng) for _ in range(R.n(1000, 10000))]
    run_all(R, cases, "random", 250)
    if R.thorough:
        ex = list(exhaustive_cases(5))
        run_all(R, ex, "exhaustive<=5", 4000)
        R.exhaustive = False
        R.extra["exhaustive_subrun"] = {
            "cases": len(ex), "exhaustive": True,
            "scope": "all call sequences of length <= 5 over 10 calls (translate, scale 2, exact 90-degree block, set_pivot, "
                     "save, restore, save a, restore a, enter named_transform(a), leave by exception), then restore a, restore"}
    if R.broken:
        R.search_batches += 1
        run_all(R, [gen_case(R.rng) for _ in range(R.n(1500, 6000))], "search", 500, oracle_only=True)
    return {}, {}


def replay(data):
    core.use_repo()
    fl = data.get("failure") or data.get("first", {})
    cj = fl.get("case")
    if not cj:
        print("replay: no case recorded (", data.get("no_longer_checks"), ")")
        return 1
    case = from_json(cj)
    sess = X.Session(probes=case["probes"])
    tr = sess.execute(case["ops"])
    lines = ["probes " + " ".join(X.qv(p) for p in case["probes"])] + [e["line"] for e in tr]
    out = core.run_model(X.MODE, lines)[1:]
    d = compare(case, tr, out)
    msg, tag = oracle(case, tr)
    msg = msg or roundtrip_oracle(sess, case["probes"])
    for e, m in zip(tr, out):
        print("call :", e["line"][:100])
        print(" impl:", X.impl_record(e, 5)[:300])
        print(" model:", X.model_record_rounded(m, 5)[:300])
    print("correspondence:", "agree" if not d else f"differ at step {d[0]}")
    print("oracle:", msg or "ok")
    return 1 if (msg or d) else 0

"""C13 - transform states are saved, restored and inverted exactly.

Model: lean/GscribModel/Model/Transform.lean (driver mode `transform`); theorems: Props/C13.lean.
Implementation: a real `GCodeCore`, its `CoordinateTransformer` and the `current_transform()` /
`named_transform()` context managers (entered for real, left normally or through a real `with` + `raise`).
Oracle: an independent numpy machine over immutable (matrix, pivot) values (`xf_common.RefMachine`).
"""
from __future__ import annotations

import itertools
import math
import warnings

import numpy as np

from . import core
from . import xf_common as X

PROP = "C13"
TOL = 1e-9


# ------------------------------------------------------------------ generation
def gen_probes(rng, exact):
    if exact:
        return [[X.grid(rng, 256) for _ in range(3)] for _ in range(5)]
    return [[X.grid(rng, 256) if rng.random() < 0.3 else rng.uniform(-50, 50) for _ in range(3)] for _ in range(5)]


def gen_case(rng):
    """a call history (<= 25 calls before the drain), up to 3 names, `with` nesting <= 3"""
    exact = rng.random() < 0.45
    budget = {"log": 0.0, "max": 6.0 if exact else 4.0}
    n = rng.choice([3, 6, 10, 15, 20, 25])
    names = X.NAMES[: rng.choice([1, 2, 3])]
    ops, est_depth, saved, open_ctx, rot = [], 0, set(), 0, 0

    def a_name():
        nm = rng.choice(names)
        r = rng.random()
        return nm if r < 0.85 else (" " + nm if r < 0.93 else nm + " ")

    while len(ops) < n:
        r = rng.random()
        if r < 0.04:
            ops.append(X.gen_bad_op(rng))
        elif r < 0.44:
            op = X.gen_xf_op(rng, exact, budget)
            if op[0] == "rotate" and op[1] not in (0.0,):
                rot += 1
                if rot > 8:  # keeps the exact rationals of the model small enough to print quickly
                    continue
            ops.append(op)
        elif r < 0.52:
            ops.append(("save", None if rng.random() < 0.9 else rng.choice(["", "  "])))
            est_depth += 1
        elif r < 0.60:
            nm = a_name()
            ops.append(("save", nm))
            saved.add(nm.strip())
        elif r < 0.70:
            if est_depth > 0 or rng.random() < 0.15:
                ops.append(("restore", None if rng.random() < 0.9 else rng.choice(["", "  "])))
                est_depth = max(0, est_depth - 1)
        elif r < 0.80:
            if saved and rng.random() < 0.9:
                ops.append(("restore", rng.choice(sorted(saved)) if rng.random() < 0.85 else a_name()))
            elif rng.random() < 0.3:
                ops.append(("restore", a_name()))
        elif r < 0.83:
            nm = rng.choice(sorted(saved)) if saved and rng.random() < 0.8 else a_name()
            ops.append(("delete", nm))
            saved.discard(nm)
        elif r < 0.90:
            if open_ctx < 3:
                if saved and rng.random() < 0.5:
                    ops.append(("enter-named", rng.choice(sorted(saved))))
                elif rng.random() < 0.15:
                    ops.append(("enter-named", rng.choice(["", "zz"] + names)))
                else:
                    ops.append(("enter-current",))
                open_ctx += 1
        elif r < 0.97:
            if open_ctx > 0:
                ops.append(("exit", rng.random() < 0.4))
                open_ctx -= 1
        else:
            if open_ctx > 0:
                # a call that may raise inside the block, the exception leaving k blocks
                ops.append(rng.choice([("restore", None), ("restore", "zz"), ("delete", "zz"), ("scale", [0.0])]))
                ops.append(("unwind", rng.randint(1, open_ctx)))
    # drain: leave the blocks, then make every hidden state observable through the API
    for _ in range(open_ctx):
        ops.append(("exit", rng.random() < 0.3))
    for nm in sorted(saved) or names[:1]:
        ops.append(("restore", nm))
    for _ in range(min(est_depth, 6) + 1):
        ops.append(("restore", None))
    return {"exact": exact and all(X.is_exact_op(o) for o in ops), "probes": gen_probes(rng, exact), "ops": ops}


def pow10(k: int) -> float:
    return float(f"1e{k}")  # the correctly rounded literal a user would write


def gen_strong_case(rng):
    """family "strong": unit-conversion-like scalings by 10^-k / 10^k (k <= 7) - alone, before or after ordinary
    translate/rotate/reflect/mirror/set_pivot calls, there and back again, in two steps, snapshotted with
    save_state/restore_state or inside `with` blocks.  The conditioning of the matrix (10^k .. 10^2k with pivots
    and translations) is what the ordinary family (magnification <= 2^6) never reaches."""
    shape = rng.choice(["alone", "first", "last", "last", "there-and-back", "two-step", "snapshot"])
    k = rng.randint(1, 7)
    down = rng.random() < 0.7
    names = X.NAMES[: rng.choice([1, 2])]
    budget = {"log": 0.0, "max": 2.0}
    st = {"depth": 0, "open": 0, "rot": 0}
    ops, saved = [], set()

    def xf():
        while True:
            op = X.gen_xf_op(rng, False, budget)
            if op[0] == "rotate" and op[1] != 0.0:
                if st["rot"] >= 6:  # keeps the model's exact rationals printable
                    continue
                st["rot"] += 1
            return op

    def ordinary(n):
        for _ in range(n):
            r = rng.random()
            if r < 0.60:
                ops.append(xf())
            elif r < 0.70:
                ops.append(("save", None))
                st["depth"] += 1
            elif r < 0.78:
                nm = rng.choice(names)
                ops.append(("save", nm))
                saved.add(nm)
            elif r < 0.86:
                if st["depth"]:
                    ops.append(("restore", None))
                    st["depth"] -= 1
            elif r < 0.92:
                if saved:
                    ops.append(("restore", rng.choice(sorted(saved))))
            else:
                ops.append(("enter-named", rng.choice(sorted(saved))) if saved and rng.random() < 0.5 else ("enter-current",))
                ops.append(xf())
                if rng.random() < 0.5 or st["open"] >= 2:
                    ops.append(("exit", rng.random() < 0.4))
                else:
                    st["open"] += 1

    def strong(kk, dn):
        f = pow10(-kk if dn else kk)
        r = rng.random()
        if r < 0.55:
            fs = [f]
        elif r < 0.65:
            fs = [-f]
        elif r < 0.75:
            fs = [f, f]          # z keeps its unit
        elif r < 0.85:
            fs = [f, -f, f]
        elif r < 0.93:
            fs = [f, f, pow10((-kk if dn else kk) + rng.choice([-1, 1]))]
        else:
            fs = [f * rng.choice([2.54, 0.5, 25.4])]
        r = rng.random()
        if r < 0.45:
            ops.append(("pivot", [0.0, 0.0, 0.0]))
        elif r < 0.60:
            ops.append(("pivot", [X.grid(rng, 32) / 4, X.grid(rng, 32) / 4, 0.0]))
        ops.append(("scale", fs))

    if shape == "alone":
        strong(k, down)
        if rng.random() < 0.5:
            ops.append(rng.choice([("rotate", rng.choice([45.0, 90.0, 30.0, -17.25]), rng.choice(X.AXES)),
                                   ("mirror", rng.choice(["xy", "yz", "zx"]))]))
    elif shape == "first":
        strong(k, down)
        ordinary(rng.randint(1, 6))
    elif shape == "last":
        ordinary(rng.randint(1, 5))
        strong(k, down)
        ordinary(rng.randint(0, 2))
    elif shape == "there-and-back":
        ordinary(rng.randint(0, 2))
        strong(k, down)
        ordinary(rng.randint(1, 4))
        strong(k, not down)
        ordinary(rng.randint(0, 2))
    elif shape == "two-step":
        k1 = rng.randint(1, 6)
        k2 = rng.randint(1, 7 - k1)
        ordinary(rng.randint(0, 2))
        strong(k1, down)
        ordinary(rng.randint(0, 3))
        strong(k2, down)
        ordinary(rng.randint(0, 2))
    else:  # snapshot: the strongly scaled state is saved, modified and restored
        ordinary(rng.randint(0, 2))
        strong(k, down)
        nm = rng.choice([None, None] + names)
        ops.append(("save", nm))
        if nm is None:
            st["depth"] += 1
        else:
            saved.add(nm)
        ordinary(rng.randint(1, 3))
        ops.append(("restore", nm))
        if nm is None:
            st["depth"] = max(0, st["depth"] - 1)
        ordinary(rng.randint(0, 2))
    for _ in range(st["open"]):
        ops.append(("exit", rng.random() < 0.3))
    for nm in sorted(saved):
        ops.append(("restore", nm))
    for _ in range(min(st["depth"], 4)):
        ops.append(("restore", None))
    probes = gen_probes(rng, False)[:3]
    if rng.random() < 0.25:   # drawings in small units have large coordinates (and vice versa)
        m = pow10(rng.randint(1, min(k, 4)) * (1 if down else -1))
        probes = [[c * m for c in p] for p in probes]
    return {"exact": False, "family": "strong", "probes": probes, "ops": ops}


def gen_near_case(rng):
    """family "near": a state whose matrix has LARGE entries (a fixture offset of 50..2000 units, a turn / scaling /
    mirror about a pivot that far away) is snapshotted - under a name, on the stack, by a `with` block -, then changed
    only SLIGHTLY (relative size 10^-2 .. 10^-7 of the entries at hand: a fine offset, a shrinkage factor, a tiny turn,
    a nudged pivot), then restored (`restore_state(name)`, `restore_state()`, `named_transform(name)`, leaving
    `current_transform()`), in 2..5 rounds, with and without a change of ordinary size and a first restore in between,
    and sometimes used (a call about the pivot) right after the restore.  The ordinary and the strong family only ever
    change a snapshotted state by amounts of the size of its entries, so that "the state restored" and "the state that
    happened to be current" were never close to each other.  A shadow reference machine tells the generator how large
    the entries currently are."""
    sh = X.RefMachine()
    ops = []
    names = X.NAMES[: rng.choice([1, 1, 2])]
    budget = {"log": 0.0, "max": 2.0}
    st = {"rot": 0, "depth": 0}
    saved = []

    def emit(op):
        ops.append(op)
        sh.step(op)

    def far(lo=50.0):
        return round(rng.choice([-1, 1]) * rng.choice([rng.uniform(lo, 400.0), rng.uniform(lo, 2000.0)]), rng.choice([0, 0, 1, 3]))

    def far3():
        return [far(), far(), rng.choice([0.0, 0.0, far(5.0) / 10])]

    def ordinary():
        while True:
            op = X.gen_xf_op(rng, False, budget)
            if op[0] == "rotate" and op[1] != 0.0:
                if st["rot"] >= 5:  # keeps the model's exact rationals printable
                    continue
                st["rot"] += 1
            return op

    def about():
        r = rng.random()
        if r < 0.45 and st["rot"] < 5:
            st["rot"] += 1
            return ("rotate", rng.choice([90.0, 30.0, 45.0, -17.25, rng.uniform(-180, 180)]), rng.choice(X.AXES))
        if r < 0.75:
            return ("scale", [rng.choice([2.0, 0.5, 1.5, -1.0, 1.25])])
        return ("mirror", rng.choice(["xy", "yz", "zx"]))

    def small():
        k = rng.randint(2, 7)
        return float(f"{rng.choice([1, 1, 2, 5, round(rng.uniform(1, 9.9), 2)])}e-{k}")

    def tiny(rel):
        M, p = sh.cur
        r = rng.random()
        if r < 0.40:     # a fine offset, relative to the offsets in force
            d = [rng.choice([-1, 1, 1, 0]) * rel * max(1.0, abs(float(M[i, 3]))) for i in range(3)]
            if not any(d):
                d[rng.randrange(2)] = rel * max(1.0, float(np.max(np.abs(M[:3, 3]))))
            return ("translate", d)
        if r < 0.75:     # a shrinkage / calibration factor
            s, t = 1.0 + rel, 1.0 - rel
            return ("scale", rng.choice([[s], [s], [t], [s, s], [s, t, 1.0], [1.0, 1.0, t]]))
        if r < 0.87 and st["rot"] < 5:
            st["rot"] += 1
            return ("rotate", rng.choice([-1, 1]) * rel * rng.choice([1.0, 10.0, 57.3]), rng.choice(X.AXES))
        return ("pivot", [float(c) + rng.choice([-1, 1, 1, 0]) * rel * max(1.0, abs(float(c))) for c in p])

    # --- a state with large entries
    for _ in range(rng.choice([0, 0, 1, 2])):
        emit(ordinary())
    shape = rng.choice(["offset", "offset", "offset+turn", "far-pivot", "both"])
    if shape in ("offset", "offset+turn", "both"):
        emit(("translate", far3()))
    if shape == "offset+turn":
        emit(about())
    if shape in ("far-pivot", "both"):
        emit(("pivot", far3()))
        emit(about())
    # --- snapshot it
    nm = rng.choice(names)
    emit(("save", nm if rng.random() < 0.9 else " " + nm))
    saved.append(nm)
    # --- rounds of: small change, restore
    for _ in range(rng.randint(2, 5)):
        how = rng.choice(["name", "name", "name", "enter-named", "enter-named", "stack", "current"])
        nm = rng.choice(saved)
        if rng.random() < 0.25:   # a change of ordinary size is undone first: the small one starts from the snapshot
            emit(ordinary())
            emit(("restore", nm))
        if how == "stack":
            emit(("save", None))
        elif how == "current":
            emit(("enter-current",))
        rel = small()
        emit(tiny(rel))
        if rng.random() < 0.3:
            emit(tiny(rel if rng.random() < 0.5 else small()))
        if how == "name":
            emit(("restore", nm))
        elif how == "stack":
            emit(("restore", None))
        elif how == "current":
            emit(("exit", rng.random() < 0.4))
        else:
            emit(("enter-named", nm))
            if rng.random() < 0.4:
                emit(tiny(small()))
            emit(("exit", rng.random() < 0.4))
            if rng.random() < 0.7:
                emit(("restore", nm))
        if rng.random() < 0.3:    # the restored state is used: a call about the pivot in force, then back again
            emit(about())
            emit(("restore", nm))
        if rng.random() < 0.2:    # another snapshot: of what is current now, or under a second name
            nm2 = rng.choice(names)
            emit(("save", nm2))
            if nm2 not in saved:
                saved.append(nm2)
    for nm in sorted(saved):
        emit(("restore", nm))
    probes = gen_probes(rng, False)[:3]
    if rng.random() < 0.5:   # a drawing of the size of the fixture
        probes[rng.randrange(3)] = [float(rng.randint(-400, 400)), float(rng.randint(-400, 400)), float(rng.randint(-20, 20))]
    return {"exact": False, "family": "near", "probes": probes, "ops": ops}


def gen_deferred_case(rng):
    """family "deferred": the context-manager OBJECT is made (`scope = g.current_transform()`,
    `g.named_transform(name)`) some calls before it is entered, and the transform, the stack or the very name change in
    between; "the transform in effect on entry" and "the transform in effect when the object was made" differ, which
    they never do in `with g.current_transform():` written inline (the only form the other families use).  Shapes:

      late     make one scope, 1..3 changes, enter it (`with scope:` or through an ExitStack), a body, leave it
      upfront  2..3 scopes made up front (as one does for an ExitStack), maybe a change, entered one after the other
               - entering a named one changes the transform the next one has to put back -, left in reverse order
      again    one object entered several times the way a decorated function does on every call, changes in between
      mixed    makes, deferred and inline entries, exits, failing calls and saves / restores in random order"""
    exact = rng.random() < 0.5
    budget = {"log": 0.0, "max": 5.0 if exact else 4.0}
    names = X.NAMES[: rng.choice([1, 2])]
    st = {"rot": 0, "depth": 0, "open": 0}
    ops, saved, made = [], set(), []

    def xf():
        while True:
            op = X.gen_xf_op(rng, exact, budget)
            if op[0] == "rotate" and op[1] != 0.0:
                if st["rot"] >= 5:  # keeps the model's exact rationals printable
                    continue
                st["rot"] += 1
            return op

    def save_named():
        nm = rng.choice(names)
        ops.append(("save", nm if rng.random() < 0.9 else nm + " "))
        saved.add(nm)

    def change():
        """something that alters the transform, the stack or a name"""
        r = rng.random()
        if r < 0.62:
            ops.append(xf())
        elif r < 0.74:
            ops.append(("save", None))
            st["depth"] += 1
        elif r < 0.82:
            if st["depth"]:
                ops.append(("restore", None))
                st["depth"] -= 1
            else:
                ops.append(xf())
        elif r < 0.91:
            ops.append(("restore", rng.choice(sorted(saved))) if saved else xf())
        else:
            save_named()   # a named scope made earlier restores what the name holds when it is ENTERED

    def make():
        if saved and rng.random() < 0.45:
            ops.append(("make-named", rng.choice(sorted(saved))))
        elif rng.random() < 0.04:
            ops.append(("make-named", rng.choice(["zz", ""])))   # entering it fails; making it does not
        else:
            ops.append(("make-current",))
        made.append(ops[-1])

    def enter(i, how):
        ops.append(("enter-made", i, how))
        if how != "again":
            made.pop(i)
        st["open"] += 1

    def leave():
        ops.append(("exit", rng.random() < 0.4))
        st["open"] -= 1

    def body(n):
        for _ in range(n):
            r = rng.random()
            if r < 0.7:
                ops.append(xf())
            elif r < 0.8:
                ops.append(("save", None))       # left on the stack: the exit has to take it off again
            elif r < 0.9:
                ops.append(("restore", None))    # takes an outer entry off (or fails): the exit has to put it back
            else:
                save_named()

    for _ in range(rng.choice([0, 1, 2, 3])):
        ops.append(xf())
    if rng.random() < 0.6:
        save_named()
    if rng.random() < 0.3:
        ops.append(("save", None))
        st["depth"] += 1
    shape = rng.choice(["late", "late", "upfront", "upfront", "again", "mixed", "mixed"])
    how2 = lambda: rng.choice(["with", "stack"])  # noqa: E731
    if shape == "late":
        for _ in range(rng.choice([1, 1, 2])):
            make()
            for _ in range(rng.randint(1, 3)):
                change()
            enter(0, how2())
            body(rng.randint(0, 2))
            leave()
            for _ in range(rng.randint(0, 2)):
                change()
    elif shape == "upfront":
        k = rng.choice([2, 2, 3])
        for _ in range(k):
            make()
        for _ in range(rng.choice([0, 0, 1, 2])):
            change()
        how = rng.choice(["stack", "stack", "with", None])
        order = rng.choice(["fifo", "fifo", "lifo", "any"])
        for _ in range(k):
            i = 0 if order == "fifo" else len(made) - 1 if order == "lifo" else rng.randrange(len(made))
            enter(i, how or how2())
            body(rng.choice([0, 0, 1, 2]))
        for _ in range(k):
            leave()
            if rng.random() < 0.4:
                ops.append(xf())
    elif shape == "again":
        make()
        for _ in range(rng.randint(2, 3)):
            for _ in range(rng.randint(1, 2)):
                change()
            enter(0, "again")
            body(rng.randint(0, 2))
            leave()
    else:
        for _ in range(rng.randint(8, 18)):
            r = rng.random()
            if r < 0.30:
                change()
            elif r < 0.48:
                if len(made) < 3:
                    make()
            elif r < 0.68:
                if made and st["open"] < 3:
                    enter(rng.randrange(len(made)), rng.choice(["with", "stack", "stack", "again"]))
            elif r < 0.74:
                if st["open"] < 3:
                    ops.append(("enter-named", rng.choice(sorted(saved))) if saved and rng.random() < 0.5 else ("enter-current",))
                    st["open"] += 1
            elif r < 0.94:
                if st["open"] > 0:
                    leave()
            elif st["open"] > 0:
                ops.append(rng.choice([("restore", "zz"), ("delete", "zz"), ("scale", [0.0])]))
                k = rng.randint(1, st["open"])
                ops.append(("unwind", k))
                st["open"] -= k
    for _ in range(max(st["open"], 0)):
        ops.append(("exit", rng.random() < 0.3))
    for nm in sorted(saved):
        ops.append(("restore", nm))
    for _ in range(min(st["depth"], 4) + 1):
        ops.append(("restore", None))
    return {"exact": exact and all(X.is_exact_op(o) for o in ops), "family": "deferred", "probes": gen_probes(rng, exact),
            "ops": ops}


INT_FACTORS = [2, 2, 3, -1, -2, 4, 5, 10, 1]
INT_BLOCKS = [[2, 0, 0, 0, 2, 0, 0, 0, 2], [2, 0, 0, 0, 3, 0, 0, 0, 1], [1, 1, 0, 0, 1, 0, 0, 0, 1], [1, 0, 0, 2, 1, 0, 0, 0, -1],
              [-1, 0, 0, 0, 1, 0, 0, 0, 1], [0, -2, 0, 2, 0, 0, 0, 0, 1]]


def floated(op):
    """the float twin of a call made with integers"""
    k = op[0]
    if k in ("translate", "scale", "pivot", "reflect", "chain"):
        return (k, [float(c) for c in op[1]])
    if k == "rotate":
        return (k, float(op[1]), op[2])
    return op


def gen_ints_case(rng):
    """family "ints": the numbers are handed over the way they are usually typed - `scale(2)`, `translate(10, 0, 5)`,
    `rotate(90)`, `reflect([1, 1, 0])`, `set_pivot((3, 2, 0))` as Python ints (numpy integers are refused by the
    signatures), `chain_transform` with an ndarray of dtype int64 / int32 -, all-integer and mixed with floats, about
    pivots with FRACTIONAL coordinates (halves, quarters, 32nds, arbitrary) as well as whole ones, snapshotted by save /
    restore / blocks.  Returns the history and its float twin (same calls, every number a float): both are run and judged.
    The other families only ever pass floats."""
    budget = {"log": 0.0, "max": 5.0}
    names = X.NAMES[: rng.choice([1, 2])]
    st = {"rot": 0, "depth": 0, "open": 0}
    ops, saved = [], set()

    def factor():
        f = rng.choice(INT_FACTORS)
        lg = math.log2(abs(f))
        if abs(budget["log"] + lg) > budget["max"]:
            f, lg = rng.choice([1, -1]), 0.0
        budget["log"] += lg
        return f

    def pivot():
        r = rng.random()
        if r < 0.25:
            p = [rng.randint(-10, 10), rng.randint(-10, 10), rng.choice([0, 0, rng.randint(-5, 5)])]   # whole, as ints
        elif r < 0.85:
            d = rng.choice([2, 2, 4, 8, 32])
            p = [rng.randint(-40, 40) / d, rng.randint(-40, 40) / d, rng.choice([0, 0.0, rng.randint(-40, 40) / d])]
        else:
            p = [round(rng.uniform(-20, 20), rng.choice([1, 2, 3])) for _ in range(3)]
        return ("pivot", p)

    def call():
        k = rng.choices(["scale", "translate", "rotate", "reflect", "mirror", "pivot", "chain"], [32, 14, 8, 6, 4, 20, 16])[0]
        if k == "scale":
            fs = [factor() for _ in range(rng.choice([1, 1, 1, 2, 3]))]
            if rng.random() < 0.15:   # one float among the ints
                fs[rng.randrange(len(fs))] = rng.choice([0.5, 2.0, 1.0, 1.5])
            return ("scale", fs)
        if k == "translate":
            v = [rng.randint(-20, 20) for _ in range(3)]
            if rng.random() < 0.2:
                v[rng.randrange(3)] = X.grid(rng)
            return ("translate", v)
        if k == "rotate":
            if st["rot"] >= 3:
                return ("rotate", 0, rng.choice(X.AXES))
            st["rot"] += 1
            return ("rotate", rng.choice([90, -90, 180, 270, 45, 30, 360, -17]), rng.choice(X.AXES))
        if k == "reflect":
            while True:
                n = [rng.randint(-2, 2) for _ in range(3)]
                if any(n):
                    return ("reflect", n)
        if k == "mirror":
            return ("mirror", rng.choice(["xy", "yz", "zx"]))
        if k == "pivot":
            return pivot()
        blk = list(rng.choice(X.EXACT_BLOCKS + INT_BLOCKS))
        lg = math.log2(max(1, max(abs(c) for c in blk)))
        if abs(budget["log"] + lg) > budget["max"]:
            blk = list(rng.choice(X.EXACT_BLOCKS))
        else:
            budget["log"] += lg
        return ("chain", [int(c) for c in blk], rng.choice(["int64", "int64", "int32"]))

    if rng.random() < 0.7:
        ops.append(pivot())
    for _ in range(rng.randint(3, 12)):
        r = rng.random()
        if r < 0.62:
            ops.append(call())
        elif r < 0.70:
            ops.append(("save", None))
            st["depth"] += 1
        elif r < 0.77:
            nm = rng.choice(names)
            ops.append(("save", nm))
            saved.add(nm)
        elif r < 0.83:
            if st["depth"]:
                ops.append(("restore", None))
                st["depth"] -= 1
        elif r < 0.89:
            if saved:
                ops.append(("restore", rng.choice(sorted(saved))))
        elif r < 0.95:
            if st["open"] < 2:
                ops.append(("enter-named", rng.choice(sorted(saved))) if saved and rng.random() < 0.5 else ("enter-current",))
                ops.append(call())
                st["open"] += 1
        elif st["open"]:
            ops.append(("exit", rng.random() < 0.4))
            st["open"] -= 1
    for _ in range(st["open"]):
        ops.append(("exit", rng.random() < 0.3))
    for nm in sorted(saved):
        ops.append(("restore", nm))
    for _ in range(min(st["depth"], 4)):
        ops.append(("restore", None))
    exact = all(X.is_exact_op(o) for o in ops)
    probes = gen_probes(rng, exact)
    return ({"exact": exact, "family": "ints", "probes": probes, "ops": ops},
            {"exact": exact, "family": "ints-twin", "probes": probes, "ops": [floated(o) for o in ops]})


def gen_ints_cases(rng, n):
    return [c for _ in range(n) for c in gen_ints_case(rng)]


# exhaustive alphabet (thorough): 10 calls, exact arithmetic
ALPHABET = [
    ("translate", [1.0, 0.5, -2.0]), ("scale", [2.0]), ("chain", [0.0, -1.0, 0.0, 1.0, 0.0, 0.0, 0.0, 0.0, 1.0]),
    ("pivot", [1.0, 2.0, 0.5]), ("save", None), ("restore", None), ("save", "a"), ("restore", "a"),
    ("enter-named", "a"), ("exit", True),
]


def exhaustive_cases(maxlen):
    probes = [[1.5, -2.0, 0.5], [-3.25, 2.0, 8.0]]   # two generic points: every observation is a typeguard-checked call
    for L in range(1, maxlen + 1):
        for seq in itertools.product(range(len(ALPHABET)), repeat=L):
            open_ctx, ok = 0, True
            for i in seq:
                k = ALPHABET[i][0]
                if k == "exit":
                    if open_ctx == 0:
                        ok = False  # an `exit` without a block is not a program
                        break
                    open_ctx -= 1
                elif k == "enter-named":
                    open_ctx += 1  # may fail to enter: the executor then skips the unmatched exit
            if ok:
                yield {"exact": True, "probes": probes, "ops": [ALPHABET[i] for i in seq] + [("restore", "a"), ("restore", None)]}


def jsonable(case):
    d = {"exact": case["exact"], "probes": case["probes"], "ops": [list(o) for o in case["ops"]]}
    if case.get("family"):
        d["family"] = case["family"]
    return d


def from_json(d):
    c = {"exact": d["exact"], "probes": d["probes"], "ops": [tuple(o) for o in d["ops"]]}
    if d.get("family"):
        c["family"] = d["family"]
    return c


# ------------------------------------------------------------------ oracle (independent of the Lean model)
def oracle(case, trace):
    """the implementation against the immutable-value stack machine, plus the property's own clauses"""
    ref = X.RefMachine()
    probes = case["probes"]
    for i, e in enumerate(trace):
        op = e["op"]
        ref_pivot_before = ref.cur[1].copy()
        want = ref.step(op)
        o = e["obs"]
        where = f"step {i} ({(e['line'] or ' '.join(str(x) for x in op))[:40]})"
        if e["outcome"] != want:
            return f"{where}: raised {e['outcome']}, the specification says {want}", "outcome"
        if o["depth"] != len(ref.stack):
            return f"{where}: stack depth {o['depth']}, expected {len(ref.stack)}", "stack"
        if sorted(o["names"]) != sorted(ref.named):
            return f"{where}: named states {sorted(o['names'])}, expected {sorted(ref.named)}", "names"
        for p, got, back in zip(probes, o["ap"], o["rv"]):
            if not X.close(got, ref.apply(p), TOL):
                return (f"{where}: apply_transform{tuple(p)} = {got}, the immutable-value machine gives "
                        f"{ref.apply(p).tolist()}"), "mapping"
            if not X.close(back, ref.reverse(p), 1e-7):
                return (f"{where}: reverse_transform{tuple(p)} = {back}, expected {ref.reverse(p).tolist()}"), "reverse"
        if e.get("pivot") is not None and e["outcome"] == "ok":
            piv, img = e["pivot"]
            if not X.close(img, piv, 1e-7):
                return (f"{where}: the pivot {tuple(piv)} is not fixed: its pre-image is now mapped to {tuple(img)}"), "pivot"
            if not X.close(piv, ref_pivot_before, TOL):
                return f"{where}: pivot in force {tuple(piv)}, expected {ref_pivot_before.tolist()}", "pivot"
    return None, None


def roundtrip_oracle(sess, probes):
    """reverse(apply(p)) == p on the live object (end of the history)"""
    from gscrib.geometry import Point

    for p in probes:
        img = sess.t.apply_transform(Point(*p))
        back = sess.t.reverse_transform(img)
        if not X.close([float(c) for c in back], p, 1e-7):
            return f"reverse_transform(apply_transform({p})) = {[float(c) for c in back]}"
    return None


# ------------------------------------------------------------------ family "strong": condition-aware tolerances
U = 2.0 ** -53   # unit roundoff of IEEE double
# Tolerances of the strong family = K_* x (first-order rounding bound, see `strong_units`), per coordinate, absolute.
# Measured on the unchanged tree over 16 seeds x 3000 generated cases (~310 000 calls, 3 probes each): the worst ratio
# |error| / bound was 1.28 (round trip), 0.30 (apply), 0.25 (reverse), 0.83 (pivot).  Each K leaves a factor >= 200 above
# that; the worst ratios of every run are written to the evidence (`strong_margins`).  For comparison, coordinates
# snapped to 12 decimals under scale(1e-6) give ratios of 1e6 .. 1e10 in the round trip.
# The family "near" is judged with the same K and the same bounds (`NearRef`: translate bounded as the call about the pivot
# it is).  Measured on the unchanged tree over 16 seeds x 1000 generated cases (~325 000 calls, 3 probes each): worst
# ratios 1.14 (round trip), 0.31 (apply), 0.24 (reverse), 1.15 (pivot), 0 (a named state against its own earlier images:
# bit-identical) - again a factor >= 200 below K; written to the evidence as `near_margins`.  A restore skipped because the
# change since the snapshot was "small" (1e-7 of an offset of 250) gives apply ratios of 1e5 .. 1e10.
K_RT = 256.0     # round trip reverse(apply(p)) = p
K_AP = 64.0      # apply_transform against the reference (and against the exact model)
K_RV = 64.0      # reverse_transform against the reference (and against the exact model)
K_PV = 256.0     # the pivot stays fixed
WORST = {"rt": 0.0, "ap": 0.0, "rv": 0.0, "pivot": 0.0, "same": 0.0}


class ErrRef(X.RefMachine):
    """The reference machine, whose values (M, pivot, E) also carry E: an entrywise first-order bound on
    |matrix computed in doubles - exact matrix of the call history| (running error analysis; fl(AB) = AB + D with
    |D| <= 4u|A||B| for 4x4 factors, Higham, Accuracy and Stability of Numerical Algorithms, 3.5):

        L about pivot p :  N = T(p) L T(-p),  dN = 8u |T(p)||L||T(-p)| + |T(p)| dL |T(-p)|
                           M' = N M,          E' = |N| E + (dN + 4u|N|) |M|
        translate v     :  M' = T(v) M,       E' = |T(v)| E + 4u |T(v)||M|

    dL = 4u on the 3x3 block for rotate / reflect (scipy's quaternion route vs the textbook matrix; normalising the
    normal), 0 for scale / mirror / the exact right-angle blocks."""

    def __init__(self):
        super().__init__()
        self.cur = (np.eye(4), np.zeros(3), np.zeros((4, 4)))
        self.last = None   # (|T(p)||L||T(-p)|, M before, E before) of the latest call about the pivot
        self._dl = 0.0

    def _about(self, lin3):
        M, p, E = self.cur
        L = np.eye(4)
        L[:3, :3] = lin3
        Tp, Tm = X._eye_t(p), X._eye_t(-p)
        N = Tp @ L @ Tm
        dL = np.zeros((4, 4))
        dL[:3, :3] = self._dl
        P = np.abs(Tp) @ (np.abs(L) + dL) @ np.abs(Tm)   # |L| of the implementation is within dL of this one
        dN = 8 * U * P + np.abs(Tp) @ dL @ np.abs(Tm)
        self.last = (P, M, E)
        self.cur = (N @ M, p, np.abs(N) @ E + (dN + 4 * U * np.abs(N)) @ np.abs(M))

    def step(self, op) -> str:
        k = op[0]
        if k == "translate":
            M, p, E = self.cur
            T = X._eye_t(np.array(op[1], dtype=float))
            self.cur = (T @ M, p, np.abs(T) @ E + 4 * U * np.abs(T) @ np.abs(M))
            return "ok"
        if k == "pivot":
            self.cur = (self.cur[0], np.array(op[1], dtype=float), self.cur[2])
            return "ok"
        self._dl = 4 * U if k in ("rotate", "reflect") else 0.0
        return super().step(op)


class NearRef(ErrRef):
    """`ErrRef` for the family "near".  `translate(v)` is carried out by the implementation like every other call, about
    the pivot: fl(fl(T(p) T(v)) T(-p)) M.  The exact product is T(v), but p + v - p is rounded at the size of p, not of v:
    for an offset much smaller than the pivot (which only this family produces) the error u|p| exceeds `ErrRef`'s
    4u|T(v)||M| (seen on the unchanged tree: translate z = 1e-4 about a pivot z = -2.4 gives 1.0000000000021e-4).  So
    the bound of a call about the pivot is used, with L = T(v) and dL = 0:

        dN = 8u |T(p)||T(v)||T(-p)|,   E' = |T(v)| E + (dN + 4u|T(v)|) |M|

    The strong family keeps `ErrRef` as it was."""

    def step(self, op) -> str:
        if op[0] != "translate":
            return super().step(op)
        M, p, E = self.cur
        T = X._eye_t(np.array(op[1], dtype=float))
        dN = 8 * U * np.abs(X._eye_t(p)) @ np.abs(T) @ np.abs(X._eye_t(-p))
        self.cur = (T @ M, p, np.abs(T) @ E + (dN + 4 * U * np.abs(T)) @ np.abs(M))
        return "ok"


def _over(kind, got, want, unit, K):
    """is |got - want| > K * unit somewhere?  (remembers the worst ratio |got - want| / unit seen)"""
    d = np.abs(np.asarray(got, dtype=float) - np.asarray(want, dtype=float))
    with np.errstate(divide="ignore", invalid="ignore"):
        r = np.where(d == 0, 0.0, d / unit)
    WORST[kind] = max(WORST[kind], float(np.max(r)))
    return bool(np.any(d > K * unit))


def abs_mats(M, E):
    """(|M| + E, |M^-1| + |M^-1| E |M^-1|, P^T|L||U| + E): entrywise majorants of the matrix the implementation holds, of
    its inverse and of its LU factors (E only matters where the reference has an exact zero and the implementation 1e-17
    of dust)"""
    from scipy.linalg import lu

    aI = np.abs(np.linalg.inv(M))
    pm, lo, up = lu(M)
    return np.abs(M) + E, aI + aI @ E @ aI, pm @ np.abs(lo) @ np.abs(up) + E


def strong_units(ref, p, mats):
    """first-order rounding bounds (in absolute terms, per coordinate) for one probe in the state `ref.cur`:

      apply          |M^ p~ - M p~|                <= (E + 4u|M|) |p~|           (twice: implementation and reference)
      reverse        x^ = fl(inv(M^) p~), x = M^-1 p~:
                     |x^ - x| <= |M^-1| E |x~|  +  c u |M^-1||M||M^-1||p~|       (perturbation of M; explicit inverse by
                                                                                 LU, Higham 14.3 `method D`, and the product)
      round trip     q = fl(X fl(M^ p~)),  X = inv(M^) as computed from the factorisation P M^ = L U:
                     |q - p| <= |X M^ - I||p~| + |X| 4u |M||p~| + 4u|X||M p~|  <=  c u |M^-1| (P^T|L||U|) |p~|
                     (the left residual of the LU-based inverse is c u |X||L||U|, Higham 14.3.2, whatever the history did
                     to M^, so E does not enter; |L||U| >= |M|; this is double rounding amplified by the componentwise
                     (Bauer-Skeel) condition number of the matrix, including the growth of its factorisation)
    with p~ = (p, 1), c = 4 (the K_* absorb the true constants).  `mats` = `abs_mats(M, E)`."""
    M, _, E = ref.cur
    aM, aI, aLU = mats
    pt = np.abs(np.array([*p, 1.0]))
    x = np.abs(np.array([*ref.reverse(p), 1.0]))
    ap = ((2 * E + 4 * U * aM) @ pt)[:3]
    rv = (aI @ (2 * E @ x) + 4 * U * (aI @ (aM @ (aI @ pt))))[:3]
    rt = (4 * U * (aI @ (aLU @ pt)))[:3]
    return ap, rv, rt


def oracle_strong(case, trace):
    """the oracle of the strong family: same clauses as `oracle`, every numerical comparison against a tolerance that
    follows the conditioning of the matrix, plus the round trip reverse(apply(p)) = p after every call"""
    ref = NearRef() if case.get("family") == "near" else ErrRef()
    probes = case["probes"]
    shown = {}   # name -> (step, images of the probes) when the state was saved under that name
    for i, e in enumerate(trace):
        op = e["op"]
        ref_pivot_before = ref.cur[1].copy()
        want = ref.step(op)
        o = e["obs"]
        where = f"step {i} ({(e['line'] or ' '.join(str(x) for x in op))[:40]})"
        if e["outcome"] != want:
            return f"{where}: raised {e['outcome']}, the specification says {want}", "outcome"
        if o["depth"] != len(ref.stack):
            return f"{where}: stack depth {o['depth']}, expected {len(ref.stack)}", "stack"
        if sorted(o["names"]) != sorted(ref.named):
            return f"{where}: named states {sorted(o['names'])}, expected {sorted(ref.named)}", "names"
        tol_ap, tol_rv = [], []
        mats = abs_mats(ref.cur[0], ref.cur[2])
        # "a named state yields the same mapping every time it is restored": the implementation against ITSELF - the
        # images of the probes observed when the state was saved under the name, and after every later restore of that
        # name.  Both are fl(M^ p~) of what must be one and the same stored matrix (a correct implementation gives
        # bit-identical results); the allowance is the apply tolerance of the state, K_AP x (2E + 4u|M|)|p~|.
        key = ref._key(op[1]) if op[0] in ("save", "restore", "enter-named") and e["outcome"] == "ok" else None
        if key is not None and op[0] == "save":
            shown[key] = (i, o["ap"])
        elif key is not None and key in shown:
            i0, first = shown[key]
            for p, was, got in zip(probes, first, o["ap"]):
                u_ap = strong_units(ref, p, mats)[0]
                if _over("same", got, was, u_ap, K_AP):
                    return (f"{where}: the state saved as {key!r} at step {i0} mapped {tuple(p)} to {was}; restored now, it "
                            f"maps it to {got} (off by {float(np.max(np.abs(np.array(got) - np.array(was)))):.3e}, "
                            f"rounding allows {float(np.max(K_AP * u_ap)):.3e})"), "named-immutable"
        for p, got, back, rt in zip(probes, o["ap"], o["rv"], o["rt"]):
            u_ap, u_rv, u_rt = strong_units(ref, p, mats)
            tol_ap.append(K_AP * u_ap)
            tol_rv.append(K_RV * u_rv)
            if _over("rt", rt, p, u_rt, K_RT):
                err = np.abs(np.array(rt) - np.array(p))
                j = int(np.argmax(err - K_RT * u_rt))
                return (f"{where}: reverse_transform(apply_transform{tuple(p)}) = {rt}: {X.AXES[j]} is off by {err[j]:.3e}, "
                        f"rounding amplified by the conditioning of this matrix allows {K_RT * u_rt[j]:.3e}"), "roundtrip"
            if _over("ap", got, ref.apply(p), u_ap, K_AP):
                return (f"{where}: apply_transform{tuple(p)} = {got}, the immutable-value machine gives "
                        f"{ref.apply(p).tolist()}"), "mapping"
            if _over("rv", back, ref.reverse(p), u_rv, K_RV):
                return (f"{where}: reverse_transform{tuple(p)} = {back}, expected {ref.reverse(p).tolist()}"), "reverse"
        e["tol"] = (tol_ap, tol_rv)
        if e.get("pivot") is not None and e["outcome"] == "ok":
            piv, img = e["pivot"]
            # img = M1^ fl(X0 piv~), M1 = N M0, N piv~ = piv~, X0 = inv(M0^):  |img - piv| <= c u |T(p)||L||T(-p)| (|L0||U0|) |M0^-1| |piv~|
            P, M0, E0 = ref.last
            _, aI0, aLU0 = abs_mats(M0, E0)
            u_pv = (4 * U * (P @ (aLU0 @ (aI0 @ np.abs(np.array([*piv, 1.0]))))))[:3]
            if _over("pivot", img, piv, u_pv, K_PV):
                return (f"{where}: the pivot {tuple(piv)} is not fixed: its pre-image is now mapped to {tuple(img)}"), "pivot"
            if not X.close(piv, ref_pivot_before, TOL):
                return f"{where}: pivot in force {tuple(piv)}, expected {ref_pivot_before.tolist()}", "pivot"
    return None, None


class Session13(X.Session):
    """`X.Session` plus the calls of the families `deferred` and `ints`:

        ("make-current",)  ("make-named", name)   `g.current_transform()` / `g.named_transform(name)` is CALLED and the
                                                  context-manager object kept - it is not entered.  Nothing is told to the
                                                  model (trace entry with `line` None): a scope that has not been entered
                                                  is not a scope yet; the observations after the call are judged by the oracle.
        ("enter-made", i, how)                    the i-th object still kept (i modulo their number) is entered now:
                                                  how = "with"  : `cm.__enter__()`, what `with scope:` does
                                                        "stack" : `ExitStack().enter_context(cm)`; the ExitStack is what is left later
                                                        "again" : the way a decorated function enters it on every call
                                                                  (`ContextDecorator.__call__`: `with cm._recreate_cm():`);
                                                                  the object stays and can be entered again.
                                                  For the specification and the model this IS `enter-current` /
                                                  `enter-named name` at this very moment: the trace entry carries that op and line.
        ("chain", [9 integers], "int64"|"int32")  chain_transform with an ndarray of that integer dtype

    Python ints in the argument lists of translate / scale / rotate / reflect / set_pivot need nothing special: the op
    lists (and their JSON) keep 2 and 2.0 apart and `X.Session._call` hands them over as they are."""

    def __init__(self, *a, **k):
        super().__init__(*a, **k)
        self.made = []   # [op that made it, context-manager object], oldest first

    def _guarded(self, fn):
        n0 = len(self.rec.lines)
        try:
            fn()
            outcome = "ok"
        except IndexError:
            outcome = "IndexError"
        except KeyError:
            outcome = "KeyError"
        except ValueError:
            outcome = "ValueError"
        return outcome, None, self.rec.lines[n0:]

    def _call(self, op):
        if op[0] == "chain" and len(op) > 2:
            m = np.eye(4, dtype=op[2])
            m[:3, :3] = np.array(op[1], dtype=op[2]).reshape(3, 3)
            return self._guarded(lambda: self.t.chain_transform(m))
        return super()._call(op)

    def _entry(self, op, line, res, **more):
        outcome, block, written = res
        return {"op": op, "line": line, "outcome": outcome, "block": block, "written": written,
                "obs": self.observe(), "pivot": None, **more}

    def step(self, op) -> dict:
        k = op[0]
        if k in ("make-current", "make-named"):
            def make():
                cm = self.g.current_transform() if k == "make-current" else self.g.named_transform(op[1])
                self.made.append([op, cm])
            return self._entry(op, None, self._guarded(make))
        if k == "enter-made" and self.made:
            i = int(op[1]) % len(self.made)
            made_by, cm = self.made[i]
            how = op[2] if op[2] != "again" or hasattr(cm, "_recreate_cm") else "with"
            if how != "again":
                del self.made[i]   # a generator-based context manager can be entered once

            def enter():
                if how == "again":
                    c = cm._recreate_cm()
                    c.__enter__()
                elif how == "stack":
                    import contextlib

                    c = contextlib.ExitStack()
                    c.enter_context(cm)
                else:
                    c = cm
                    c.__enter__()
                self.cms.append(c)
            eq = ("enter-current",) if made_by[0] == "make-current" else ("enter-named", made_by[1])
            return self._entry(eq, X.op_line(eq), self._guarded(enter), via=how)
        if k == "enter-made":
            return super().step(("enter-current",))   # nothing was made: an ordinary block
        return super().step(op)


class RTSession(Session13):
    """Session that also observes the round trip reverse_transform(apply_transform(p)) of every probe after every call"""

    def observe(self) -> dict:
        from gscrib.geometry import Point

        o = super().observe()
        # o["ap"][i] are the coordinates of the Point apply_transform(p_i) has just returned
        o["rt"] = [[float(c) for c in self.t.reverse_transform(Point(*img))] for img in o["ap"]]
        return o


def is_strong(case):
    """the families judged by `oracle_strong` (tolerances that follow the matrix at hand, round trip after every call)"""
    return case.get("family") in ("strong", "near")


# ------------------------------------------------------------------ comparison with the model
def compare(case, trace, model_recs):
    """None if implementation and model agree on every step, else (step, impl, model)"""
    for i, (e, mr) in enumerate(zip(trace, model_recs)):
        ir = X.impl_record(e, 5)
        if case["exact"]:
            if ir != X.model_record_rounded(mr, 5):
                return i, ir, mr
            continue
        m = X.parse_record(mr)
        o = e["obs"]
        if (e["outcome"], o["depth"], o["ctx"], ",".join(X.hexname(n) for n in o["names"])) != (
                m["outcome"], m["depth"], m["ctx"], m["names"]):
            return i, ir, mr
        if is_strong(case):
            # the exact model against the doubles of the implementation: the rounding bounds of `strong_units`
            if "tol" not in e:
                continue   # the oracle stopped before this step
            for got, want, tol in zip(o["ap"] + o["rv"], m["ap"] + m["rv"], e["tol"][0] + e["tol"][1]):
                if np.any(np.abs(np.array(got) - np.array([float(c) for c in want])) > tol):
                    return i, ir, mr
            continue
        for got, want in zip(o["ap"] + o["rv"], m["ap"] + m["rv"]):
            if not X.close(got, [float(c) for c in want], TOL):
                return i, ir, mr
    return None


def run_batch(R, cases, label, oracle_only=False, pipe=None):
    """implementation first (sequential), the model in a worker thread, judged by `finish_batch`"""
    traces, lines, spans = [], [], []
    for case in cases:
        if is_strong(case):
            sess = RTSession(probes=case["probes"])
            # scipy.linalg.inv warns ("ill-conditioned matrix", by the norm-wise condition number) e.g. for a plain
            # translation by 1e8: recorded in the distribution report instead of being printed
            with warnings.catch_warnings(record=True) as caught:
                warnings.simplefilter("always")
                tr, rt = sess.execute(case["ops"]), None   # the round trip is observed after every call
            for w in caught[:1]:
                R.count("strong:case-with-" + w.category.__name__)
        else:
            sess = Session13(probes=case["probes"])
            tr = sess.execute(case["ops"])
            rt = roundtrip_oracle(sess, case["probes"])
        traces.append((tr, rt))
        start = len(lines)
        lines.append("reset")
        lines.append("probes " + " ".join(X.qv(p) for p in case["probes"]))
        lines.extend(e["line"] for e in tr if e["line"] is not None)   # making a scope object is no call of the model
        spans.append((start + 2, len(lines)))
    fut = None if oracle_only else X.submit_model(lines)
    job = (R, cases, label, oracle_only, traces, spans, fut)
    if pipe is None:
        finish_batch(job)
    else:
        pipe.append(job)


def finish_batch(job):
    R, cases, label, oracle_only, traces, spans, fut = job
    # the oracle does not need the model: evaluate it while the driver is still running
    verdicts = []
    for case, (tr, rt) in zip(cases, traces):
        msg, tag = oracle_strong(case, tr) if is_strong(case) else oracle(case, tr)
        if not msg and rt:
            msg, tag = rt, "reverse"
        verdicts.append((msg, tag))
    model_out = [] if oracle_only else fut.result()
    for case, (tr, _), (a, b), (msg, tag) in zip(cases, traces, spans, verdicts):
        kinds = {e["op"][0] for e in tr}
        errs = sum(1 for e in tr if e["outcome"] != "ok")
        cj = jsonable(case)
        R.case(cj, nontrivial=len(kinds) >= 4 and any(k in kinds for k in ("save", "enter-current", "enter-named")),
               validated=not oracle_only)
        R.count(label, "regime:" + ("exact" if case["exact"] else "tolerant"),
                f"len:{min(len(tr) // 10 * 10, 40)}+", f"errors:{min(errs, 5)}",
                "ctx:" + str(max([e['obs']['ctx'] for e in tr] + [0])))
        for e in tr:
            R.count("op:" + e["op"][0] + ("" if e["outcome"] == "ok" else ":" + e["outcome"]))
            if e.get("via"):
                R.count("entered-later:" + e["via"])
        if not oracle_only:
            d = compare(case, [e for e in tr if e["line"] is not None], model_out[a:b])
            if d:
                R.disagree("transform-history", cj, d[1], d[2], step=d[0])
        if msg:
            R.fail(cj, msg, tag=tag)


def run_all(R, cases, label, chunk, oracle_only=False):
    """pipeline: the model of chunk k runs while the implementation executes chunk k+1"""
    pipe = []
    for i in range(0, len(cases), chunk):
        run_batch(R, cases[i:i + chunk], label, oracle_only, pipe)
        if len(pipe) > 1:
            finish_batch(pipe.pop(0))
    while pipe:
        finish_batch(pipe.pop(0))


CORPUS = [
    # the README's named_transform use: modify after restoring a named state, then restore it again
    {"exact": True, "probes": [[1.5, -2.0, 0.5], [0.0, 0.0, 0.0], [1.0, 0.0, 0.0], [0.0, 1.0, 0.0], [-3.0, 4.0, 8.0]],
     "ops": [("translate", [10.0, 0.0, 0.0]), ("save", "a"), ("restore", "a"), ("scale", [2.0]), ("restore", "a"),
             ("enter-named", "a"), ("translate", [1.0, 1.0, 1.0]), ("exit", False), ("restore", "a")]},
    # save / modify / restore twice; a body that pops the stack and raises
    {"exact": True, "probes": [[1.0, 2.0, 3.0], [0.0, 0.0, 0.0], [-4.0, 0.5, 2.0], [8.0, 8.0, 8.0], [1.0, 0.0, 0.0]],
     "ops": [("pivot", [1.0, 2.0, 0.0]), ("save", None), ("scale", [2.0, 0.5]), ("save", None), ("mirror", "yz"),
             ("enter-current",), ("restore", None), ("restore", None), ("translate", [3.0, 0.0, 0.0]),
             ("restore", None), ("unwind", 1), ("restore", None), ("restore", None), ("restore", None)]},
    {"exact": False, "probes": [[1.0, 2.0, 3.0], [0.1, 0.2, 0.3], [-4.0, 0.5, 2.0], [8.0, 8.0, 8.0], [1.0, 0.0, 0.0]],
     "ops": [("pivot", [1.0, 2.0, 0.5]), ("rotate", 30.0, "x"), ("save", " b "), ("reflect", [1.0, 2.0, -2.0]),
             ("scale", [3.0]), ("enter-named", "b"), ("rotate", 90.0, "z"), ("exit", True), ("restore", "b"),
             ("delete", " b "), ("delete", "b"), ("restore", "b")]},
]


_P5 = [[1.23456789, -2.3456789, 3.456789], [-31.4159265, 27.1828182, 0.57721566], [12.5, -40.0, 0.0]]
STRONG_CORPUS = [
    # nm -> mm, turned and mirrored; the same state snapshotted and restored
    {"exact": False, "family": "strong", "probes": _P5,
     "ops": [("scale", [1e-6]), ("rotate", 45.0, "z"), ("mirror", "yz"), ("save", "a"), ("translate", [1.0, 1.0, 1.0]),
             ("restore", "a")]},
    # mm -> um about a pivot, and back inside a block that is left by an exception
    {"exact": False, "family": "strong", "probes": _P5,
     "ops": [("pivot", [2.0, -1.0, 0.5]), ("scale", [1e3]), ("enter-current",), ("scale", [1e-3]), ("rotate", 30.0, "x"),
             ("exit", True), ("translate", [0.5, 0.25, 0.0])]},
    # the drawing is laid out in ordinary units first, the conversion comes last
    {"exact": False, "family": "strong", "probes": _P5,
     "ops": [("translate", [10.0, 20.0, 30.0]), ("rotate", 33.0, "y"), ("pivot", [0.0, 0.0, 0.0]), ("save", None),
             ("scale", [1e-7, 1e-7]), ("restore", None), ("scale", [1e-5])]},
]


_P3 = [[1.5, -2.0, 0.5], [0.0, 0.0, 0.0], [-3.0, 4.0, 8.0], [1.0, 0.0, 0.0], [0.25, 1.0, -1.0]]
DEFERRED_CORPUS = [
    # scope = g.current_transform(); the transform is changed; with scope: ...  - leaving puts back the state on entry
    {"exact": True, "family": "deferred", "probes": _P3,
     "ops": [("translate", [10.0, 0.0, 0.0]), ("make-current",), ("translate", [1.0, 1.0, 1.0]), ("save", None),
             ("enter-made", 0, "with"), ("scale", [2.0]), ("restore", None), ("exit", False), ("restore", None)]},
    # two scopes made up front and entered through an ExitStack: entering the named one changes what the second puts back
    {"exact": True, "family": "deferred", "probes": _P3,
     "ops": [("scale", [2.0]), ("save", "a"), ("translate", [0.0, 4.0, 0.0]), ("make-named", "a"), ("make-current",),
             ("enter-made", 0, "stack"), ("enter-made", 0, "stack"), ("translate", [1.0, 0.0, 0.0]), ("exit", True),
             ("exit", False), ("restore", "a")]},
    # one object, entered on every call of a decorated function
    {"exact": True, "family": "deferred", "probes": _P3,
     "ops": [("make-current",), ("translate", [2.0, 0.0, 0.0]), ("enter-made", 0, "again"), ("scale", [0.5]), ("exit", False),
             ("pivot", [1.0, 1.0, 0.0]), ("scale", [2.0]), ("enter-made", 0, "again"), ("translate", [0.0, 0.0, 1.0]),
             ("exit", True)]},
]

INTS_CORPUS = [
    # scale(2) about a pivot with halves, inside a block and after it; the same with floats
    {"exact": True, "family": "ints", "probes": _P3,
     "ops": [("pivot", [2.5, 1.5, 0]), ("save", "a"), ("enter-current",), ("scale", [2]), ("exit", False), ("scale", [2, 4]),
             ("translate", [3, 0, -1]), ("restore", "a"), ("scale", [-1])]},
    {"exact": True, "family": "ints-twin", "probes": _P3,
     "ops": [("pivot", [2.5, 1.5, 0.0]), ("save", "a"), ("enter-current",), ("scale", [2.0]), ("exit", False),
             ("scale", [2.0, 4.0]), ("translate", [3.0, 0.0, -1.0]), ("restore", "a"), ("scale", [-1.0])]},
    # an integer ndarray handed to chain_transform about a fractional pivot; integer angle and normal
    {"exact": False, "family": "ints", "probes": _P3,
     "ops": [("pivot", [0.25, -1.5, 0.5]), ("chain", [0, -1, 0, 1, 0, 0, 0, 0, 1], "int64"), ("save", None),
             ("chain", [2, 0, 0, 0, 3, 0, 0, 0, 1], "int32"), ("rotate", 90, "z"), ("reflect", [1, 1, 0]), ("restore", None)]},
]


NEAR_CORPUS = [
    # a fixture offset saved under a name; a fine offset, a shrinkage factor and a nudged pivot, each followed by a restore
    {"exact": False, "family": "near", "probes": [[0.0, 0.0, 0.0], [120.0, -35.5, 2.0], [1.25, 300.0, -0.5]],
     "ops": [("translate", [300.0, -80.0, 12.5]), ("save", "a"), ("translate", [0.001, 0.0, 0.0]), ("restore", "a"),
             ("scale", [1.000002]), ("restore", "a"), ("pivot", [0.0, 1e-6, 0.0]), ("restore", "a"), ("scale", [2.0]),
             ("restore", "a")]},
    # a turn about a far pivot, saved on the stack and under a name; small changes inside and before the blocks
    {"exact": False, "family": "near", "probes": _P5,
     "ops": [("pivot", [640.0, -410.0, 0.0]), ("rotate", 30.0, "z"), ("save", None), ("save", "b"),
             ("translate", [-0.0004, 0.0002, 0.0]), ("enter-named", "b"), ("scale", [0.999999]), ("exit", False),
             ("restore", "b"), ("scale", [1.0000005, 1.0000005]), ("restore", None), ("translate", [25.0, 0.0, 0.0]),
             ("restore", "b"), ("enter-current",), ("translate", [0.0, 0.0, 3e-5]), ("exit", True), ("restore", "b")]},
]


def run(R: core.Run):
    R.rule = ("random call histories (3..25 calls + drain) over translate/scale/rotate/chain/reflect/mirror/set_pivot/"
              "save/restore/delete with <= 3 names (some padded with blanks) and `with current_transform()` / "
              "`with named_transform()` blocks nested <= 3, left normally, by `raise`, or by a failing call unwinding "
              "k blocks; 45% on the exact dyadic grid (literal comparison), the rest with arbitrary angles/values "
              "(1e-9); non-trivial = >= 4 call kinds incl. a save or a block; distinct by hash; plus the family `strong`: "
              "scalings by 10^-k / 10^k, k <= 7 (alone, before/after ordinary calls, there and back, in two steps, "
              "snapshotted by save/restore or inside blocks), round trip reverse(apply(p)) = p checked after every call, all "
              "numerical clauses with tolerances K x first-order rounding bound of the matrix at hand; plus the family `near` "
              "(same oracle): states with entries of 50..2000 units (offsets, calls about far pivots) snapshotted by name / "
              "stack / block, changed by 10^-2 .. 10^-7 of their entries (offset, factor, turn, pivot) and restored, 2..5 "
              "rounds; a named state must map the probes as it did when it was saved, every time it is restored; plus the "
              "family `deferred` (ordinary oracle and model): the context-manager objects are made some calls before they are "
              "entered (one scope entered late, 2..3 scopes made up front and entered through `with` / an ExitStack, one "
              "object entered repeatedly the way a decorator does, random mixes) with changes of the transform / stack / "
              "name in between - what is put back on exit is the state on ENTRY; plus the family `ints` (+ float twins): "
              "Python ints for scale / translate / rotate / reflect / set_pivot, int64 / int32 ndarrays for "
              "chain_transform, about fractional and whole pivots")
    R.assumptions = [
        "IEEE rounding inside numpy/scipy is not modelled: off-grid histories are compared at 1e-9 (relative to magnitude)",
        "scipy Rotation: the 3x3 block is read from the very call the code makes and handed to the model as exact rationals",
        "scipy.linalg.inv is modelled by the exact inverse (adjugate/determinant)",
        "pivots and normals are given with three finite coordinates; arguments are finite",
    ]
    R.trusted = [
        "Lean 4.33 kernel; axioms propext, Classical.choice, Quot.sound only (audited per theorem)",
        "hand-written Lean model (Model/Transform.lean) tied to /repo by this run's differential check",
        "Python harness: generators, Session adapter (real objects, real `with`+raise), canonicalisation, numpy reference machine",
    ]
    run_batch(R, CORPUS, "corpus")
    cases = [gen_case(R.rng) for _ in range(R.n(1000, 10000))]
    run_all(R, cases, "random", 250)
    run_batch(R, STRONG_CORPUS, "strong-corpus")
    run_all(R, [gen_strong_case(R.rng) for _ in range(R.n(200, 2000))], "strong", 250)
    R.extra["strong_margins"] = {
        "what": "worst |error| / first-order rounding bound seen in the strong family (tolerance = K x bound)",
        "worst_ratio": {k: round(v, 3) for k, v in WORST.items()},
        "K": {"rt": K_RT, "ap": K_AP, "rv": K_RV, "pivot": K_PV}}
    for k in WORST:
        WORST[k] = 0.0
    run_batch(R, NEAR_CORPUS, "near-corpus")
    run_all(R, [gen_near_case(R.rng) for _ in range(R.n(150, 1500))], "near", 250)
    R.extra["near_margins"] = {
        "what": "worst |error| / first-order rounding bound seen in the near family (same K; `same` = a named state "
                "against its own images at the time it was saved)",
        "worst_ratio": {k: round(v, 3) for k, v in WORST.items()}}
    run_batch(R, DEFERRED_CORPUS, "deferred-corpus")
    run_all(R, [gen_deferred_case(R.rng) for _ in range(R.n(160, 1600))], "deferred", 250)
    run_batch(R, INTS_CORPUS, "ints-corpus")
    run_all(R, gen_ints_cases(R.rng, R.n(60, 600)), "ints", 250)
    if R.thorough:
        ex = list(exhaustive_cases(5))
        run_all(R, ex, "exhaustive<=5", 4000)
        R.exhaustive = False
        R.extra["exhaustive_subrun"] = {
            "cases": len(ex), "exhaustive": True,
            "scope": "all call sequences of length <= 5 over 10 calls (translate, scale 2, exact 90-degree block, set_pivot, "
                     "save, restore, save a, restore a, enter named_transform(a), leave by exception), then restore a, restore"}
    if R.broken:
        R.search_batches += 1
        run_all(R, [gen_case(R.rng) for _ in range(R.n(1500, 6000))], "search", 500, oracle_only=True)
        run_all(R, [gen_strong_case(R.rng) for _ in range(R.n(300, 1500))], "strong-search", 500, oracle_only=True)
        run_all(R, [gen_near_case(R.rng) for _ in range(R.n(200, 1500))], "near-search", 500, oracle_only=True)
        run_all(R, [gen_deferred_case(R.rng) for _ in range(R.n(300, 1500))], "deferred-search", 500, oracle_only=True)
        run_all(R, gen_ints_cases(R.rng, R.n(150, 750)), "ints-search", 500, oracle_only=True)
    return {}, {}


def replay(data):
    core.use_repo()
    fl = data.get("failure") or data.get("first", {})
    cj = fl.get("case")
    if not cj:
        print("replay: no case recorded (", data.get("no_longer_checks"), ")")
        return 1
    case = from_json(cj)
    sess = (RTSession if is_strong(case) else Session13)(probes=case["probes"])
    tr = sess.execute(case["ops"])
    told = [e for e in tr if e["line"] is not None]
    lines = ["probes " + " ".join(X.qv(p) for p in case["probes"])] + [e["line"] for e in told]
    out = core.run_model(X.MODE, lines)[1:]
    if is_strong(case):
        msg, tag = oracle_strong(case, tr)
    else:
        msg, tag = oracle(case, tr)
        msg = msg or roundtrip_oracle(sess, case["probes"])
    d = compare(case, told, out)
    for e, m in zip(told, out):
        print("call :", e["line"][:100])
        print(" impl:", X.impl_record(e, 5)[:300])
        print(" model:", X.model_record_rounded(m, 5)[:300])
    print("correspondence:", "agree" if not d else f"differ at step {d[0]}")
    print("oracle:", msg or "ok")
    return 1 if (msg or d) else 0

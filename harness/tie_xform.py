"""Validation of the translator `tools/gen_xform.py` (and of the prelude `Model/XformPrelude.lean` behind it): the
*generated* Lean functions (driver mode `xform`, built from the committed `Gen/XformSrc.lean`) and the real
`gscrib.geometry.transformer.CoordinateTransformer` / `gscrib.geometry.transform.Transform` objects are driven with the
same random sequences of direct method calls and compared after every call: exception class, returned point, and every
slot of every `Transform` object reachable from the transformer (current, each stack entry in order, each named entry in
dict order) - matrix, inverse, pivot, the two pivot matrices.

The sequences are chosen to make aliasing visible: a state is saved (stack or name), the current transform is then
changed in place (`translate`, `scale`, `chain_transform`, `set_pivot`), and the saved objects are compared again after
every later call; a named state is restored several times with changes in between; `_copy_state` frames are reverted
(each exactly once, as `gcode_core` does) after the stack and the current transform have moved on.  The generated
functions are pure values, so any sharing in the real objects shows up as a difference.

The transform context managers of `gscrib/gcode_core.py` (`GCodeCore.current_transform` / `named_transform`, translated as
enter / exit pairs) are driven on a real `GCodeCore` whose `transform` *is* the transformer under test: `enter` is
`__enter__` of `g.current_transform()` / `g.named_transform(name)` (known, unknown and blank names), followed by the same
random transformer calls as above (saves, restores that empty the stack, names saved / deleted inside the block), `leave`
is `__exit__` of the innermost open block - with `(None, None, None)` or with a live exception raised for the purpose, as
the `with` statement calls it (the exception must not be swallowed) - blocks are nested up to three deep, both kinds
mixed, and every block still open at the end of a case is left.  After every call the whole transformer is compared, so
what a block puts back (current transform, unnamed stack) and what it does not (named states) are both checked.

Numbers are small dyadic rationals; the model computes exactly, numpy in doubles (LAPACK inverse): numeric fields are
compared within 1e-9 relative to the largest entry of the matrix, everything else literally.  (See `tie_state.py` for
the role of this run: it only runs when the tree under test translates to the committed `Gen/XformSrc.lean`.)"""
from __future__ import annotations

import os
from fractions import Fraction as F

from . import core
from . import xf_common as X

MODE = "xform"
TOL = 1e-9
NAMES = [None, None, None, "", "  ", "a", " a", "a ", "b", "\tb\n", "c"]
# `str.strip()` also removes \x1c-\x1f, \x85, \xa0 and the other Unicode white space; the model's `pyStrip` (a named primitive
# of the translation) knows space, \t, \n, \r, \x0b, \x0c only.  Names with the other characters are outside the model's stated
# domain; VERIF_XFORM_WIDE_WS=1 adds them to the pool and shows the difference (see /tmp/work/xform/REPORT.md).
if os.environ.get("VERIF_XFORM_WIDE_WS") == "1":
    NAMES = NAMES + ["\x1c", "\x1ca", "a\xa0", "\u2003"]


def q(x) -> str:
    v = F(x)
    return str(v.numerator) if v.denominator == 1 else f"{v.numerator}/{v.denominator}"


def qv(v) -> str:
    return ";".join("-" if c is None else q(c) for c in v)


def hexname(name) -> str:
    return "-" if name is None else "h" + name.encode("utf-8").hex()


def coord(rng):
    return F(rng.randint(-64, 64), rng.choice([1, 2, 8]))


def gen_matrix(rng):
    """an affine 4x4 matrix with a well-conditioned 3x3 block (exact small dyadics)"""
    while True:
        b = [[F(rng.randint(-4, 4), rng.choice([1, 2])) for _ in range(3)] for _ in range(3)]
        det = (b[0][0] * (b[1][1] * b[2][2] - b[1][2] * b[2][1]) - b[0][1] * (b[1][0] * b[2][2] - b[1][2] * b[2][0])
               + b[0][2] * (b[1][0] * b[2][1] - b[1][1] * b[2][0]))
        if F(1, 4) <= abs(det) <= 8:
            break
    t = [coord(rng) for _ in range(3)]
    return [b[0] + [t[0]], b[1] + [t[1]], b[2] + [t[2]], [F(0), F(0), F(0), F(1)]]


def gen_case(rng):
    """a sequence of direct calls; names and stack depth are tracked so that most restores / deletes find something"""
    ops = []
    frames, depth, saved = 0, 0, []
    blocks = []                      # the unnamed-stack depth on entry of every open `with` block (innermost last)
    p_ctx = rng.choice([0.0, 0.0, 0.15, 0.3])

    def a_name(known):
        if known and saved and rng.random() < 0.8:
            n = rng.choice(saved)
            return rng.choice([n, n, " " + n, n + "\t"])
        return rng.choice(NAMES)

    for _ in range(rng.choice([4, 8, 12, 16])):
        if rng.random() < p_ctx:
            if blocks and (len(blocks) >= 3 or rng.random() < 0.45):
                ops.append(("leave", rng.random() < 0.4))
                depth = blocks.pop()
            elif rng.random() < 0.5:
                ops.append(("enter", None))
                blocks.append(depth)
            else:
                n = a_name(True)
                while n is None:
                    n = rng.choice(NAMES)
                ops.append(("enter", n))
                if n.strip():
                    if n.strip() in saved:
                        blocks.append(depth)
                elif depth:                 # a blank name pops the unnamed stack (after the frame was copied)
                    blocks.append(depth)
                    depth -= 1
            continue
        r = rng.random()
        if r < 0.12:
            ops.append(("translate", [coord(rng) for _ in range(3)]))
        elif r < 0.24:
            k = rng.choice([0, 1, 1, 1, 2, 2, 3, 3, 4])
            fs = [rng.choice([F(2), F(1, 2), F(-1), F(3), F(1, 4), F(3, 2), F(-2)]) for _ in range(k)]
            if fs and rng.random() < 0.12:
                fs[rng.randrange(len(fs))] = F(0)
            ops.append(("scale", fs))
        elif r < 0.30:
            ops.append(("chain", None if rng.random() < 0.1 else gen_matrix(rng)))
        elif r < 0.32:
            ops.append(("rotate", rng.choice([90.0, 45.0, 30.0, -120.0, 0.0, 17.5]), rng.choice(["x", "y", "z", "z", "w", "", "X"])))
        elif r < 0.34:
            n = [F(0)] * 3 if rng.random() < 0.15 else [F(rng.randint(-8, 8), rng.choice([1, 2])) for _ in range(3)]
            ops.append(("reflect", n))
        elif r < 0.36:
            ops.append(("mirror", rng.choice(["xy", "yz", "zx", "zx", "ab", "XY", ""])))
        elif r < 0.46:
            ops.append(("pivot", [coord(rng) for _ in range(3)]))
        elif r < 0.60:
            n = a_name(False)
            ops.append(("save", n))
            if n is not None and n.strip():
                saved.append(n.strip())
            else:
                depth += 1
        elif r < 0.74:
            if not depth and not saved and rng.random() < 0.75:      # nothing to restore: save something instead
                n = rng.choice([None, "a", " b "])
                ops.append(("save", n))
                depth, saved = depth + (n is None), saved + ([n.strip()] if n else [])
                continue
            if saved and (not depth or rng.random() < 0.5):
                n = a_name(True)
            else:
                n = rng.choice([None, None, None, "", " "]) if (depth or rng.random() < 0.3) else a_name(True)
            ops.append(("restore", n))
            if not (n is not None and n.strip()):
                depth = max(0, depth - 1)
        elif r < 0.79:
            n = rng.choice(saved) if saved and rng.random() < 0.7 else rng.choice([x for x in NAMES if x is not None])
            ops.append(("delete", n))
            saved = [x for x in saved if x != n]
        elif r < 0.86:
            ops.append((rng.choice(["apply", "reverse"]), [None if rng.random() < 0.2 else coord(rng) for _ in range(3)]))
        elif r < 0.92:
            ops.append(("copy",))
            frames += 1
        elif r < 0.97:
            if frames:
                ops.append(("revert",))
                frames -= 1
        elif r < 0.985:
            if blocks:                   # the open blocks belong to the builder at hand
                continue
            ops.append(("new",))
            depth, saved = 0, []
        else:
            ops.append(("tnew", None if rng.random() < 0.2 else gen_matrix(rng), [coord(rng) for _ in range(3)]))
    while blocks:
        ops.append(("leave", rng.random() < 0.4))
        blocks.pop()
    return ops


def probes():
    """fixed call sequences in which a missing copy (on save, on restore by name, in `_copy_state`) changes a saved object"""
    t1, t2, s2 = ("translate", [F(1), F(2), F(3)]), ("translate", [F(-5), F(1, 2), F(7)]), ("scale", [F(2)])
    pv = ("pivot", [F(1), F(-1), F(4)])
    return [
        [("save", None), t1, pv, ("restore", None), s2],                                  # pushed object vs current
        [t1, ("save", "a"), t2, pv, ("restore", " a"), s2, ("restore", "a "), t1, ("restore", "a")],   # named object vs current
        [t1, ("copy",), t2, pv, ("revert",), s2],                                         # frame vs current
        [("save", None), ("copy",), ("restore", None), t1, pv, ("revert",), ("restore", None)],   # frame's list vs popped object
        [t1, ("save", None), t2, ("save", None), ("copy",), ("restore", None), s2, ("restore", None), pv, ("revert",),
         ("restore", None), ("restore", None), ("restore", None)],
        [("save", "a"), ("copy",), ("restore", "a"), t1, ("save", "a"), ("revert",), ("restore", "a"), ("delete", "a "), ("delete", "a")],
        # with current_transform(): the body's changes, pushes and pops are undone, a name saved inside stays
        [t1, ("save", None), ("enter", None), s2, pv, ("save", None), ("save", "in"), ("restore", None), ("restore", None), ("restore", None),
         ("leave", False), ("restore", "in"), ("restore", None), ("restore", None)],
        # with named_transform("a"): the frame is the state *before* the named one is installed; the user's own save_state() /
        # restore_state() around and inside the block keep their slots (the unnamed stack is not the block's scratch space)
        [t1, ("save", "a"), t2, ("save", None), s2, ("enter", " a"), ("apply", [F(1), None, F(1)]), pv, ("save", None), t1, ("leave", True),
         ("apply", [F(1), None, F(1)]), ("restore", None), ("restore", None)],
        # nesting, both kinds; leaving by an exception; unknown / blank names do not enter a block
        [t1, ("save", "a"), t2, ("save", "b"), ("enter", "a"), s2, ("enter", "b"), pv, ("enter", None), ("delete", "a"), ("enter", "a"),
         ("enter", "zz"), ("enter", "  "), ("save", None), ("enter", "\t"), t1, ("leave", True), ("leave", False), ("leave", True), ("leave", False),
         ("restore", "b"), ("restore", None)],
    ]


def line(op, block=None) -> str:
    k = op[0]
    if k == "rotate":
        b = [[1, 0, 0], [0, 1, 0], [0, 0, 1]] if block is None else block
        return " ".join(x for x in ["rotate", q(F(op[1])), op[2], qv([F(float(b[i][j])) for i in range(3) for j in range(3)])] if x)
    if k == "reflect":
        return "reflect " + qv(op[1])
    if k == "mirror":
        return "mirror" + (" " + op[1] if op[1] else "")
    if k in ("translate", "pivot", "apply", "reverse"):
        return f"{k} {qv(op[1])}"
    if k == "scale":
        return "scale" + ((" " + qv(op[1])) if op[1] else "")
    if k == "chain":
        return "chain " + ("other" if op[1] is None else qv([c for row in op[1] for c in row]))
    if k in ("save", "restore", "delete"):
        return f"{k} {hexname(op[1])}"
    if k == "enter":
        return "enter" if op[1] is None else f"enter {hexname(op[1])}"
    if k == "leave":
        return "leave"
    if k == "tnew":
        return "tnew " + ("other" if op[1] is None else qv([c for row in op[1] for c in row])) + " " + qv(op[2])
    return k


# ------------------------------------------------------------------ the real objects
def dump_obj(t):
    """slots of a real Transform as lists of floats"""
    return [[float(c) for c in t._matrix.flatten()], [float(c) for c in t._inverse.flatten()], [float(c) for c in t._pivot],
            [float(c) for c in t._from_pivot.flatten()], [float(c) for c in t._to_pivot.flatten()]]


def dump(tr):
    return {"cur": dump_obj(tr._current_transform), "stack": [dump_obj(t) for t in tr._transforms_stack],
            "named": [(k, dump_obj(t)) for k, t in tr._named_transforms.items()]}


class BodyError(Exception):
    """raised inside a `with` block by the harness (a block left by an exception)"""


class Impl:
    """`self.tr` is the transformer of a real `GCodeCore` (`g.transform`), so that the same object can be driven directly and
    through `g.current_transform()` / `g.named_transform(name)`"""

    def __init__(self):
        from gscrib.geometry.transformer import CoordinateTransformer

        X.install_rotation_tap()
        self.cls = CoordinateTransformer
        self.frames = []
        self.open = []               # context manager objects of the `with` blocks that are open, innermost last
        self.renew()

    def renew(self):
        from gscrib.gcode_core import GCodeCore

        if self.open:
            raise core.Infra("`new` inside a with block")
        self.g = GCodeCore(output=None, print_lines=False)
        self.tr = self.g.transform
        if type(self.tr) is not self.cls or self.g.transform is not self.tr:
            raise core.Infra("GCodeCore.transform is not a CoordinateTransformer of its own")

    def call(self, op):
        """-> (outcome, value); for `rotate`, self.block is the matrix scipy returned to the transformer"""
        import numpy as np
        from gscrib.geometry import Point
        from gscrib.geometry.transform import Transform

        fl = lambda v: [None if c is None else float(c) for c in v]
        arr = lambda m: np.eye(3) if m is None else np.array([[float(c) for c in row] for row in m])
        k, value = op[0], None
        self.block = X._ROT["last"] = None
        try:
            if k == "new":
                self.renew()
            elif k == "enter":
                cm = self.g.current_transform() if op[1] is None else self.g.named_transform(op[1])
                got = cm.__enter__()             # raises: no block entered
                self.open.append(cm)
                if got is not self.tr or self.g.transform is not self.tr:
                    return "yielded-another-object", None
            elif k == "leave":
                cm = self.open.pop()
                if op[1]:
                    try:
                        raise BodyError()
                    except BodyError as e:       # what the `with` statement does with an exception of its body
                        if cm.__exit__(type(e), e, e.__traceback__):
                            return "swallowed", None
                elif cm.__exit__(None, None, None):
                    return "swallowed", None
                if self.g.transform is not self.tr:
                    return "transformer-replaced", None
            elif k == "translate":
                self.tr.translate(*fl(op[1]))
            elif k == "scale":
                self.tr.scale(*fl(op[1]))
            elif k == "chain":
                self.tr.chain_transform(arr(op[1]))
            elif k == "rotate":
                try:
                    self.tr.rotate(op[1], op[2])
                finally:
                    self.block = X._ROT["last"]
            elif k == "reflect":
                self.tr.reflect(fl(op[1]))
            elif k == "mirror":
                self.tr.mirror(op[1])
            elif k == "pivot":
                self.tr.set_pivot(fl(op[1]))
            elif k == "save":
                self.tr.save_state(op[1])
            elif k == "restore":
                self.tr.restore_state(op[1])
            elif k == "delete":
                self.tr.delete_state(op[1])
            elif k == "apply":
                value = [float(c) for c in self.tr.apply_transform(fl(op[1]))]
            elif k == "reverse":
                value = [float(c) for c in self.tr.reverse_transform(fl(op[1]))]
            elif k == "copy":
                self.frames.append(self.tr._copy_state())
            elif k == "revert":
                self.tr._revert_state(self.frames.pop())
            elif k == "tnew":
                value = dump_obj(Transform(arr(op[1]), Point(*fl(op[2]))))
            else:
                raise core.Infra(f"unknown op {op!r}")
        except (ValueError, IndexError, KeyError) as e:
            return type(e).__name__, None
        return "ok", value


# ------------------------------------------------------------------ comparison
def parse_obj(s):
    """`matrix_inverse_pivot_from_to` -> five lists of Fractions"""
    fields = [[F(c) for c in f.split(";")] for f in s.split("_")]
    if [len(f) for f in fields] != [16, 16, 3, 16, 16]:
        raise core.Infra(f"malformed object {s!r}")
    return fields


def parse_record(rec):
    parts = rec.split(" | ")
    if len(parts) != 5:
        raise core.Infra(f"malformed record {rec!r}")
    st = parts[3][len("stack="):]
    nm = parts[4][len("named="):]
    return {"outcome": parts[0], "value": parts[1], "cur": parse_obj(parts[2][len("cur="):]),
            "stack": [parse_obj(o) for o in st.split(",")] if st else [],
            "named": [(x.split(":", 1)[0], parse_obj(x.split(":", 1)[1])) for x in nm.split(",")] if nm else []}


def close(model, impl) -> bool:
    """a list of exact model numbers against the floats of the implementation"""
    if len(model) != len(impl):
        return False
    scale = max([1.0] + [abs(float(m)) for m in model] + [abs(x) for x in impl])
    return all(x == x and abs(float(m) - x) <= TOL * scale for m, x in zip(model, impl))


def same_obj(model, impl) -> bool:
    return all(close(m, i) for m, i in zip(model, impl))


def differs(rec, outcome, value, state, op):
    """-> None, or what differs"""
    if rec["outcome"] != outcome:
        return "outcome"
    if op[0] in ("apply", "reverse") and outcome == "ok":
        if not close([F(c) for c in rec["value"].split(";")], value):
            return "value"
    if op[0] == "tnew" and outcome == "ok":
        if not same_obj(parse_obj(rec["value"]), value):
            return "constructed object"
    if not same_obj(rec["cur"], state["cur"]):
        return "current transform"
    if len(rec["stack"]) != len(state["stack"]) or not all(same_obj(m, i) for m, i in zip(rec["stack"], state["stack"])):
        return "stack"
    if [k for k, _ in rec["named"]] != [hexname(k) for k, _ in state["named"]]:
        return "names"
    if not all(same_obj(m[1], i[1]) for m, i in zip(rec["named"], state["named"])):
        return "named states"
    return None


def validate(rng, cases: int) -> dict:
    core.use_repo()
    lines, expect, starts = [], [], []
    outcomes: dict = {}
    fixed = probes()
    for c in range(cases):
        ops = fixed[c] if c < len(fixed) else gen_case(rng)
        impl = Impl()
        starts.append(len(lines))
        lines.append("reset")
        expect.append(None)
        queue = list(ops)
        while queue or impl.open:
            # the generator's bookkeeping of open blocks is approximate (`revert` changes the stack depth behind its back):
            # the real object decides whether there is a block to leave, and every block still open at the end is left
            op = queue.pop(0) if queue else ("leave", False)
            if (op[0] == "leave" and not impl.open) or (op[0] == "new" and impl.open):
                continue
            outcome, value = impl.call(op)
            key = f"{op[0]}{'-raised' if op[0] == 'leave' and op[1] else ''}:{outcome}"
            outcomes[key] = outcomes.get(key, 0) + 1
            lines.append(line(op, impl.block))
            expect.append((op, outcome, value, dump(impl.tr)))
    got = core.run_model(MODE, lines)
    calls = sum(1 for e in expect if e is not None)
    for i, (ln, e, g) in enumerate(zip(lines, expect, got)):
        if e is None:
            continue
        op, outcome, value, state = e
        what = differs(parse_record(g), outcome, value, state, op)
        if what:
            start = max(s for s in starts if s <= i)
            return {"cases": cases, "calls": calls, "outcomes": outcomes,
                    "disagreement": {"ops": lines[start + 1:i + 1], "step": i - start - 1,
                                     "impl": f"{what}: {outcome} {value} {state}", "model": g}}
    return {"cases": cases, "calls": calls, "outcomes": outcomes, "disagreement": None}

"""Validation of the translator `tools/gen_hook.py`: the *generated* Lean functions (driver mode `hook`, built from the
committed `Gen/HookSrc.lean`) against the real `gscrib.hooks.extrusion_hook`: the real factory is called with random
geometry, the hook it returns with real `Point`s, a real `ParamsDict` and a real `GState` (extrusion mode and remembered
parameters set through its own setters); the generated functions get the same numbers as exact rationals, `math.pi` as
the rational it is, and `math.hypot(dx, dy)` as a value - on Pythagorean moves (where it is exact) the driver answers it
only for the arguments `dx, dy` the real call computed it from, so the wiring of `target - origin`, `.x`, `.y` is checked.
Every returned parameter is compared: names and order literally, untouched values exactly, `E` within 1e-12 relative
(the hook's own float rounding is not modelled) (see `tie_state.py` for the role of this run)."""
from __future__ import annotations

import math
from fractions import Fraction

from . import core

REL_TOL = Fraction(1, 10 ** 12)


def show(q) -> str:
    q = Fraction(q)
    return str(q.numerator) if q.denominator == 1 else f"{q.numerator}/{q.denominator}"


def show_val(v) -> str:
    if isinstance(v, float) and math.isnan(v):
        return "nan"
    if isinstance(v, float) and math.isinf(v):
        return "inf" if v > 0 else "-inf"
    return show(Fraction(v))


TRIPLES = [(3, 4, 5), (5, 12, 13), (8, 15, 17), (4, 3, 5), (0, 7, 7), (6, 0, 6), (0, 0, 0), (-3, 4, 5), (12, -5, 13), (-8, -15, 17)]


def close(a: Fraction, b: Fraction) -> bool:
    return abs(a - b) <= REL_TOL * max(1, abs(a), abs(b))


def validate(rng, cases: int) -> dict:
    core.use_repo()
    from gscrib.enums import ExtrusionMode
    from gscrib.gcode_state import GState
    from gscrib.geometry import Point
    from gscrib.hooks import extrusion_hook
    from gscrib.params import ParamsDict

    lines, impl = [], []
    outcomes: dict = {}

    def count(k):
        outcomes[k] = outcomes.get(k, 0) + 1

    for _ in range(cases):
        layer = rng.choice([0.1, 0.2, 0.25, 0.3, 0.5])
        nozzle = rng.choice([0.4, 0.5, 0.6, 0.8])
        fil = 0.0 if rng.random() < 0.03 else rng.choice([1.75, 2.85, 3.0, 2.0, 4.0])
        o = [float(Fraction(rng.randint(-320, 320), 32)) for _ in range(3)]
        if rng.random() < 0.7:
            dx, dy, h0 = rng.choice(TRIPLES)
            s = rng.choice([1, 2, 0.5, 0.25, 8])
            t = [o[0] + dx * s, o[1] + dy * s, o[2] + rng.choice([0, 0, 1, -2.5])]
        else:
            t = [float(Fraction(rng.randint(-320, 320), 32)) for _ in range(3)]
        h = math.hypot(t[0] - o[0], t[1] - o[1])
        exact = Fraction(h) ** 2 == (Fraction(t[0]) - Fraction(o[0])) ** 2 + (Fraction(t[1]) - Fraction(o[1])) ** 2
        rel = rng.random() < 0.4
        # what the state remembers
        sp = {}
        r = rng.random()
        if r < 0.5:
            sp["E"] = float(Fraction(rng.randint(0, 6400), 32))
        elif r < 0.6:
            sp["E"] = rng.choice([0.0, 0, -1.5])
        elif r < 0.7:
            sp["E"] = None
        if rng.random() < 0.5:
            sp["F"] = 600.0
        if rng.random() < 0.2:
            sp["X"] = None
        # what the hook is given
        ps = {}
        for k in rng.sample(["F", "E", "S", "A", "e"], rng.randint(0, 3)):
            ps[k] = rng.choice([600.0, 1.0, 0.0, float("nan"), float("inf"), 1200, 37.5])
        state = GState()
        state._set_extrusion_mode(ExtrusionMode.RELATIVE if rel else ExtrusionMode.ABSOLUTE)
        state._set_params(ParamsDict(sp))
        params = ParamsDict(ps)
        line = (f"hook {show(Fraction(math.pi))} {show(Fraction(layer))} {show(Fraction(nozzle))} {show(Fraction(fil))} "
                f"{';'.join(show(Fraction(c)) for c in o)} {';'.join(show(Fraction(c)) for c in t)} {'rel' if rel else 'abs'} "
                f"{show(Fraction(h))} {'1' if exact else '0'}")
        line += "".join(f" P:{k}:{show_val(v)}" for k, v in params.items())
        line += "".join(f" S:{k}:{'~' if v is None else show(Fraction(v))}" for k, v in state._current_params.items())
        try:
            hook = extrusion_hook(layer, nozzle, fil)
            out = hook(Point(*o), Point(*t), params, state)
            rec = [(k, v) for k, v in out.items()]
            count(("rel" if rel else "abs") + (":exact-hypot" if exact else ":rounded-hypot") + (":E-remembered" if sp.get("E") else ":E-unset-or-0"))
        except ZeroDivisionError:
            rec = "zerodiv"
            count("zerodiv")
        lines.append(line)
        impl.append(rec)
    got = core.run_model("hook", lines)
    for ln, w, g in zip(lines, impl, got):
        ok = True
        if w == "zerodiv" or g == "zerodiv":
            ok = (w == g)
        else:
            gs = [x.split(":", 1) for x in g.split(" ")]
            ok = [k for k, _ in w] == [k for k, _ in gs]
            if ok:
                for (k, v), (_, gv) in zip(w, gs):
                    if k == "E":
                        ok = ok and gv not in ("nan", "inf", "-inf") and math.isfinite(v) and close(Fraction(v), Fraction(gv))
                    else:
                        ok = ok and show_val(v) == gv
        if not ok:
            wtxt = w if w == "zerodiv" else " ".join(f"{k}:{show_val(v)}" for k, v in w)
            return {"cases": cases, "calls": len(lines), "outcomes": dict(sorted(outcomes.items())),
                    "disagreement": {"ops": [ln], "step": 0, "impl": wtxt, "model": g}}
    return {"cases": cases, "calls": len(lines), "outcomes": dict(sorted(outcomes.items())), "disagreement": None}

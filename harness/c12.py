"""C12 - interpolation honours the configured resolution.

Model: `filterGo`/`filterMask`/`segs`/`numSegments`/`convertResolution` of lean/GscribModel/Model/Tracer.lean
(driver mode `tracer`); theorems: Props/C12.lean.
Implementation: real `GCodeBuilder`, every request traced at `res` and again at `res/2`; both unit systems, with and
without a unit switch after `set_resolution` (the resolution the oracle uses is `g.state.resolution` at trace time).

Correspondence: stage 2 of tracer_common.Stage (recorded samples -> model filter -> emitted words, exact) plus the
sample grid (`num_segments`, thetas) and the resolution conversion of `set_length_units` (bit-exact).
Oracle (independent of the model): measured segment lengths of the reconstructed vertices.
Configuration dimension: an isometry installed on the builder's transformer before the program starts (tracer_common.gen_iso);
the property is about emitted segment lengths, which an isometry leaves unchanged.
"""
from __future__ import annotations

import math

import numpy as np

from . import core
from . import tracer_common as tc

PROP = "C12"
TWO_PI = tc.TWO_PI


def const_speed(case) -> tuple[bool, float, float, tuple | None]:
    """(is constant-speed, radius, analytic path length, centre) for arcs, circles, constant-radius helices"""
    shape = case["shape"]
    s = case["start"]
    if shape not in ("arc", "arc_radius", "circle", "helix", "thread"):
        return False, 0.0, 0.0, None
    t = tc.spec_target(case)
    dz = t[2] - s[2]
    if shape == "arc_radius":
        d = math.hypot(t[0] - s[0], t[1] - s[1])
        r = max(abs(case["radius"]), d / 2)
        half = math.asin(min(1.0, d / (2 * r)))
        sweep = 2 * half if case["radius"] > 0 else TWO_PI - 2 * half
        return True, r, math.hypot(r * sweep, dz), None
    c = tc.spec_centre(case)
    r0 = math.hypot(s[0] - c[0], s[1] - c[1])
    r1 = math.hypot(t[0] - c[0], t[1] - c[1])
    if abs(r0 - r1) > 1e-9 * max(1.0, r0):
        return False, 0.0, 0.0, None
    if r0 == 0:
        return False, 0.0, 0.0, None
    if shape == "circle":
        sweep = TWO_PI
    elif shape == "thread":
        sweep = math.pi + TWO_PI * (max(1, int(abs(dz) / case["pitch"])) - 1)
    else:
        a_o = math.atan2(s[1] - c[1], s[0] - c[0])
        a_t = math.atan2(t[1] - c[1], t[0] - c[0])
        sweep = tc.directed_sweep(a_o, a_t, case["cw"])
        if sweep < 1e-6 or sweep > TWO_PI - 1e-6:
            return False, 0.0, 0.0, None
        if shape == "helix":
            sweep += TWO_PI * (case["turns"] - 1)
    return True, r0, math.hypot(r0 * sweep, dz), c


def oracle(case: dict, impl: dict, half: dict | None) -> list[tuple[str, str]]:
    out: list[tuple[str, str]] = []
    if case.get("invalid") or impl["outcome"] != "ok" or case["shape"] == "polyline":
        return out
    V = tc.verts_array(impl)
    n = len(V) - 1
    if n < 1:
        return out
    res = impl["res_eff"]
    sc = max(1.0, float(np.abs(V).max()))
    tseg = 2 * 10.0 ** (-case["dp"]) + 1e-9 * sc
    seg = tc.seg_lengths(V)
    if half is not None and half["outcome"] == "ok":
        nh = len(half["verts"]) - 1
        if nh < n:
            out.append(("halving", f"{n} segments at resolution {res:.6g} but only {nh} at {half['res_eff']:.6g}"))
    cs, r, L, c = const_speed(case)
    if not cs:
        return out
    if float(seg.max()) > 1.05 * res + tseg:
        out.append(("too-long", f"segment {int(seg.argmax())} is {float(seg.max()):.6g} long, resolution {res:.6g} (ratio {float(seg.max()) / res:.3f})"))
    fine = r >= 1.2 * res  # otherwise the chord is noticeably shorter than the arc it spans
    if fine and n >= 4:
        k = 1 + int(seg[1:-1].argmin())
        if float(seg[k]) < 0.85 * res - tseg:
            out.append(("too-short", f"interior segment {k} is {float(seg[k]):.6g} long, resolution {res:.6g} (ratio {float(seg[k]) / res:.3f})"))
    if fine:
        hi = L / (0.9 * res - tseg) + 2 if 0.9 * res > 2 * tseg else math.inf
        lo = L / (1.1 * res + tseg) - 1
        if not (lo <= n <= hi):
            out.append(("count", f"{n} segments for a path of length {L:.6g} at resolution {res:.6g}: expected between {lo:.1f} and {hi:.1f}"))
    if case.get("iso"):
        # the lengths above were measured on the emitted coordinates as they are (an isometry keeps every length);
        # the chord error is a distance to the requested circle, which lives in work coordinates: bring the emitted
        # vertices back with the harness's own matrix of the configured operations (orthogonal linear part)
        M = tc.iso_matrix(case["iso"])
        V = (V - M[:3, 3]) @ M[:3, :3]
    if c is None and case["shape"] == "arc_radius":
        from .c10 import _arc_radius_centre

        c, r = _arc_radius_centre(case, V)
    if c is not None and res <= 2 * r:
        tp = tc.tol_pos(case, n, sc)
        mid = (V[:-1, :2] + V[1:, :2]) / 2
        sag = r - np.hypot(mid[:, 0] - c[0], mid[:, 1] - c[1])
        bound = (1.05 * res) ** 2 / (8 * r) + 2 * tp
        if float(sag.max()) > bound:
            out.append(("sagitta", f"segment {int(sag.argmax())} deviates {float(sag.max()):.6g} from the arc; bound implied by the resolution {bound:.6g}"))
    return out


class Stage(tc.Stage):
    """tracer_common.Stage; for a request traced under an isometry the model (which has no transformer) receives the
    recorded samples - work coordinates, what the tracer itself filtered - and its moves are compared with the emitted
    words after the harness's own matrix of the configured operations: same number of moves (the filter's decisions)
    and every word within half a unit of the last printed decimal."""

    def _cmp_filter(self, case, impl, rec, stride):
        if not case.get("iso"):
            return super()._cmp_filter(case, impl, rec, stride)
        R = self.R
        cr = tc.case_repr(case)
        f = tc.fields(rec)
        if tc.unbits(f["margin"]) < 1e-9 * impl["res_eff"]:
            R.count("skip:filter-decision-margin")
            return
        mw = tc.parse_q3_list(f.get("words", ""))
        iw = impl["words"]
        name = "tracer-filter-emit-isometry"
        if impl["outcome"] != "ok":
            R.disagree("tracer-outcome", cr, impl["outcome"], "ok")
            return
        if len(mw) != len(iw):
            R.disagree(name, cr, f"{len(iw)} moves", f"{len(mw)} moves")
            return
        if any(set(w) != {"X", "Y", "Z"} for w in iw):
            k = next(i for i, w in enumerate(iw) if set(w) != {"X", "Y", "Z"})
            R.disagree(name, cr, f"move {k}: words {sorted(iw[k])}", "X Y Z", step=k)
            return
        M = tc.iso_matrix(case["iso"])
        W = np.array([[float(v) for v in m] for m in mw], dtype=np.float64).reshape(-1, 3)
        want = W @ M[:3, :3].T + (0.0 if case["rel"] else M[:3, 3])  # relative words are differences: linear part only
        got = np.array([[float(w[ax]) for ax in "XYZ"] for w in iw], dtype=np.float64).reshape(-1, 3)
        sc = max(tc.scale_of(case), float(np.abs(M[:3, 3]).max()), float(np.abs(got).max()) if len(got) else 1.0)
        tol = 0.5 * 10.0 ** (-case["dp"]) + 1e-9 * sc
        dev = np.abs(got - want)
        if len(dev) and float(dev.max()) > tol:
            k = int(dev.max(axis=1).argmax())
            R.disagree(name, cr, f"move {k} {got[k].tolist()}", f"{want[k].tolist()} (model move {[float(v) for v in mw[k]]} under the isometry)", step=k)
            return
        R.count("stage2:emit-agree-isometry")


def run_batch(R, cases, label, correspond=True):
    st = Stage(R, PROP)
    for case in cases:
        impl = tc.run_impl(case)
        half = tc.run_impl(case, res_override=case["res"] / 2) if impl["outcome"] == "ok" and case["shape"] != "polyline" and not case.get("nohalf") else None
        nm = len(impl["verts"]) - 1
        cs = const_speed(case)[0] if not case.get("invalid") else False
        R.case(tc.case_repr(case), nontrivial=(impl["outcome"] == "ok" and nm >= 4), validated=correspond)
        ratio = nm  # ~ path length / resolution
        R.count(
            label,
            "shape:" + case["shape"],
            "speed:" + ("constant" if cs else "varying"),
            "units:" + case["units"] + ("+switch" if case.get("switch") else ""),
            "mode:" + ("relative" if case["rel"] else "absolute"),
            "res:1e%d" % math.floor(math.log10(case["res"])),
            "L/res:" + ("<1" if ratio < 1 else "1e%d" % math.floor(math.log10(max(ratio, 1)))),
            "outcome:" + impl["outcome"],
        )
        if case.get("iso"):
            R.count(
                "isometry:" + ("reflecting" if tc.iso_reflecting(case["iso"]) else "proper"),
                "isometry-ops:" + "+".join(sorted({op[0] for op in case["iso"]})),
            )
        for tag, msg in oracle(case, impl, half):
            R.fail(tc.case_repr(case), msg, tag=tag)
        if correspond:
            st.add(case, impl, stage1=(case["shape"] not in tc.CURVED))  # formulas are C10's; grid + filter + units here
            if case["shape"] in tc.CURVED and impl["calls"]:
                call = impl["calls"][0]
                if "thetas" in call:
                    nrec = len(call["thetas"])
                    stride = max(1, -(-nrec // 4000))
                    st.todo.append(("grid", case, impl, len(st.lines), stride))
                    st.lines.append(f"grid len={tc.bits(call['length'])} res={tc.bits(impl['res_eff'])} n={nrec} stride={stride}")
            if half is not None and half["calls"] and R.rng.random() < 0.5:
                # the halved run goes through the filter stage too (its own recorded samples)
                hc = dict(case)
                hc["res"] = case["res"] / 2
                hc["switch"] = False
                st.add(hc, half, stage1=False)
    if correspond:
        st.run()


def gen(R, n, hi, cap):
    shapes = ["arc", "arc_radius", "circle", "helix", "thread", "arc", "circle", "helix", "spiral", "spline", "parametric", "arc_radius"]
    cases = []
    for i in range(n):
        lo = 0.5
        # most requests moderate (the real builder costs ~1 ms per emitted move), a tail over the full range
        r = (lo, hi) if i % (16 if R.thorough else 12) == 0 else (lo, 2.0)
        c = tc.gen_case(R.rng, shapes[i % len(shapes)], ratio=r, max_samples=cap)
        if c is not None and i % 5 == 0 and not c.get("switch"):
            c["warm"] = R.rng.choice([4.0, 8.0, 0.5])   # same request traced before at a coarser / finer resolution
        cases.append(c)
    # a few very fine traces (path / resolution in the thousands): traced once, not re-traced at res/2
    for shape in (["circle"] if not R.thorough else ["circle", "arc", "helix", "arc_radius"] * 3):
        c = tc.gen_case(R.rng, shape, ratio=(3.5, 3.7) if not R.thorough else (3.5, 3.9), max_samples=10**6)
        if c is not None:
            c["nohalf"] = True
            cases.append(c)
    return cases


# configuration: an isometry active on the builder's transformer while the shape is traced (left-hand twin of a part, a part
# laid out at an angle, ...).  Lengths are unchanged by it, so every clause applies to the emitted program as it is.
ISO_CORPUS = [
    {"shape": "arc", "cw": False, "rel": False, "start": [10.0, 0.0, 0.0], "res": 0.25, "units": "mm", "dp": 6, "target": [0.0, 10.0, None], "center": [-10.0, 0.0],
     "iso": [["mirror", "yz"]]},
    {"shape": "circle", "cw": True, "rel": True, "start": [12.5, 4.0, -1.0], "res": 0.05, "units": "in", "dp": 6, "center": [-3.0, 4.0],
     "iso": [["rotate", 30.0, "x"], ["flip", [1.0, -1.0]]]},
    {"shape": "thread", "cw": False, "rel": False, "start": [2.0, -1.0, 0.5], "res": 0.2, "units": "mm", "dp": 5, "target": [-6.0, 5.0, 3.0], "pitch": 1.0,
     "iso": [["pivot", [1.0, 2.0, 0.0]], ["rotate", -90.0, "z"], ["translate", [5.0, 0.0, -2.0]]]},
]


def gen_iso(R, n):
    """requests of every shape (moderate path / resolution: the dimension exercised is the transformer), each under 1-3
    random length-preserving operations (tracer_common.gen_iso), about half of them orientation reversing"""
    shapes = ["arc", "circle", "arc_radius", "helix", "thread", "arc", "spiral", "circle", "spline", "arc_radius", "parametric", "helix"]
    cases = []
    for i in range(n):
        c = tc.gen_case(R.rng, shapes[i % len(shapes)], ratio=(0.5, 1.8), max_samples=1500)
        # `warm_near` positions the tool with move_absolute, which bypasses the transformer by design: under a transform
        # the program would then contain a jump between two frames that is not part of any traced shape
        c.pop("warm_near", None)
        c["iso"] = tc.gen_iso(R.rng)
        cases.append(c)
    return cases


# flat arcs: a short piece of a large circle (a gently curved edge), at the default and at coarser output precisions
FLAT_CORPUS = [
    {"shape": "arc", "cw": True, "rel": False, "start": [0.0, 0.0, 0.0], "res": 0.02, "units": "mm", "dp": 5, "target": [1.2, 0.0, None],
     "center": [0.6, -math.sqrt(80000.0 ** 2 - 0.36)]},
    {"shape": "arc_radius", "cw": False, "rel": True, "start": [4.0, -2.5, 1.0], "res": 0.04, "units": "mm", "dp": 3, "target": [4.0, -1.7, 1.0], "radius": 250.0},
    {"shape": "arc_radius", "cw": True, "rel": False, "start": [-3.0, 6.0, 0.0], "res": 0.1, "units": "in", "dp": 2, "target": [-1.0, 6.0, 0.5], "radius": 120.0},
]


def gen_flat(R, n):
    """Flat arcs (`arc` and `arc_radius`): a gently curved edge, i.e. a short piece of a large circle.  radius = 10^U(2,5), the
    chord chosen so that the sagitta (deviation of the arc from its chord) is 10^U(-8,-3) - from far below to around the last
    written decimal - while the path is 5..300 resolution units long; decimal_places in {2,3,4,5} (only settings at which the
    resolution is still at least five units of the last written decimal, so that the measured lengths mean something).
    However flat, the arc is a constant-speed shape: every clause on segment lengths and on their number applies."""
    rng = R.rng
    cases = []
    while len(cases) < n:
        c = tc._common(rng)
        shape = "arc" if len(cases) % 2 == 0 else "arc_radius"
        rad = 10 ** rng.uniform(2, 5)
        sag = 10 ** rng.uniform(-8, -3)
        d = 2 * math.sqrt(sag * (2 * rad - sag))          # chord of the arc of that radius and sagitta
        sweep = 2 * math.asin(d / (2 * rad))
        if sweep < 4e-6:
            continue
        path = rad * sweep
        dz = 0.0 if rng.random() < 0.6 else rng.choice([-1, 1]) * rng.uniform(0.05, 0.6) * path
        L = math.hypot(path, dz)
        k = 10 ** rng.uniform(math.log10(5), math.log10(300))   # path length / resolution
        res = L / k
        dps = [p for p in (2, 3, 4, 5) if res >= 5 * 10.0 ** (-p)]
        if not dps:
            continue
        c["dp"] = dps[0] if rng.random() < 0.4 else rng.choice(dps)   # the coarsest admissible output precision favoured
        s = c["start"]
        alpha = rng.uniform(0, TWO_PI)  # direction start -> centre
        cen = (rad * math.cos(alpha), rad * math.sin(alpha))
        cx, cy = s[0] + cen[0], s[1] + cen[1]
        rr = math.hypot(cen[0], cen[1])
        a0 = math.atan2(s[1] - cy, s[0] - cx)
        a1 = a0 + (-sweep if c["cw"] else sweep)
        tgt = [cx + rr * math.cos(a1), cy + rr * math.sin(a1), s[2] + dz]
        c.update(shape=shape, res=res, est_samples=10 * k, flat={"sagitta": sag, "ratio": k})
        c["target"] = tgt if (dz != 0.0 or rng.random() < 0.5) else [tgt[0], tgt[1], None]
        if shape == "arc":
            c["center"] = list(cen)
        else:
            c["radius"] = rr
        cases.append(c)
    return cases


def run(R: core.Run):
    R.rule = (
        "tracer requests (arc, arc_radius, circle, helix incl. constant radius, thread, spiral, spline, user parametric) each traced "
        "at res and res/2; res = 10^U(-3,1); path/res = 10^U(0.5, 2.0), every 12th up to 10^2.7 (thorough: every 16th up to 10^4); {mm, in} with and without a unit "
        "switch after set_resolution; both directions and distance modes; plus requests of every shape traced while an isometry is active on "
        "the builder's transformer (1-3 of mirror / reflect / rotate / sign-flipping scale, optional pivot and translation; about half "
        "orientation reversing), path/res = 10^U(0.5, 1.8); plus flat arcs (arc, arc_radius): radius 10^U(2,5), sagitta 10^U(-8,-3), path/res = "
        "5..300 (log-uniform), decimal_places in {2,3,4,5} with resolution >= 5*10^-dp; non-trivial = accepted and >= 4 segments; distinct by hash"
    )
    R.assumptions = [
        "segment lengths are measured on vertices re-read from the emitted G-code (rounded to decimal_places: tolerance 2*10^-dp)",
        "bounds are relative to g.state.resolution at trace time; a unit switch leaves that number unchanged (checked bit-exactly against the model)",
        "the lower bound / count / sagitta clauses are evaluated for radius >= 1.2 resolution (below that the chord is much shorter than its arc)",
        "under an isometry of the transformer the length clauses are evaluated on the emitted coordinates as they are; the chord error after mapping the emitted vertices back with the harness's own matrix of the configured operations; the model (no transformer) receives the recorded work-coordinate samples and its moves are compared after the same matrix (half a unit of the last decimal)",
    ]
    R.trusted = [
        "Lean 4.33 kernel; axioms propext, Classical.choice, Quot.sound only (audited per theorem)",
        "Mathlib modules Analysis.SpecialFunctions.Trigonometric.Basic/Bounds, ...Complex.Arg, Tactic.Linarith/Ring/FieldSimp (proof files only)",
        "hand-written Lean model Model/Tracer.lean (filter proved over Q for any distance list, executed at Float) tied to /repo by this run's correspondence",
        "Python harness: generators, adapter (instance-level wrapper of trace.parametric), G-code interpreter, oracle",
    ]
    from .c10 import CORPUS

    run_batch(R, [dict(c) for c in CORPUS if c["shape"] != "polyline"], "corpus")
    n = R.n(260, 2000)
    cases = gen(R, n, 2.7 if not R.thorough else 4.0, 9000 if not R.thorough else 110000)
    for k in range(0, len(cases), 150):
        run_batch(R, cases[k : k + 150], "random")
    run_batch(R, [dict(c) for c in ISO_CORPUS], "corpus-isometry")
    cases = gen_iso(R, R.n(48, 400))
    for k in range(0, len(cases), 150):
        run_batch(R, cases[k : k + 150], "random-isometry")
    run_batch(R, [dict(c) for c in FLAT_CORPUS], "corpus-flat-arc")
    cases = gen_flat(R, R.n(36, 300))
    for c in cases:
        R.count("flat-arc:dp=%d" % c["dp"], "flat-arc:sagitta/10^-dp:1e%d" % math.floor(math.log10(c["flat"]["sagitta"] * 10 ** c["dp"])))
    for k in range(0, len(cases), 150):
        run_batch(R, cases[k : k + 150], "random-flat-arc")
    if R.broken:
        R.search_batches += 1
        run_batch(R, gen(R, R.n(300, 1500), 2.0, 5000) + gen_iso(R, R.n(40, 200)) + gen_flat(R, R.n(40, 200)), "search", correspond=False)
    return {}, {}


def replay(data):
    core.use_repo()
    fl = data.get("failure") or data.get("first", {})
    case = fl.get("case")
    if not isinstance(case, dict) or "shape" not in case:
        print("replay: no case recorded (", data.get("no_longer_checks"), ")")
        return 1
    impl = tc.run_impl(case)
    half = tc.run_impl(case, res_override=case["res"] / 2) if impl["outcome"] == "ok" and case["shape"] != "polyline" and not case.get("nohalf") else None
    msgs = oracle(case, impl, half)
    R = core.Run(PROP, "quick", 0)
    st = Stage(R, PROP)
    st.add(case, impl, stage1=(case["shape"] not in tc.CURVED))
    st.run()
    V = tc.verts_array(impl)
    seg = tc.seg_lengths(V) if len(V) > 1 else np.zeros(0)
    print("case  :", case)
    print("impl  :", impl["outcome"], f"{len(seg)} segments at resolution {impl['res_eff']!r}", f"min/max {seg.min():.6g}/{seg.max():.6g}" if len(seg) else "", f"| at res/2: {len(half['verts']) - 1}" if half else "")
    print("model :", "agrees" if not R.broken else f"DISAGREES: {R.broken[0]['name']}: impl {R.broken[0]['impl']} / model {R.broken[0]['model']}")
    print("oracle:", "; ".join(m for _, m in msgs) or "ok")
    return 1 if (msgs or R.broken) else 0

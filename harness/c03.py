"""C03 - configured bounds are never exceeded by an emitted command.

Model: Model/Builder.lean; theorems: Props/C03.lean.  Oracle: every emitted line is parsed, the builder-coordinate
target of each motion is recomputed by an independent interpreter and tested against the bounds in force."""
from __future__ import annotations

from fractions import Fraction

from . import builder_common as bc
from . import core
from .builder_impl import parse_record

PROP = "C03"
KEYS = ["out", "stmts", "pos", "spos", "rel", "feed", "power", "tnum", "bed", "hot", "ch"]
W = dict(move=30, moveabs=10, setaxis=6, home=3, probe=8, dist=5, enter=2, exit=2, feed=5, power=4, toolon=4, tooloff=3,
         poweron=3, poweroff=2, toolchange=4, halt=6, temp=7, misc=2, bounds=12, hook=3)
TEMP = {"M140": "bed-temperature", "M190": "bed-temperature", "M104": "hotend-temperature", "M109": "hotend-temperature",
        "M141": "chamber-temperature", "M191": "chamber-temperature"}
MOTION = {"G0", "G1", "G38.2", "G38.3", "G38.4", "G38.5"}


def parse_stmt(s):
    codes, words = [], {}
    if s == "_":
        return codes, words
    for t in s.split(","):
        if ":" in t:
            k, v = t.split(":")
            words[k] = Fraction(v)
        else:
            codes.append(t)
    return codes, words


def inside(v, rng):
    return rng is None or rng[0] <= v <= rng[1]


AXES_TOL = {"v": Fraction(0)}   # slack of the axes test: 0 on the grid streams; the tracer stream prints off-grid doubles


def oracle(lines, recs, im):
    out = []
    slack = AXES_TOL["v"]
    axes_b, num = None, {}
    pos = {"X": None, "Y": None, "Z": None}
    rel = False
    for i, (ln, rec) in enumerate(zip(lines, recs)):
        r = parse_record(rec)
        ws = ln.split()
        stmts = [] if r["stmts"] == "-" else r["stmts"].split(";")
        for s in stmts:
            codes, words = parse_stmt(s)
            cs = set(codes)
            if "G90" in cs:
                rel = False
            elif "G91" in cs:
                rel = True
            elif cs & MOTION or "G92" in cs:
                tgt = dict(pos)
                for a in "XYZ":
                    if a in words:
                        tgt[a] = (pos[a] or 0) + words[a] if (rel and "G92" not in cs) else words[a]
                if axes_b:
                    for j, a in enumerate("XYZ"):
                        if tgt[a] is not None and not (axes_b[0][j] - slack <= tgt[a] <= axes_b[1][j] + slack):
                            out.append((i, f"`{s}` targets {a}={tgt[a]} outside [{axes_b[0][j]}, {axes_b[1][j]}]", "axes"))
                if cs & {"G38.2", "G38.3", "G38.4", "G38.5"}:
                    for a in "XYZ":
                        if a in words:
                            tgt[a] = None
                pos = tgt
            elif "G28" in cs:
                named = [a for a in "XYZ" if a in words]
                for a in (named or "XYZ"):
                    pos[a] = None
            if "F" in words and (cs & MOTION or not codes):
                if words["F"] < 0 or not inside(words["F"], num.get("feed-rate")):
                    out.append((i, f"`{s}` carries F={words['F']} outside {num.get('feed-rate')}", "feed"))
            if "S" in words and (cs & MOTION or cs & {"M03", "M04"} or not codes):
                if words["S"] < 0 or not inside(words["S"], num.get("tool-power")):
                    out.append((i, f"`{s}` carries S={words['S']} outside {num.get('tool-power')}", "power"))
            if "T" in words and "M06" in cs and not inside(words["T"], num.get("tool-number")):
                out.append((i, f"`{s}` carries T={words['T']} outside {num.get('tool-number')}", "tool-number"))
            for c in cs & set(TEMP):
                for k in ("S", "R"):
                    if k in words and not inside(words[k], num.get(TEMP[c])):
                        out.append((i, f"`{s}` carries {k}={words[k]} outside {num.get(TEMP[c])}", "temperature"))
        # inclusive acceptance of simple scalar commands
        if ws[0] in ("feed", "power", "bed", "hotend", "chamber") and r["out"] != "ok":
            kind = {"feed": "feed-rate", "power": "tool-power"}.get(ws[0], ws[0] + "-temperature")
            try:
                v = Fraction(ws[1])
                if (v >= 0 or ws[0] not in ("feed", "power")) and inside(v, num.get(kind)):
                    out.append((i, f"`{ln}` rejected although {v} is inside {num.get(kind)} (inclusive)", "rejected-inside"))
            except ValueError:
                pass
        if ws[0] in ("move", "rapid") and r["out"] != "ok" and all(":" not in w or w.startswith("h=") for w in ws[1:]):
            try:
                req = {w[0].upper(): Fraction(w[2:]) for w in ws[1:] if w[1] == "=" and w[0] in "xyz" and w[2:] != "-"}
                cur = {a: (pos[a] or 0) for a in "XYZ"}
                tgt = {a: (cur[a] + req.get(a, 0)) if rel else req.get(a, cur[a]) for a in "XYZ"}
                # (off-grid streams: the position is reconstructed from rounded words, so only a target inside the box by
                # more than the slack proves that the refusal was wrong)
                if axes_b is None or all(axes_b[0][j] + slack <= tgt[a] <= axes_b[1][j] - slack for j, a in enumerate("XYZ")):
                    out.append((i, f"`{ln}` rejected although its target {tgt} is inside the box {axes_b}", "rejected-inside"))
            except ValueError:
                pass
        if r["out"] == "ok":
            if ws[0] == "boundsaxes":
                v = [Fraction(x) for x in ws[1:]]
                axes_b = (v[:3], v[3:])
            elif ws[0] == "bounds":
                num[ws[1]] = (Fraction(ws[2]), Fraction(ws[3]))
        if ws[0] in ("feed", "power", "toolon", "poweron", "bed", "hotend", "chamber") and r["out"] == "ok" and "nan" in ws:
            out.append((i, f"`{ln}` accepted a NaN", "nan"))
    return out


def histories(R, n):
    hs = []
    for _ in range(n):
        g = bc.Gen(R.rng, W, malformed=0.12, span=R.rng.choice([8, 16, 40]))
        h = []
        for _ in range(R.rng.randint(0, 3)):
            h.append(g.g_bounds())
        h += g.history(R.rng.randint(6, 35))
        hs.append(h)
    return hs


def near_limit_histories(R, n):
    """oracle-only: targets a hair inside / outside an axes limit (1e-12 ... 1e-8 of the limit's magnitude), printed with 12
    decimals so that the emitted word shows on which side they are; absolute moves only (no accumulation)"""
    from .builder_impl import show
    hs = []
    for _ in range(n):
        r = R.rng
        lo = [Fraction(r.randint(-300, 0)) for _ in range(3)]
        hi = [l + Fraction(r.randint(1, 400)) for l in lo]
        h = ["cfg dp=12", "boundsaxes " + " ".join(show(v) for v in lo + hi),
             "setaxis " + " ".join(f"{a}={show((l + u) / 2)}" for a, l, u in zip("xyz", lo, hi))]
        for _ in range(r.randint(2, 6)):
            j = r.randrange(3)
            lim = r.choice([lo[j], hi[j]])
            eps = Fraction(r.choice([1, 2, 5]), 10 ** r.randint(8, 12)) * (1 + abs(lim)) * r.choice([1, 1, -1])
            v = Fraction(float(lim + eps))               # the double the library receives
            op = r.choice(["move", "move", "rapid", "moveabs", "rapidabs", "probe towards", "setaxis"])
            h.append(f"{op} {'xyz'[j]}={show(v)}")
        hs.append(h)
    return hs


def spelled(R, hs):
    """the same histories with the numbers handed over as numpy scalars and / or the parameter names in lower case"""
    out = []
    for h in hs:
        c = R.rng.choice(["np=1", "lower=1", "lower=1 np=1"])
        out.append(["cfg " + c] + h)
    return out


def trace_histories(R, n):
    """interpolated paths inside an axes box that some of their intermediate segments leave (the end points may well be
    inside): every segment the tracer issues is a `move` of its own and must be refused at the first vertex outside"""
    from .builder_impl import show
    hs = []
    for _ in range(n):
        r = R.rng
        lo = [Fraction(r.randint(-8, 0)) for _ in range(3)]
        hi = [l + Fraction(r.randint(6, 14)) for l in lo]
        h = ["boundsaxes " + " ".join(show(v) for v in lo + hi)]
        start = [Fraction(r.randint(int(l) * 4, int(u) * 4), 4) for l, u in zip(lo, hi)]
        h.append("setaxis " + " ".join(f"{a}={show(v)}" for a, v in zip("xyz", start)))
        if r.random() < 0.4:
            h.append("dist rel")
        h.append("res " + show(Fraction(r.choice([8, 16, 32]), 32)))
        if r.random() < 0.3:
            h.append("dir ccw")
        for _ in range(r.randint(1, 2)):
            k = r.choice(["arc", "arc", "circle", "polyline", "spline", "helix", "arc_radius", "spiral"])
            rel = "dist rel" in h
            def tgt(j, span=6):
                v = Fraction(r.randint(-span * 2, span * 2), 2)
                return show(v if rel else start[j] + v)
            if k == "arc":
                c = r.randint(2, 7)   # half circle about the point c to the right: peaks c above / below the chord
                h.append(f"trace arc {show((0 if rel else start[0]) + 2 * c)} {show(0 if rel else start[1])} {c} 0")
            elif k == "circle":
                h.append(f"trace circle {r.randint(1, 6)} {r.randint(-6, 6)}")
            elif k == "polyline":
                h.append("trace polyline " + " ".join(";".join(tgt(j) for j in range(3)) for _ in range(r.randint(1, 4))))
            elif k == "spline":
                h.append("trace spline " + " ".join(";".join(tgt(j) for j in range(3)) for _ in range(r.randint(2, 4))))
            elif k == "helix":
                h.append(f"trace helix {tgt(0, 3)} {tgt(1, 3)} {tgt(2, 3)} {r.randint(1, 4)} {r.randint(-3, 3)} {r.randint(1, 2)}")
            elif k == "spiral":
                h.append(f"trace spiral {tgt(0, 4)} {tgt(1, 4)} {tgt(2, 2)} {r.randint(1, 2)}")
            else:
                h.append(f"trace arc_radius {tgt(0, 3)} {tgt(1, 3)} {r.choice([-1, 1]) * r.randint(7, 12)}")
            h.append("move " + " ".join(f"{a}={show(v)}" for a, v in zip("xyz", start)) if not rel else "moveabs " +
                     " ".join(f"{a}={show(v)}" for a, v in zip("xyz", start)))
        hs.append(h)
    return hs


def run(R: core.Run):
    R.rule = ("random bound configurations (any subset of the seven properties, min<max on the grid) followed by histories biased to "
              "values at min, max, one grid step outside/inside, NaN, +-inf, in both distance modes and with positions made partly "
              "unknown by home/probe; non-trivial = bounds configured and at least two emitting calls; distinct by hash")
    R.assumptions = ["exact arithmetic on the dyadic grid; 'min-ulp/max+ulp' are sampled as one grid step (1/32) outside",
                     "bounds are finite numbers", "identity transform (transforms: C04)",
                     "parameter names are case-insensitive by contract: the model sees them in upper case whatever the call spelled",
                     "numpy float64 scalars denote the same numbers as Python floats (the model has one kind of number)"]
    nt = lambda lines, recs: any(l.startswith("bounds") for l in lines) and sum(1 for r in recs if "stmts=-" not in r) >= 2
    corpus = [["boundsaxes 0 0 0 20 20 20", "probe towards x=1000", "probe towards x=20", "move x=20 y=20 z=20", "dist rel", "move x=1/32"],
              ["bounds bed-temperature 0 120", "halt wait-for-bed S:50 R:500", "halt wait-for-bed S:50 R:120", "bed 120", "bed 3841/32"],
              ["bounds feed-rate 100 1000", "move x=1 F:100", "move x=2 F:1000", "move x=3 F:32001/32", "feed 3199/32", "feed nan"],
              ["boundsaxes -10 -10 -10 10 10 10", "move x=1000", "dist rel", "move x=-995", "setaxis x=11", "home", "move x=5"]]
    bc.correspond(R, corpus, KEYS, True, "corpus", oracle, nt)
    bc.correspond(R, histories(R, R.n(1500, 20000)), KEYS, True, "random", oracle, nt)
    corpus2 = [["cfg lower=1", "bounds hotend-temperature 150 250", "halt wait-for-hotend S:200 R:300", "halt wait-for-hotend R:300 S:200",
                "halt wait-for-hotend S:200 R:250"],
               ["cfg np=1", "boundsaxes 0 0 0 10 8 10", "setaxis x=0 y=5 z=0", "move x=5 y=9", "move x=5 y=8 F:100", "bounds feed-rate 10 50",
                "move x=6 F:51", "feed 51", "feed 50"]]
    bc.correspond(R, corpus2, KEYS, True, "corpus-spelling", oracle, nt)
    bc.correspond(R, spelled(R, histories(R, R.n(400, 6000))), KEYS, True, "numpy-scalars/lower-case-names", oracle, nt)
    AXES_TOL["v"] = Fraction(1, 1000)
    try:
        done = bc.correspond(R, trace_histories(R, R.n(120, 3000)), KEYS, False, "tracer-in-a-box", oracle, nt)
        for lines, recs in done:
            R.count("tracer-in-a-box:" + ("some-segment-refused" if any("out=ValueError" in x for x in recs) else "all-inside"))
    finally:
        AXES_TOL["v"] = Fraction(0)
    for h in near_limit_histories(R, R.n(150, 2500)):
        lines, recs, im = bc.run_impl(h)
        R.evaluations += 1
        R.count("near-limit", "near-limit:rejections=%d" % min(3, sum(1 for x in recs if not x.startswith("out=ok"))))
        for step, msg, tag in oracle(lines, recs, im):
            R.fail({"history": bc.cfg_line(im) + lines[: step + 1]}, msg, tag=tag, step=step)
    if R.broken:
        R.search_batches += 1
        for h in histories(R, R.n(1200, 4000)) + spelled(R, histories(R, R.n(300, 1000))):
            lines, recs, im = bc.run_impl(h)
            R.evaluations += 1
            for step, msg, tag in oracle(lines, recs, im):
                R.fail({"history": lines[: step + 1]}, msg, tag=tag, step=step)
    return {}, {}


def replay(data):
    return bc.replay(data, KEYS, oracle)

"""C11 - a toolpath is the same in relative and absolute distance mode.

Theorems: Props/C11.lean (on Model/Builder.lean).  Each case is one logical toolpath (absolute waypoints and
shapes on the dyadic grid) executed twice on the real builder - in absolute mode with coordinates, in relative
mode with the corresponding offsets - and the two machine-position sequences, reconstructed from the emitted
bytes by an independent interpreter, are compared vertex by vertex.  Both runs also go through the model.

A further configuration dimension: the same pairs of runs with a coordinate transform (right-angle rotations, translate,
scale, mirror, about a pivot or not) installed on the builder before the toolpath starts - random toolpaths of every
shape, and rectilinear toolpaths traced one axis at a time on a small lattice, where a coordinate of the image of a
waypoint often coincides with a coordinate of another waypoint.  The builder model has no transformer: those pairs are
run on the implementation and judged by the oracle only (`xform` lines are harness-only).

Another one: the same pairs of runs on the base class `gscrib.GCodeCore` used directly (its own `set_distance_mode`, no state
object, no tracer: moves, rapids, absolute-bypass moves, mode contexts), the mode of each run selected - and re-selected along the
toolpath - by enum member, by documented value or by a look-alike spelling of the mode's name (one the tree under test refuses
with ValueError is skipped, one it accepts is used); waypoints are handed over as offsets whenever the object reports relative
mode.  The builder model describes a `GCodeBuilder`: implementation and oracle only (`class core` histories are harness-only)."""
from __future__ import annotations

from fractions import Fraction

from . import builder_common as bc
from . import core
from .builder_impl import Impl, parse_record, show

PROP = "C11"
KEYS = bc.MOTION_KEYS
G = 32


def fr(r, lo=-8, hi=8):
    return Fraction(r.randint(lo * G, hi * G), G)


def gen_path(R):
    """list of segments: (kind, absolute target (x,y,z) or None, extra) - all on the grid"""
    r = R.rng
    start = (fr(r), fr(r), fr(r))
    segs = []
    cur = start
    for _ in range(r.randint(2, 6)):
        k = r.choice(["move", "rapid", "moveabs", "rapidabs", "polyline", "arc", "circle", "helix", "spiral", "thread",
                      "arc_radius", "spline", "ctx", "ctxraise", "parametric", "ctxnest", "dwellctx", "ctxshape", "ctxshape"])
        wrap = None
        if k == "ctxshape":
            # an interpolated shape traced inside a mode context (the context may or may not switch the mode)
            wrap = r.choice(["abs", "rel"])
            k = r.choice(["arc", "circle", "helix", "spiral", "thread", "arc_radius", "spline", "polyline"])
        n_before = len(segs)
        if k in ("move", "rapid", "moveabs", "rapidabs"):
            t = tuple(fr(r) if r.random() < 0.7 else None for _ in range(3))
            if all(v is None for v in t):
                t = (fr(r), None, None)
            segs.append((k, t, None))
            cur = tuple(c if v is None else v for c, v in zip(cur, t))
        elif k in ("polyline", "spline"):
            pts = [(fr(r), fr(r), fr(r)) for _ in range(r.randint(2, 4))]
            segs.append((k, pts, None))
            cur = pts[-1]
        elif k == "arc":
            rad = Fraction(r.randint(1, 6))
            c = (cur[0] + rad, cur[1])                      # centre to the right of the start
            t = (c[0], c[1] + rad * r.choice([1, -1]), cur[2] + fr(r, -2, 2))   # quarter/three-quarter turn
            segs.append((k, t, (rad, Fraction(0))))
            cur = t
        elif k == "circle":
            segs.append((k, None, (Fraction(r.randint(1, 5)), Fraction(r.randint(-3, 3)))))
        elif k in ("helix", "spiral"):
            t = (cur[0] + fr(r, 1, 5), cur[1] + fr(r, 1, 5), cur[2] + fr(r, -3, 3))
            segs.append((k, t, ((fr(r, 1, 3), fr(r, -2, 2)) if k == "helix" else None, r.randint(1, 2))))
            cur = t
        elif k == "thread":
            t = (cur[0] + fr(r, 1, 4), cur[1] + fr(r, 1, 4), cur[2] + fr(r, -5, 5))
            segs.append((k, t, Fraction(r.randint(1, 3))))
            cur = t
        elif k == "arc_radius":
            t = (cur[0] + fr(r, 1, 4), cur[1] + fr(r, 1, 4))
            segs.append((k, t, Fraction(r.choice([-1, 1]) * r.randint(7, 12))))
            cur = (t[0], t[1], cur[2])
        elif k == "parametric":
            p0 = (cur[0] + fr(r, -2, 2), cur[1] + fr(r, -2, 2), cur[2] + fr(r, -1, 1))   # lead-in gap: f(0) != position
            p1 = (p0[0] + fr(r, 1, 6), p0[1] + fr(r, -6, 6), p0[2] + fr(r, -2, 2))
            segs.append((k, p1, p0))
            cur = p1
        elif k == "ctxnest":
            # a mode context holding a move, an absolute-bypass move (a nested absolute_mode()) and another move
            t1, t2, t3 = ((fr(r), fr(r), fr(r)) for _ in range(3))
            segs.append(("ctxnest", (t1, t2, t3), r.choice(["abs", "rel"])))
            cur = t3
        elif k == "dwellctx":
            # a zero-length move, then a move to the absolute point whose coordinates equal that move's relative arguments
            segs.append(("dwellctx", (Fraction(0), Fraction(0), None), None))
            cur = (Fraction(0), Fraction(0), cur[2])
        elif k == "ctxraise":
            # a mode context whose body raises (a waypoint outside the axes box), caught by the caller, who carries on
            t = (fr(r), fr(r), fr(r))
            segs.append(("ctxraise", t, r.choice(["abs", "rel"])))
            cur = t
        else:
            t = (fr(r), fr(r), fr(r))
            segs.append(("ctx", t, r.choice(["abs", "rel"])))   # a move inside a mode context
            cur = t
        if wrap and len(segs) == n_before + 1:
            segs[-1] = ("ctxshape", segs[-1], wrap)
    path = (start, segs, r.choice(["cw", "ccw"]), Fraction(r.choice([16, 32, 64]), G))
    if r.random() < 0.35 and not any(s[0] == "dwellctx" or (s[0] == "ctxshape" and s[1][0] == "dwellctx") for s in segs):
        # the same toolpath far from the origin, inside an axes box that holds every waypoint but none of the (small)
        # relative offsets: a bounds check applied to what is *emitted* instead of to the target refuses one mode only
        D = r.choice([(512, 768, 384), (-640, 448, -320), (320, -704, 576)])
        path = shift_path(path, tuple(Fraction(d) for d in D))
    return path


def shift_path(path, D):
    start, segs, direction, res = path[:4]
    sh = lambda t: tuple(None if v is None else v + d for v, d in zip(t, D))

    def one(seg):
        k, t, extra = seg[:3]
        if k == "ctxshape":
            return (k, one(t), extra)
        if k in ("polyline", "spline"):
            return (k, [sh(p) for p in t], extra)
        if k == "circle":
            return seg
        if k == "parametric":
            return (k, sh(t), sh(extra))
        if k == "ctxnest":
            return (k, tuple(sh(p) for p in t), extra)
        return (k, sh(t), extra) + tuple(seg[3:])
    box = tuple(d - 200 for d in D) + tuple(d + 200 for d in D)
    return (sh(start), [one(s) for s in segs], direction, res, box)


# ------------------------------------------------------------------ transforms (implementation + oracle only)
# exact right-angle blocks (row-major 3x3) for `chain_transform`; `rotate()` itself leaves cos(90 deg) = 6e-17 in the matrix
BLOCKS = {"z+": (0, -1, 0, 1, 0, 0, 0, 0, 1), "z-": (0, 1, 0, -1, 0, 0, 0, 0, 1),
          "x+": (1, 0, 0, 0, 0, -1, 0, 1, 0), "x-": (1, 0, 0, 0, 0, 1, 0, -1, 0),
          "y+": (0, 0, 1, 0, 1, 0, -1, 0, 0), "y-": (0, 0, -1, 0, 1, 0, 1, 0, 0)}


def gen_xform(r, unit=None):
    """1-3 transform operations; `unit`: translations / pivots are multiples of it (so that images stay on the toolpath's lattice)"""
    def vec():
        if unit is not None:
            return tuple(unit * r.randint(-2, 2) for _ in range(3))
        return (fr(r, -6, 6), fr(r, -6, 6), fr(r, -6, 6) if r.random() < 0.6 else Fraction(0))
    ops = []
    for _ in range(r.choice([1, 1, 1, 2, 2, 3])):
        k = r.choice(["rotate", "rotate", "rotate", "block", "translate", "scale", "mirror", "pivot"])
        if k == "rotate":
            ops.append(("rotate", Fraction(r.choice([90, 90, -90, -90, 270, -270, 180, -180, 0, 360])), r.choice("zzzxy")))
        elif k == "block":
            ops.append(("block", r.choice(sorted(BLOCKS))))
        elif k == "translate":
            ops.append(("translate", vec()))
        elif k == "scale":
            f = [Fraction(2), Fraction(1, 2), Fraction(-1), Fraction(3, 2), Fraction(4)]
            ops.append(("scale", tuple(r.choice(f) for _ in range(r.choice([1, 1, 2, 3])))))
        elif k == "mirror":
            ops.append(("mirror", r.choice(["xy", "yz", "zx"])))
        else:
            ops.append(("pivot", vec()))
    if ops[-1][0] == "pivot":           # a pivot only matters to what is chained after it
        ops.append(("rotate", Fraction(r.choice([90, -90])), r.choice("zxy")))
    return ops


def xform_line(op):
    k, a = op[0], op[1:]
    if k == "rotate":
        return f"xform rotate {show(a[0])} {a[1]}"
    if k in ("block", "mirror"):
        return f"xform {k} {a[0]}"
    return f"xform {k} " + " ".join(show(v) for v in a[0])


def apply_xform(g, line):
    """configure the builder's transformer through its public methods"""
    import numpy as np
    ws = line.split()
    k, a = ws[1], ws[2:]
    f = lambda v: float(Fraction(v))
    t = g.transform
    if k == "rotate":
        t.rotate(f(a[0]), a[1])
    elif k == "block":
        m = np.eye(4)
        m[:3, :3] = np.array(BLOCKS[a[0]], dtype=float).reshape(3, 3)
        t.chain_transform(m)
    elif k == "translate":
        t.translate(*[f(v) for v in a])
    elif k == "scale":
        t.scale(*[f(v) for v in a])
    elif k == "mirror":
        t.mirror(a[0])
    elif k == "pivot":
        t.set_pivot(tuple(f(v) for v in a))
    else:
        raise RuntimeError("harness: unknown transform " + line)


def run_impl_any(lines):
    """`bc.run_impl`, also for histories with `xform` lines (configuration only: they write nothing and have no record)"""
    if lines and lines[0] == CORE_MARK:
        return run_core(lines)
    if not any(ln.startswith("xform ") for ln in lines):
        return bc.run_impl(lines)
    im = Impl(5)
    im.dp0, im.cfg, im.lower = 5, {}, False
    out_lines, recs = [], []
    for ln in lines:
        if ln.startswith("xform "):
            apply_xform(im.g, ln)
        elif ln.startswith("trace "):
            for l2, rec in im.apply_trace(ln):
                out_lines.append(l2)
                recs.append(rec)
        else:
            l2, rec = im.apply(ln)
            out_lines.append(l2)
            recs.append(rec)
    while im.ctx:
        try:
            im.ctx.pop().__exit__(None, None, None)
        except Exception:
            pass
    return out_lines, recs, im


def gen_lattice_path(R):
    """a rectilinear toolpath on a small lattice (a few multiples of one unit per axis), traced mostly one axis at a time
    - the way hand-written programs trace rectangles and staircases: images of waypoints under a right-angle transform
    land on coordinates of other waypoints"""
    r = R.rng
    unit = Fraction(r.choice([1, 2, 5, 10, 16, 25])) if r.random() < 0.6 else Fraction(r.randint(1, 8 * G), G)
    mult = r.choice([[0, 1], [0, 1, 2], [-1, 0, 1], [-2, -1, 0, 1, 2], [-1, 0, 1, 2]])
    pool = [unit * m for m in mult]
    start = tuple(r.choice(pool) for _ in range(3))
    cur = start
    segs = []
    for _ in range(r.randint(3, 9)):
        axes = [r.randrange(3)] if r.random() < 0.8 else r.sample(range(3), 2)
        t = [None, None, None]
        for i in axes:
            other = [v for v in pool if v != cur[i]]
            t[i] = r.choice(other) if r.random() < 0.9 else cur[i]
        t = tuple(t)
        k = r.choice(["move", "move", "move", "rapid", "rapid", "ctx"])
        segs.append((k, t, r.choice(["abs", "rel"]) if k == "ctx" else None))
        cur = tuple(c if v is None else v for c, v in zip(cur, t))
    return (start, segs, r.choice(["cw", "ccw"]), Fraction(1)), unit


def no_bypass(path):
    """the toolpath with its absolute-bypass moves (which by-pass the transform by contract) turned into plain moves"""
    def one(seg):
        k, t, extra = seg[:3]
        if k in ("moveabs", "rapidabs"):
            return (k[:-3], t, extra)
        if k == "ctxnest":
            return ("polyline", list(t), None)
        return seg
    return (path[0], [one(s) for s in path[1]]) + tuple(path[2:])


def L(*xyz):
    return tuple(None if v is None else Fraction(v) for v in xyz)


# hand-written members of the family: (transform, toolpath)
XF_CORPUS = [
    # a 4 x 4 rectangle traced one axis at a time, the work piece turned a quarter clockwise
    ([("rotate", Fraction(-90), "z")],
     (L(0, 0, 0), [("move", L(4, None, None), None), ("move", L(None, 4, None), None), ("move", L(0, None, None), None),
                   ("move", L(None, 0, None), None)], "cw", Fraction(1))),
    # a staircase in the YZ plane, quarter turn about x chained after a shift
    ([("translate", L(0, 3, 0)), ("block", "x+")],
     (L(1, 0, 3), [("rapid", L(None, None, 6), None), ("move", L(None, 3, None), None), ("move", L(None, None, 0), None),
                   ("move", L(None, 6, None), None), ("rapid", L(2, None, None), None)], "ccw", Fraction(1))),
    # mirrored and turned about a pivot, legs inside mode contexts
    ([("mirror", "yz"), ("pivot", L(5, 5, 0)), ("rotate", Fraction(90), "z")],
     (L(5, 0, 0), [("ctx", L(None, 5, None), "abs"), ("move", L(10, None, None), None), ("ctx", L(None, 10, None), "rel"),
                   ("move", L(0, None, None), None), ("move", L(None, 0, None), None)], "cw", Fraction(1))),
]


# ------------------------------------------------------------------ the base class used directly (implementation + oracle only)
CORE_MARK = "class core"
# spellings a caller might try for each mode besides the enum member ("@") and the documented value
LOOKALIKE = {
    "rel": ["rel", "inc", "incremental", "incr", "increment", "RELATIVE", "Relative", "G91", "g91", "91", "r", "relative ", " relative",
            "rel.", "relative mode", "delta", "offset", "DistanceMode.RELATIVE"],
    "abs": ["abs", "ABSOLUTE", "Absolute", "G90", "g90", "90", "a", "absolute ", " absolute", "abs.", "absolute mode",
            "DistanceMode.ABSOLUTE"],
}
DOCUMENTED = {"rel": "relative", "abs": "absolute"}


def gen_spellings(r, want):
    """how one mode selection is spelled: the candidates are tried in order, the last one is always a documented form"""
    how = r.choice(["member", "value", "look-alike", "look-alike"])
    if how == "member":
        return ["@"]
    if how == "value":
        return [DOCUMENTED[want]]
    return r.sample(LOOKALIKE[want], r.randint(1, 3)) + [r.choice(["@", DOCUMENTED[want]])]


def gen_core_path(R):
    """a logical toolpath for `GCodeCore`: (start, how the machine gets there, segments); every target is an absolute waypoint"""
    r = R.rng
    start = (fr(r), fr(r), fr(r))
    segs = []
    for _ in range(r.randint(2, 8)):
        k = r.choice(["move", "move", "move", "rapid", "rapid", "moveabs", "rapidabs", "ctx", "ctx", "ctxnest", "polyline", "reselect",
                      "reselect"])
        if k in ("move", "rapid", "moveabs", "rapidabs"):
            t = tuple(fr(r) if r.random() < 0.7 else None for _ in range(3))
            if all(v is None for v in t):
                t = (None, fr(r), None)
            segs.append((k, t, None))
        elif k == "polyline":           # no tracer on the base class: a polyline is its moves
            segs += [("move", (fr(r), fr(r), fr(r)), None) for _ in range(r.randint(2, 4))]
        elif k == "ctx":
            segs.append(("ctx", [(r.choice(["move", "rapid"]), (fr(r), fr(r), fr(r) if r.random() < 0.5 else None))
                                 for _ in range(r.randint(1, 3))], r.choice(["abs", "rel"])))
        elif k == "ctxnest":
            segs.append(("ctx", [("move", (fr(r), fr(r), fr(r))), (r.choice(["moveabs", "rapidabs"]), (fr(r), fr(r), None)),
                                 ("move", (fr(r), None, fr(r)))], r.choice(["abs", "rel"])))
        else:
            # the run's mode is selected again (a caller that states the mode at the top of every section of a program)
            segs.append(("reselect", None, {m: gen_spellings(r, m) for m in ("abs", "rel")}))
    first = {"abs": gen_spellings(r, "abs") if r.random() < 0.6 else None, "rel": gen_spellings(r, "rel")}
    return (start, r.choice(["setaxis", "rapid", "rapidabs"]), first, segs)


def core_lines(path, relative: bool):
    import json
    start, arrive, first, segs = path
    which = "rel" if relative else "abs"
    pt = lambda t: " ".join(f"{a}={show(v)}" for a, v in zip("xyz", t) if v is not None)
    out = [CORE_MARK, f"{arrive} {pt(start)}"]          # the object starts in absolute mode: `start` is where the machine goes
    if first[which] is not None:
        out.append(f"mode {which} " + json.dumps(first[which]))
    for k, t, extra in segs:
        if k == "reselect":
            out.append(f"mode {which} " + json.dumps(extra[which]))
        elif k == "ctx":
            out += ["enter " + extra] + [f"{op} {pt(p)}" for op, p in t] + ["exit"]
        else:
            out.append(f"{k} {pt(t)}")
    return out


def run_core(lines):
    """one history on a bare `GCodeCore`.  `move` / `rapid` lines carry the absolute waypoint; it is handed to the object as it is
    while the object reports absolute mode and as the offset from the previous waypoint while it reports relative mode.
    Records carry `out`, `stmts` and `rel` only."""
    import json
    from gscrib import GCodeCore
    from gscrib.enums import DistanceMode
    from .builder_impl import Recorder, canon_stmt, _num
    rec = Recorder()
    g = GCodeCore(output=None, print_lines=False, decimal_places=5, line_endings="\n")
    g.add_writer(rec.make())
    member = {"rel": DistanceMode.RELATIVE, "abs": DistanceMode.ABSOLUTE}
    cur = [None, None, None]
    ctx, recs, used = [], [], []
    for ln in lines[1:]:
        n0 = len(rec.chunks)
        op, _, rest = ln.partition(" ")
        out = "ok"
        try:
            if op == "mode":
                want, _, cands = rest.partition(" ")
                for c in json.loads(cands):
                    try:
                        g.set_distance_mode(member[want] if c == "@" else c)
                    except ValueError:
                        used.append("refused")
                        continue                    # a spelling this tree does not know
                    used.append("member" if c == "@" else "value" if c == DOCUMENTED[want] else "look-alike:" + c)
                    if bool(g.distance_mode.is_relative) == (want == "rel"):
                        break
                else:
                    raise RuntimeError(f"harness: no candidate of {ln!r} selected the {want} mode")
            elif op == "enter":
                cm = g.relative_mode() if rest == "rel" else g.absolute_mode()
                cm.__enter__()
                ctx.append(cm)
            elif op == "exit":
                ctx.pop().__exit__(None, None, None)
            else:
                t = {w.split("=")[0]: Fraction(w.split("=")[1]) for w in rest.split()}
                t = [t.get(a) for a in "xyz"]
                name = {"setaxis": "set_axis", "moveabs": "move_absolute", "rapidabs": "rapid_absolute"}.get(op, op)
                if op in ("move", "rapid") and g.distance_mode.is_relative:
                    args = {a: _num(v - c) for a, v, c in zip("xyz", t, cur) if v is not None}
                else:
                    args = {a: _num(v) for a, v in zip("xyz", t) if v is not None}
                getattr(g, name)(**args)
                cur = [c if v is None else v for c, v in zip(cur, t)]
        except RuntimeError:
            raise
        except Exception as e:  # noqa
            out = type(e).__name__
        text = b"".join(rec.chunks[n0:]).decode("utf-8")
        stmts = [canon_stmt(l) for l in text.split("\n")[:-1]] if text else []
        recs.append(f"out={out} stmts={';'.join(stmts) if stmts else '-'} rel={int(bool(g.distance_mode.is_relative))}")
    while ctx:
        ctx.pop().__exit__(None, None, None)
    return lines, recs, used


CORE_CORPUS = [
    # a square and a diagonal, the mode stated by a short name first
    (L(0, 0, 0), "rapid", {"abs": ["abs", "absolute"], "rel": ["rel", "relative"]},
     [("move", L(10, None, None), None), ("move", L(None, 10, None), None), ("rapid", L(0, 10, -1), None), ("move", L(5, 5, -1), None),
      ("moveabs", L(20, 20, 0), None), ("move", L(0, 0, None), None)]),
    # the mode stated again before every leg, each time spelled differently; a leg inside a context
    (L(2, 3, 1), "setaxis", {"abs": None, "rel": ["RELATIVE", "G91", "incremental", "@"]},
     [("move", L(4, 3, 1), None), ("reselect", None, {"abs": ["G90", "Absolute", "@"], "rel": ["inc", "Relative", "relative"]}),
      ("move", L(4, 6, None), None), ("ctx", [("move", L(1, 1, 0))], "abs"), ("move", L(2, 3, 1), None)]),
]


def run_core_case(R, path, label):
    la, lb = core_lines(path, False), core_lines(path, True)
    A, B = run_core(la), run_core(lb)
    case = {"class": "GCodeCore", "absolute": la, "relative": lb}
    n = judge(R, case, A[1], B[1])
    R.case({**case, "motions": n}, nontrivial=n >= 3, validated=False)
    R.count(label, "core-pairs(impl+oracle only)", *["core-mode-by:" + u.split(":")[0] for u in A[2] + B[2]],
            *["core-accepted:" + u.split(":", 1)[1] for u in A[2] + B[2] if u.startswith("look-alike:")],
            *["core-seg:" + s[0] for s in path[3]])


def lines_for(path, relative: bool, xf=None):
    start, segs, direction, res = path[:4]
    box = path[4] if len(path) > 4 else (-1000, -1000, -1000, 1000, 1000, 1000)
    out = ["boundsaxes " + " ".join(show(Fraction(v)) for v in box)]
    if xf is None:
        out += ["setaxis x=%s y=%s z=%s" % tuple(show(v) for v in start), "dir " + direction, "res " + show(res)]
    else:
        # the transform is configured once, before the toolpath; an all-axes move in the builder's initial (absolute) mode then
        # takes the machine to the image of the start, where machine and builder agree - only then is the mode chosen.
        # (`set_axis` and the absolute-bypass moves are documented to by-pass the transform: after one of them the machine
        # is not at transform(position) and relative offsets start from elsewhere - such toolpaths carry no claim here)
        ops, preset = xf
        out += [xform_line(o) for o in ops] + ["dir " + direction, "res " + show(res)]
        if preset is not None:
            out.append("setaxis x=%s y=%s z=%s" % tuple(show(v) for v in preset))
        out.append("rapid x=%s y=%s z=%s" % tuple(show(v) for v in start))
    if relative:
        out.append("dist rel")
    cur = list(start)

    def arg(t, rel):
        """absolute target -> argument in the given mode (None stays None)"""
        return [None if v is None else (v - c if rel else v) for v, c in zip(t, cur)]

    def pt(vals):
        return " ".join(f"{a}={show(v)}" for a, v in zip("xyz", vals) if v is not None)

    todo = []
    for seg in segs:
        if seg[0] == "ctxshape":
            todo += [("_enter", seg[2], None), seg[1] + (seg[2] == "rel",), ("_exit", None, None)]
        else:
            todo.append(seg)
    for item in todo:
        k, t, extra = item[:3]
        outer = relative
        if len(item) > 3:
            relative = item[3]          # the shape is requested in the context's mode
        if k == "_enter":
            out.append("enter " + t)
        elif k == "_exit":
            out.append("exit")
        elif k in ("move", "rapid"):
            out.append(f"{k} {pt(arg(t, relative))}")
            cur = [c if v is None else v for c, v in zip(cur, t)]
        elif k in ("moveabs", "rapidabs"):
            out.append(f"{k} {pt(t)}")
            cur = [c if v is None else v for c, v in zip(cur, t)]
        elif k in ("polyline", "spline"):
            items = []
            for p in t:
                a = arg(p, relative)
                items.append(";".join(show(v) for v in a))
                cur = list(p)
            out.append(f"trace {k} " + " ".join(items))
        elif k == "arc":
            a = arg(t, relative)
            out.append("trace arc " + " ".join(show(v) for v in a) + " " + " ".join(show(v) for v in extra))
            cur = list(t)
        elif k == "circle":
            out.append("trace circle " + " ".join(show(v) for v in extra))
        elif k == "helix":
            a = arg(t, relative)
            out.append("trace helix " + " ".join(show(v) for v in a) + " " + " ".join(show(v) for v in extra[0]) + f" {extra[1]}")
            cur = list(t)
        elif k == "spiral":
            a = arg(t, relative)
            out.append("trace spiral " + " ".join(show(v) for v in a) + f" {extra[1]}")
            cur = list(t)
        elif k == "thread":
            a = arg(t, relative)
            out.append("trace thread " + " ".join(show(v) for v in a) + " " + show(extra))
            cur = list(t)
        elif k == "arc_radius":
            a = arg(t + (None,), relative)[:2]
            out.append("trace arc_radius " + " ".join(show(v) for v in a) + " " + show(extra))
            cur = [t[0], t[1], cur[2]]
        elif k == "parametric":
            out.append("trace parametric " + ";".join(show(v) for v in extra) + " " + ";".join(show(v) for v in t))
            cur = list(t)
        elif k == "ctxnest":
            inner_rel = extra == "rel"
            t1, t2, t3 = t
            out.append("enter " + extra)
            out.append("move " + pt(arg(t1, inner_rel)))
            cur = list(t1)
            out.append("moveabs " + pt(t2))
            cur = list(t2)
            out.append("move " + pt(arg(t3, inner_rel)))
            cur = list(t3)
            out.append("exit")
        elif k == "dwellctx":
            out.append("move " + pt(arg((cur[0], cur[1], None), relative)) + " F:600")     # stays where it is
            out.append("enter abs")
            out.append("move x=0 y=0")
            out.append("exit")
            cur = [Fraction(0), Fraction(0), cur[2]]
        elif k == "ctxraise":
            inner_rel = extra == "rel"
            out.append("enter " + extra)
            out.append("move x=4000")          # outside the +-1000 box configured below: raises inside the block
            out.append("exitraise")
            out.append("move " + pt(arg(t, relative)))
            cur = list(t)
        elif k == "ctx":
            inner_rel = extra == "rel"
            out.append("enter " + extra)
            out.append("move " + pt(arg(t, inner_rel)))
            out.append("exit")
            cur = [c if v is None else v for c, v in zip(cur, t)]
        relative = outer
    return out


def machine_positions(recs):
    """independent interpreter: position after every motion statement, with the error bound accumulated by rounding"""
    pos = {"X": None, "Y": None, "Z": None}
    rel = False
    seq = []
    nrel = 0
    for rec in recs:
        r = parse_record(rec)
        for s in ([] if r["stmts"] == "-" else r["stmts"].split(";")):
            toks = [] if s == "_" else s.split(",")
            codes = {t for t in toks if ":" not in t}
            words = {t.split(":")[0]: Fraction(t.split(":")[1]) for t in toks if ":" in t}
            if "G90" in codes:
                rel = False
            elif "G91" in codes:
                rel = True
            elif "G92" in codes:
                for a in "XYZ":
                    if a in words:
                        pos[a] = words[a]
            elif codes & {"G0", "G1"}:
                for a in "XYZ":
                    if a in words:
                        pos[a] = (None if pos[a] is None else pos[a] + words[a]) if rel else words[a]
                nrel += 1 if rel else 0
                seq.append((dict(pos), nrel))
    return seq


def judge(R, case, recs_a, recs_b):
    """the oracle: the machine positions of the absolute and of the relative run, vertex by vertex; returns the number of motions"""
    sa, sb = machine_positions(recs_a), machine_positions(recs_b)
    outs_a = [parse_record(r)["out"] for r in recs_a]
    outs_b = [parse_record(r)["out"] for r in recs_b]
    if len(sa) != len(sb):
        R.fail(case, f"absolute run makes {len(sa)} motions, relative run {len(sb)}", tag="count")
    else:
        for j, ((pa, _), (pb, nrel)) in enumerate(zip(sa, sb)):
            tol = Fraction(1, 10**5) / 2 * (nrel + 2) + Fraction(1, 10**8)
            for a in "XYZ":
                if (pa[a] is None) != (pb[a] is None) or (pa[a] is not None and abs(pa[a] - pb[a]) > tol):
                    R.fail(case, f"vertex {j}: absolute run at {a}={pa[a] and float(pa[a])}, relative run at {pb[a] and float(pb[a])}", tag="vertex")
                    break
            else:
                continue
            break
    if any(o != "ok" for o in outs_a) != any(o != "ok" for o in outs_b):
        R.fail(case, f"one run raised, the other did not: {set(outs_a)} vs {set(outs_b)}", tag="outcome")
    return len(sa)


def run_case(R, path, label, xf=None):
    la, lb = lines_for(path, False, xf), lines_for(path, True, xf)
    A = run_impl_any(la)
    B = run_impl_any(lb)
    case = {"absolute": la, "relative": lb}
    if A[2].last_trace_error if hasattr(A[2], "last_trace_error") else None:
        R.count("trace-error:" + str(A[2].last_trace_error))
    nm = judge(R, case, A[1], B[1])
    if xf is not None:
        # the builder model has no transformer: implementation + oracle only
        R.case({"absolute": la, "relative": lb, "motions": nm}, nontrivial=nm >= 3, validated=False)
        R.count(label, "xf-pairs(impl+oracle only)", *["xf:" + o[0] for o in xf[0]],
                *["seg:" + (s[0] if s[0] != "ctxshape" else f"ctxshape:{s[1][0]}") for s in path[1]])
        return
    # both runs through the model
    model = bc.run_model([A[0], B[0]])
    for (lines, recs, _), mrecs, which in ((A, model[0], "absolute"), (B, model[1], "relative")):
        for i, (ir, mr) in enumerate(zip(recs, mrecs)):
            bad = bc.diff(ir, mr, KEYS, False)
            if bad:
                R.disagree(f"builder[{','.join(bad)}]/{which}", {"history": lines[: i + 1]},
                           {k: parse_record(ir).get(k) for k in bad}, {k: parse_record(mr).get(k) for k in bad}, step=i)
                break
    R.case({"absolute": la, "relative": lb, "motions": nm}, nontrivial=nm >= 3)
    R.count(label, *["seg:" + (s[0] if s[0] != "ctxshape" else f"ctxshape:{s[1][0]}") for s in path[1]])


def run(R: core.Run):
    R.rule = ("random logical toolpaths (2-6 segments: moves, rapids, absolute-bypass moves, moves inside mode contexts, polyline, "
              "spline, arc, arc_radius, circle, helix, spiral, thread) from random starts, both directions, executed in absolute "
              "mode with coordinates and in relative mode with offsets; machine positions compared vertex by vertex; "
              "non-trivial = at least 3 motions; distinct by hash")
    R.assumptions = ["waypoints on the dyadic grid so that both runs hand the tracer identical absolute parameters",
                     "relative output accumulates at most half a unit of the 5th decimal per word (tolerance grows with the count)"]
    R.rule += ("; plus the same pairs under a transform configured before the toolpath (1-3 of rotate by multiples of 90 deg / exact "
               "right-angle block / translate / scale / mirror / set_pivot): random toolpaths and rectilinear one-axis-at-a-time "
               "toolpaths on a small lattice - implementation and oracle only")
    R.assumptions.append("under a transform the toolpath begins with an all-axes absolute-bypass move to its start (machine and "
                         "builder agree from there on); the model is not consulted for these pairs")
    R.rule += ("; plus pairs of runs on the base class GCodeCore (moves, rapids, absolute-bypass moves, mode contexts, the run's mode "
               "selected and re-selected by enum member / documented value / look-alike spellings the tree accepts) - implementation "
               "and oracle only")
    R.assumptions.append("on the base class a waypoint is handed over as an offset exactly while the object's distance_mode reports "
                         "relative; a spelling refused with ValueError is skipped; the model is not consulted for these pairs")
    for ops, path in XF_CORPUS:
        run_case(R, path, "corpus-xf", (ops, None))
    for path in CORE_CORPUS:
        run_core_case(R, path, "corpus-core")
    for _ in range(R.n(200, 4000)):
        run_core_case(R, gen_core_path(R), "random-core")
    for _ in range(R.n(250, 5000)):
        run_case(R, gen_path(R), "random")
    r = R.rng
    for _ in range(R.n(120, 2500)):
        path, unit = gen_lattice_path(R)
        preset = tuple(unit * r.randint(-2, 2) for _ in range(3)) if r.random() < 0.3 else None
        run_case(R, path, "lattice-xf", (gen_xform(r, unit), preset))
    for _ in range(R.n(40, 1000)):
        path = no_bypass(gen_path(R))
        preset = (fr(r), fr(r), fr(r)) if r.random() < 0.3 else None
        run_case(R, path, "random-xf", (gen_xform(r), preset))
    return {}, {}


def replay(data):
    fl = data.get("failure") or data.get("first") or {}
    case = fl.get("case") or {}
    bad = 0
    for which in ("absolute", "relative"):
        if which in case:
            lines, recs, im = run_impl_any(case[which])
            print(which, len(machine_positions(recs)), "motions; last:", machine_positions(recs)[-1:] )
    if "history" in case:
        return bc.replay(data, KEYS)
    if "absolute" in case:
        a = machine_positions(run_impl_any(case["absolute"])[1])
        b = machine_positions(run_impl_any(case["relative"])[1])
        bad = len(a) != len(b) or any(abs((pa[x] or 0) - (pb[x] or 0)) > Fraction(1, 100) for (pa, _), (pb, _) in zip(a, b) for x in "XYZ")
    return 1 if bad else 0

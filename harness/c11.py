"""C11 - a toolpath is the same in relative and absolute distance mode.

Theorems: Props/C11.lean (on Model/Builder.lean).  Each case is one logical toolpath (absolute waypoints and
shapes on the dyadic grid) executed twice on the real builder - in absolute mode with coordinates, in relative
mode with the corresponding offsets - and the two machine-position sequences, reconstructed from the emitted
bytes by an independent interpreter, are compared vertex by vertex.  Both runs also go through the model."""
from __future__ import annotations

from fractions import Fraction

from . import builder_common as bc
from . import core
from .builder_impl import parse_record, show

PROP = "C11"
KEYS = bc.MOTION_KEYS
G = 32


def fr(r, lo=-8, hi=8):
    return Fraction(r.randint(lo * G, hi * G), G)


def gen_path(R):
    """list of segments: (kind, absolute target (x,y,z) or None, extra) - all on the grid"""
    r = R.rng
    start = (fr(r), fr(r), fr(r))
    segs = []
    cur = start
    for _ in range(r.randint(2, 6)):
        k = r.choice(["move", "rapid", "moveabs", "rapidabs", "polyline", "arc", "circle", "helix", "spiral", "thread",
                      "arc_radius", "spline", "ctx", "ctxraise", "parametric", "ctxnest", "dwellctx", "ctxshape", "ctxshape"])
        wrap = None
        if k == "ctxshape":
            # an interpolated shape traced inside a mode context (the context may or may not switch the mode)
            wrap = r.choice(["abs", "rel"])
            k = r.choice(["arc", "circle", "helix", "spiral", "thread", "arc_radius", "spline", "polyline"])
        n_before = len(segs)
        if k in ("move", "rapid", "moveabs", "rapidabs"):
            t = tuple(fr(r) if r.random() < 0.7 else None for _ in range(3))
            if all(v is None for v in t):
                t = (fr(r), None, None)
            segs.append((k, t, None))
            cur = tuple(c if v is None else v for c, v in zip(cur, t))
        elif k in ("polyline", "spline"):
            pts = [(fr(r), fr(r), fr(r)) for _ in range(r.randint(2, 4))]
            segs.append((k, pts, None))
            cur = pts[-1]
        elif k == "arc":
            rad = Fraction(r.randint(1, 6))
            c = (cur[0] + rad, cur[1])                      # centre to the right of the start
            t = (c[0], c[1] + rad * r.choice([1, -1]), cur[2] + fr(r, -2, 2))   # quarter/three-quarter turn
            segs.append((k, t, (rad, Fraction(0))))
            cur = t
        elif k == "circle":
            segs.append((k, None, (Fraction(r.randint(1, 5)), Fraction(r.randint(-3, 3)))))
        elif k in ("helix", "spiral"):
            t = (cur[0] + fr(r, 1, 5), cur[1] + fr(r, 1, 5), cur[2] + fr(r, -3, 3))
            segs.append((k, t, ((fr(r, 1, 3), fr(r, -2, 2)) if k == "helix" else None, r.randint(1, 2))))
            cur = t
        elif k == "thread":
            t = (cur[0] + fr(r, 1, 4), cur[1] + fr(r, 1, 4), cur[2] + fr(r, -5, 5))
            segs.append((k, t, Fraction(r.randint(1, 3))))
            cur = t
        elif k == "arc_radius":
            t = (cur[0] + fr(r, 1, 4), cur[1] + fr(r, 1, 4))
            segs.append((k, t, Fraction(r.choice([-1, 1]) * r.randint(7, 12))))
            cur = (t[0], t[1], cur[2])
        elif k == "parametric":
            p0 = (cur[0] + fr(r, -2, 2), cur[1] + fr(r, -2, 2), cur[2] + fr(r, -1, 1))   # lead-in gap: f(0) != position
            p1 = (p0[0] + fr(r, 1, 6), p0[1] + fr(r, -6, 6), p0[2] + fr(r, -2, 2))
            segs.append((k, p1, p0))
            cur = p1
        elif k == "ctxnest":
            # a mode context holding a move, an absolute-bypass move (a nested absolute_mode()) and another move
            t1, t2, t3 = ((fr(r), fr(r), fr(r)) for _ in range(3))
            segs.append(("ctxnest", (t1, t2, t3), r.choice(["abs", "rel"])))
            cur = t3
        elif k == "dwellctx":
            # a zero-length move, then a move to the absolute point whose coordinates equal that move's relative arguments
            segs.append(("dwellctx", (Fraction(0), Fraction(0), None), None))
            cur = (Fraction(0), Fraction(0), cur[2])
        elif k == "ctxraise":
            # a mode context whose body raises (a waypoint outside the axes box), caught by the caller, who carries on
            t = (fr(r), fr(r), fr(r))
            segs.append(("ctxraise", t, r.choice(["abs", "rel"])))
            cur = t
        else:
            t = (fr(r), fr(r), fr(r))
            segs.append(("ctx", t, r.choice(["abs", "rel"])))   # a move inside a mode context
            cur = t
        if wrap and len(segs) == n_before + 1:
            segs[-1] = ("ctxshape", segs[-1], wrap)
    path = (start, segs, r.choice(["cw", "ccw"]), Fraction(r.choice([16, 32, 64]), G))
    if r.random() < 0.35 and not any(s[0] == "dwellctx" or (s[0] == "ctxshape" and s[1][0] == "dwellctx") for s in segs):
        # the same toolpath far from the origin, inside an axes box that holds every waypoint but none of the (small)
        # relative offsets: a bounds check applied to what is *emitted* instead of to the target refuses one mode only
        D = r.choice([(512, 768, 384), (-640, 448, -320), (320, -704, 576)])
        path = shift_path(path, tuple(Fraction(d) for d in D))
    return path


def shift_path(path, D):
    start, segs, direction, res = path[:4]
    sh = lambda t: tuple(None if v is None else v + d for v, d in zip(t, D))

    def one(seg):
        k, t, extra = seg[:3]
        if k == "ctxshape":
            return (k, one(t), extra)
        if k in ("polyline", "spline"):
            return (k, [sh(p) for p in t], extra)
        if k == "circle":
            return seg
        if k == "parametric":
            return (k, sh(t), sh(extra))
        if k == "ctxnest":
            return (k, tuple(sh(p) for p in t), extra)
        return (k, sh(t), extra) + tuple(seg[3:])
    box = tuple(d - 200 for d in D) + tuple(d + 200 for d in D)
    return (sh(start), [one(s) for s in segs], direction, res, box)


def lines_for(path, relative: bool):
    start, segs, direction, res = path[:4]
    box = path[4] if len(path) > 4 else (-1000, -1000, -1000, 1000, 1000, 1000)
    out = ["boundsaxes " + " ".join(show(Fraction(v)) for v in box),
           "setaxis x=%s y=%s z=%s" % tuple(show(v) for v in start), "dir " + direction, "res " + show(res)]
    if relative:
        out.append("dist rel")
    cur = list(start)

    def arg(t, rel):
        """absolute target -> argument in the given mode (None stays None)"""
        return [None if v is None else (v - c if rel else v) for v, c in zip(t, cur)]

    def pt(vals):
        return " ".join(f"{a}={show(v)}" for a, v in zip("xyz", vals) if v is not None)

    todo = []
    for seg in segs:
        if seg[0] == "ctxshape":
            todo += [("_enter", seg[2], None), seg[1] + (seg[2] == "rel",), ("_exit", None, None)]
        else:
            todo.append(seg)
    for item in todo:
        k, t, extra = item[:3]
        outer = relative
        if len(item) > 3:
            relative = item[3]          # the shape is requested in the context's mode
        if k == "_enter":
            out.append("enter " + t)
        elif k == "_exit":
            out.append("exit")
        elif k in ("move", "rapid"):
            out.append(f"{k} {pt(arg(t, relative))}")
            cur = [c if v is None else v for c, v in zip(cur, t)]
        elif k in ("moveabs", "rapidabs"):
            out.append(f"{k} {pt(t)}")
            cur = [c if v is None else v for c, v in zip(cur, t)]
        elif k in ("polyline", "spline"):
            items = []
            for p in t:
                a = arg(p, relative)
                items.append(";".join(show(v) for v in a))
                cur = list(p)
            out.append(f"trace {k} " + " ".join(items))
        elif k == "arc":
            a = arg(t, relative)
            out.append("trace arc " + " ".join(show(v) for v in a) + " " + " ".join(show(v) for v in extra))
            cur = list(t)
        elif k == "circle":
            out.append("trace circle " + " ".join(show(v) for v in extra))
        elif k == "helix":
            a = arg(t, relative)
            out.append("trace helix " + " ".join(show(v) for v in a) + " " + " ".join(show(v) for v in extra[0]) + f" {extra[1]}")
            cur = list(t)
        elif k == "spiral":
            a = arg(t, relative)
            out.append("trace spiral " + " ".join(show(v) for v in a) + f" {extra[1]}")
            cur = list(t)
        elif k == "thread":
            a = arg(t, relative)
            out.append("trace thread " + " ".join(show(v) for v in a) + " " + show(extra))
            cur = list(t)
        elif k == "arc_radius":
            a = arg(t + (None,), relative)[:2]
            out.append("trace arc_radius " + " ".join(show(v) for v in a) + " " + show(extra))
            cur = [t[0], t[1], cur[2]]
        elif k == "parametric":
            out.append("trace parametric " + ";".join(show(v) for v in extra) + " " + ";".join(show(v) for v in t))
            cur = list(t)
        elif k == "ctxnest":
            inner_rel = extra == "rel"
            t1, t2, t3 = t
            out.append("enter " + extra)
            out.append("move " + pt(arg(t1, inner_rel)))
            cur = list(t1)
            out.append("moveabs " + pt(t2))
            cur = list(t2)
            out.append("move " + pt(arg(t3, inner_rel)))
            cur = list(t3)
            out.append("exit")
        elif k == "dwellctx":
            out.append("move " + pt(arg((cur[0], cur[1], None), relative)) + " F:600")     # stays where it is
            out.append("enter abs")
            out.append("move x=0 y=0")
            out.append("exit")
            cur = [Fraction(0), Fraction(0), cur[2]]
        elif k == "ctxraise":
            inner_rel = extra == "rel"
            out.append("enter " + extra)
            out.append("move x=4000")          # outside the +-1000 box configured below: raises inside the block
            out.append("exitraise")
            out.append("move " + pt(arg(t, relative)))
            cur = list(t)
        elif k == "ctx":
            inner_rel = extra == "rel"
            out.append("enter " + extra)
            out.append("move " + pt(arg(t, inner_rel)))
            out.append("exit")
            cur = list(t)
        relative = outer
    return out


def machine_positions(recs):
    """independent interpreter: position after every motion statement, with the error bound accumulated by rounding"""
    pos = {"X": None, "Y": None, "Z": None}
    rel = False
    seq = []
    nrel = 0
    for rec in recs:
        r = parse_record(rec)
        for s in ([] if r["stmts"] == "-" else r["stmts"].split(";")):
            toks = [] if s == "_" else s.split(",")
            codes = {t for t in toks if ":" not in t}
            words = {t.split(":")[0]: Fraction(t.split(":")[1]) for t in toks if ":" in t}
            if "G90" in codes:
                rel = False
            elif "G91" in codes:
                rel = True
            elif "G92" in codes:
                for a in "XYZ":
                    if a in words:
                        pos[a] = words[a]
            elif codes & {"G0", "G1"}:
                for a in "XYZ":
                    if a in words:
                        pos[a] = (None if pos[a] is None else pos[a] + words[a]) if rel else words[a]
                nrel += 1 if rel else 0
                seq.append((dict(pos), nrel))
    return seq


def run_case(R, path, label):
    la, lb = lines_for(path, False), lines_for(path, True)
    A = bc.run_impl(la)
    B = bc.run_impl(lb)
    sa, sb = machine_positions(A[1]), machine_positions(B[1])
    case = {"absolute": la, "relative": lb}
    outs_a = [parse_record(r)["out"] for r in A[1]]
    outs_b = [parse_record(r)["out"] for r in B[1]]
    if A[2].last_trace_error if hasattr(A[2], "last_trace_error") else None:
        R.count("trace-error:" + str(A[2].last_trace_error))
    if len(sa) != len(sb):
        R.fail(case, f"absolute run makes {len(sa)} motions, relative run {len(sb)}", tag="count")
    else:
        for j, ((pa, _), (pb, nrel)) in enumerate(zip(sa, sb)):
            tol = Fraction(1, 10**5) / 2 * (nrel + 2) + Fraction(1, 10**8)
            for a in "XYZ":
                if (pa[a] is None) != (pb[a] is None) or (pa[a] is not None and abs(pa[a] - pb[a]) > tol):
                    R.fail(case, f"vertex {j}: absolute run at {a}={pa[a] and float(pa[a])}, relative run at {pb[a] and float(pb[a])}", tag="vertex")
                    break
            else:
                continue
            break
    if any(o != "ok" for o in outs_a) != any(o != "ok" for o in outs_b):
        R.fail(case, f"one run raised, the other did not: {set(outs_a)} vs {set(outs_b)}", tag="outcome")
    # both runs through the model
    model = bc.run_model([A[0], B[0]])
    for (lines, recs, _), mrecs, which in ((A, model[0], "absolute"), (B, model[1], "relative")):
        for i, (ir, mr) in enumerate(zip(recs, mrecs)):
            bad = bc.diff(ir, mr, KEYS, False)
            if bad:
                R.disagree(f"builder[{','.join(bad)}]/{which}", {"history": lines[: i + 1]},
                           {k: parse_record(ir).get(k) for k in bad}, {k: parse_record(mr).get(k) for k in bad}, step=i)
                break
    R.case({"absolute": la, "relative": lb, "motions": len(sa)}, nontrivial=len(sa) >= 3)
    R.count(label, *["seg:" + (s[0] if s[0] != "ctxshape" else f"ctxshape:{s[1][0]}") for s in path[1]])


def run(R: core.Run):
    R.rule = ("random logical toolpaths (2-6 segments: moves, rapids, absolute-bypass moves, moves inside mode contexts, polyline, "
              "spline, arc, arc_radius, circle, helix, spiral, thread) from random starts, both directions, executed in absolute "
              "mode with coordinates and in relative mode with offsets; machine positions compared vertex by vertex; "
              "non-trivial = at least 3 motions; distinct by hash")
    R.assumptions = ["waypoints on the dyadic grid so that both runs hand the tracer identical absolute parameters",
                     "relative output accumulates at most half a unit of the 5th decimal per word (tolerance grows with the count)"]
    for _ in range(R.n(250, 5000)):
        run_case(R, gen_path(R), "random")
    return {}, {}


def replay(data):
    fl = data.get("failure") or data.get("first") or {}
    case = fl.get("case") or {}
    bad = 0
    for which in ("absolute", "relative"):
        if which in case:
            lines, recs, im = bc.run_impl(case[which])
            print(which, len(machine_positions(recs)), "motions; last:", machine_positions(recs)[-1:] )
    if "history" in case:
        return bc.replay(data, KEYS)
    if "absolute" in case:
        a = machine_positions(bc.run_impl(case["absolute"])[1])
        b = machine_positions(bc.run_impl(case["relative"])[1])
        bad = len(a) != len(b) or any(abs((pa[x] or 0) - (pb[x] or 0)) > Fraction(1, 100) for (pa, _), (pb, _) in zip(a, b) for x in "XYZ")
    return 1 if bad else 0

"""C18 - device reports are parsed into the readings the caller asks for.

Model: lean/GscribModel/Model/Report.lean (driver mode `report`); theorems: Props/C18.lean.
Implementation: a real `PrintrunWriter` (directly, or as the delegate of a `SerialWriter` /
`SocketWriter`) that is NOT connected to any device; report lines are handed to its receive
callback `_on_device_message` (the way tests/test_printrun_writer.py drives the writer) and the
readings are read back with the public `get_parameter`.

Two correspondences per run:
  (a) the model's scanner `scan` against `VALUE_PATTERN.findall` of the tree under test on
      >= 10^5 adversarial strings (this validates the regex model the theorems rest on);
  (b) rendered abstract reports (Marlin position / temperature, Grbl status in every machine state
      - Alarm, Hold:n, Door:n, any letter case -, Grbl probe, free mixes of their tokens, reading-less
      `[MSG:..]` / `echo:` / `//` lines; the words error / alarm / !! appear inside them as plain text)
      and error lines (those words at the START, any case, also in front of a complete report)
      delivered in sequences: acknowledgement, error and every reading compared with
      the model after every line, and with an oracle that computes "first value per letter" from the
      abstract report (never from the model).

  (c) end to end: a real `SerialWriter` (fake port of sim_c16) or `SocketWriter` (its localhost TCP device) CONNECTED to a
      scripted device that reports at every stage of a session - before it has read anything (auto-reports, a status
      queued ahead of the greeting), as the line that proves the firmware alive (`ok T:.. B:..` answering the connect
      probe, a ` T:..` auto-report), right behind it while the handshake is still running, and in answer to statements
      the caller writes; after each stage `get_parameter` on every letter, judged by the same first-value oracle over
      the whole session and compared with the model's readings after the same lines.  Over the socket a share of the
      reports reaches the host in TWO TCP segments - cut inside the line, mostly inside a number - with a pause longer
      than the reader's `select` time-out between them (a serial-to-wifi bridge forwarding UART bytes as they trickle in,
      a busy board pausing mid-line), at every stage of the session: it is still ONE report, judged and modelled as the
      line the device sent.

Ambient configuration: a share of the sequences of (b) is delivered with Python's `logging` configured the way an
application tracing a session would have it (root / package / module logger at DEBUG, INFO or WARNING, a handler that
formats the records into memory or one that drops them, switched on before the writer exists or between two lines).
The readings must not depend on it; the model has no notion of logging, its records are the same for every
configuration.  `logging_state()` puts every logger level / handler list back, also on exceptions.
"""
from __future__ import annotations

import contextlib
import io
import logging
import re
import signal
from fractions import Fraction

from . import core

PROP = "C18"
MODE = "report"
AXES = "XYZABC"


def run_model_par(lines, jobs=6):
    """`core.run_model` on several driver processes at once (the records do not depend on each other)."""
    if len(lines) < 2000:
        return core.run_model(MODE, lines)
    from concurrent.futures import ThreadPoolExecutor

    size = -(-len(lines) // jobs)
    parts = [lines[a:a + size] for a in range(0, len(lines), size)]
    with ThreadPoolExecutor(len(parts)) as ex:
        outs = list(ex.map(lambda part: core.run_model(MODE, part), parts))
    return [o for part in outs for o in part]


def cps(s: str) -> str:
    return "_".join(format(ord(c), "x") for c in s)


# ------------------------------------------------------------------ abstract reports (Python twin of Model/Report.lean)
def dec_text(d):
    neg, ip, fp = d
    return ("-" if neg else "") + ip + ("" if fp is None else "." + fp)


def dec_value(d) -> Fraction:
    neg, ip, fp = d
    v = Fraction(int(ip) if ip else 0)
    if fp:
        v += Fraction(int(fp), 10 ** len(fp))
    return -v if neg else v


def dec_proto(d):
    neg, ip, fp = d
    return ("m" if neg else "p") + ip + ("" if fp is None else "." + fp)


POS_NAMES = {"m": "MPos", "w": "WPos", "p": "PRB"}


def tok_text(t):
    k = t[0]
    if k == "L":
        return f"{t[1]}:{dec_text(t[2])}"
    if k == "P":
        s = POS_NAMES[t[1]] + ":" + ",".join(dec_text(d) for d in t[2])
        return s + ("" if t[3] is None else ":" + ("1" if t[3] else "0"))
    if k == "F":
        return "FS:" + dec_text(t[1]) + "," + dec_text(t[2])
    if k == "O":
        return t[1] + ":" + ",".join(dec_text(d) for d in t[2])
    return t[1]


def tok_proto(t):
    k = t[0]
    if k == "L":
        return f"L{cps(t[1])}={dec_proto(t[2])}"
    if k == "P":
        return f"P{t[1]}{'' if t[3] is None else ('1' if t[3] else '0')}=" + ",".join(dec_proto(d) for d in t[2])
    if k == "F":
        return "F=" + dec_proto(t[1]) + "," + dec_proto(t[2])
    if k == "O":
        return f"O{cps(t[1])}=" + ",".join(dec_proto(d) for d in t[2])
    return "N" + cps(t[1])


def rep_body(r):
    return ("ok " if r["ok"] else "") + (r["open"] or "") + r["sep"].join(tok_text(t) for t in r["toks"]) + (r["close"] or "")


def rep_line(r):
    return r["lead"] + rep_body(r) + r["trail"]


def rep_proto(r):
    return (f"R lead={cps(r['lead'])} ok={1 if r['ok'] else 0} open={cps(r['open']) if r['open'] else '-'} sep={cps(r['sep'])} "
            f"close={cps(r['close']) if r['close'] else '-'} trail={cps(r['trail'])} toks=" + ";".join(tok_proto(t) for t in r["toks"]))


def rep_mentions(r):
    """The oracle's reading of a report: (letter, value) pairs in order of appearance."""
    status = (not r["ok"]) and r["open"] == "<"
    out = []
    for t in r["toks"]:
        if t[0] == "L":
            out.append((t[1], dec_value(t[2])))
        elif t[0] == "P":
            out += list(zip(AXES, (dec_value(d) for d in t[2])))
        elif t[0] == "F" and status:
            out += [("F", dec_value(t[1])), ("S", dec_value(t[2]))]
    return out


def first_values(r):
    fv = {}
    for L, v in rep_mentions(r):
        fv.setdefault(L, v)
    return fv


# ------------------------------------------------------------------ generators
def gen_dec(rng, kind="any"):
    neg = rng.random() < 0.3
    if kind == "int":
        return (neg and rng.random() < 0.5, str(rng.randint(0, 20000)), None)
    r = rng.random()
    nd = rng.choice([1, 1, 2, 3, 3, 5])
    ip = "".join(rng.choice("0123456789") for _ in range(nd))
    if r < 0.15:
        return (neg, ip, None)
    if r < 0.20:
        return (neg, ip, "")  # "5."
    fp = "".join(rng.choice("0123456789") for _ in range(rng.choice([1, 2, 2, 3, 3, 4])))
    if r < 0.25:
        return (neg, "", fp)  # ".5"
    return (neg, ip, fp)


# the words the dispatch of `_on_device_message` looks for at the START of a line; anywhere else in a line they are
# ordinary text (a Grbl report in the Alarm state, a `[MSG:…]` line, a Marlin `echo:` line that talks about errors)
ERR_PREFIXES = ("error", "alarm", "!!")
ERRWORDS = ["error", "Error", "ERROR", "alarm", "Alarm", "ALARM", "!!", "aLaRm", "eRRoR", "error:", "Error:", "ALARM:", "alarm:",
            "errors", "Alarmed", "NoError", "!!!", "(error)", "Alarm!", "alarm2", "ERR", "!"]
NOISE = ["Count", "/210.0", "/60.0", "@:127", "B@:0", "Idle", "Run", "Jog", "Pn:XYZ", "A:SFM", "W:?", "echo:busy",
         "//", "T", "X:", ":5", "busy:", "1", "x", "Home", "@:0", "-", ".", "a:b", "T:", "E:x"] + ERRWORDS
OTHER_KEYS = ["WCO", "Ov", "Bf", "Ln", "T0", "T1", "Hold", "Door", "mpos", "fs", "Fs", "PRb", "XY", "B1", "00",
              "Alarm", "ALARM", "error", "Err"]
LETTERS = "XYZEABCFSTPRUVW"


def pad(rng):
    return rng.choice(["", "", "", " ", "\n", "\r\n", "\t ", "  "]), rng.choice(["", "\n", "\n", "\r\n", " ", " \n"])


def errword_inside(rng, toks, p, first=1):
    """With probability `p` put an error word (plain text for the parser) between the tokens, never before `toks[first]`."""
    if rng.random() < p:
        toks.insert(rng.randint(first, len(toks)), ("N", rng.choice(ERRWORDS)))
    return toks


def starts_like_error(r):
    """Python twin of `errPrefix (lower r.body)` in `Report.wf`: such a line is an error line, not a report."""
    return rep_body(r).lower().startswith(ERR_PREFIXES)


def gen_marlin_pos(rng):
    toks = [("L", a, gen_dec(rng)) for a in "XYZE"]
    if rng.random() < 0.3:
        rng.shuffle(toks)
    if rng.random() < 0.2:
        toks = toks[: rng.randint(1, 4)]
    if rng.random() < 0.85:
        toks.append(("N", "Count"))
        toks += [("L", a, gen_dec(rng, "int")) for a in "XYZ"]
    errword_inside(rng, toks, 0.12)
    lead, trail = pad(rng)
    return {"family": "marlin-pos", "lead": lead, "ok": rng.random() < 0.25, "open": None, "sep": " ", "close": None, "trail": trail, "toks": toks}


def gen_marlin_temp(rng):
    toks = [("L", "T", gen_dec(rng)), ("N", "/" + dec_text(gen_dec(rng)).lstrip("-")), ("L", "B", gen_dec(rng)),
            ("N", "/" + dec_text(gen_dec(rng)).lstrip("-"))]
    if rng.random() < 0.4:
        toks += [("O", "T0", [gen_dec(rng)]), ("N", "/0.0"), ("O", "T1", [gen_dec(rng)]), ("N", "/0.0")]
    if rng.random() < 0.3:
        toks += [("L", "C", gen_dec(rng)), ("N", "/0.0")]
    toks += [("N", "@:127"), ("N", "B@:0")]
    if rng.random() < 0.2:
        toks.append(("L", "T", gen_dec(rng)))  # the hot-end again: the first value counts
    if rng.random() < 0.2:
        toks.append(("N", "W:?"))
    errword_inside(rng, toks, 0.12)
    lead, trail = pad(rng)
    return {"family": "marlin-temp", "lead": lead, "ok": rng.random() < 0.6, "open": None, "sep": " ", "close": None, "trail": trail, "toks": toks}


# every machine state of Grbl 1.1 (`Hold` and `Door` carry a sub-state digit), Alarm over-weighted: its name is an error word
GRBL_STATES = ["Idle", "Run", "Jog", "Home", "Check", "Sleep", "Alarm", "Alarm", "Alarm",
               "Hold:0", "Hold:1", "Door:0", "Door:1", "Door:2", "Door:3"]


def gen_grbl_state(rng):
    name, _, sub = rng.choice(GRBL_STATES).partition(":")
    r = rng.random()
    if r < 0.10:
        name = name.upper()
    elif r < 0.20:
        name = name.lower()
    elif r < 0.25:
        name = name.swapcase()
    if rng.random() < 0.04:
        sub = sub or str(rng.randint(0, 9))  # `Alarm:3`: not printed by Grbl 1.1, still a field the parser ignores
    return ("O", name, [(False, sub, None)]) if sub else ("N", name)


def gen_grbl_status(rng):
    n = rng.choice([3, 3, 3, 4, 6, 1, 7])
    fields = [("P", rng.choice("mw"), [gen_dec(rng) for _ in range(n)], None)]
    r = rng.random()
    if r < 0.6:
        fields.append(("F", gen_dec(rng, "int"), gen_dec(rng, "int")))
    elif r < 0.8:
        fields.append(("L", "F", gen_dec(rng, "int")))
    for key, k in (("WCO", 3), ("Ov", 3), ("Bf", 2), ("Ln", 1)):
        if rng.random() < 0.4:
            fields.append(("O", key, [gen_dec(rng) for _ in range(k)]))
    if rng.random() < 0.3:
        fields.append(("N", "Pn:XYZ"))
    if rng.random() < 0.3:
        fields.append(("N", "A:SFM"))
    if rng.random() < 0.15:
        fields.append(("P", "w", [gen_dec(rng) for _ in range(3)], None))  # a second position group: ignored
    rng.shuffle(fields)
    errword_inside(rng, fields, 0.12, first=0)
    state = gen_grbl_state(rng)
    lead, trail = pad(rng)
    return {"family": "grbl-status", "lead": lead, "ok": False, "open": "<", "sep": "|", "close": ">", "trail": trail, "toks": [state] + fields}


def gen_grbl_probe(rng):
    n = rng.choice([3, 3, 3, 4, 2])
    lead, trail = pad(rng)
    return {"family": "grbl-probe", "lead": lead, "ok": False, "open": "[", "sep": "|", "close": "]", "trail": trail,
            "toks": [("P", "p", [gen_dec(rng) for _ in range(n)], rng.random() < 0.8)]}


def gen_mixed(rng):
    toks = []
    for _ in range(rng.randint(1, 9)):
        r = rng.random()
        if r < 0.40:
            toks.append(("L", rng.choice(LETTERS + "XYZXYZ09"), gen_dec(rng)))
        elif r < 0.55:
            toks.append(("P", rng.choice("mwp"), [gen_dec(rng) for _ in range(rng.randint(1, 8))], rng.choice([None, None, True, False])))
        elif r < 0.68:
            toks.append(("F", gen_dec(rng), gen_dec(rng)))
        elif r < 0.80:
            toks.append(("O", rng.choice(OTHER_KEYS), [gen_dec(rng) for _ in range(rng.randint(1, 4))]))
        else:
            toks.append(("N", rng.choice(NOISE)))
    op, cl = rng.choice([(None, None), (None, None), ("<", ">"), ("<", ">"), ("[", "]"), ("(", ")"), ("<", None), (None, "]")])
    ok = rng.random() < 0.3
    sep = rng.choice([" ", " ", "|", "|", ";", "\t", "/"])
    # keep the line inside the families' frame conditions (checked again by the model's `wf`)
    if op is None and toks[0][0] == "N":
        toks[0] = ("L", "X", gen_dec(rng))
    if cl is None and toks[-1][0] == "N":
        toks.append(("L", "Y", gen_dec(rng)))
    lead, trail = pad(rng)
    r = {"family": "mixed", "lead": lead, "ok": ok, "open": op, "sep": sep, "close": cl, "trail": trail, "toks": toks}
    if not ok and starts_like_error(r):  # `error:5 X:1` is an error line, not a report (see gen_error_line)
        toks.insert(0, ("L", rng.choice("XYZT"), gen_dec(rng)))
    return r


# lines without readings that devices send between reports; the text is one noise token (the pattern finds nothing in it)
GRBL_MESSAGES = ["MSG:Reset to continue", "MSG:'$H'|'$X' to unlock", "MSG:Caution: Unlocked", "MSG:Enabled", "MSG:Disabled", "MSG:Check Door",
                 "MSG:Check Limits", "MSG:Pgm End", "MSG:Restoring defaults", "MSG:Sleeping", "MSG:Alarm lock", "MSG:Homing fail alarm",
                 "MSG:Soft limit error", "MSG:ALARM", "MSG:Error", "MSG:error: reset", "MSG:!! halted", "GC:G0 G54 G17 G21 G90 G94 M5 M9 T0 F0 S0",
                 "HLP:$$ $# $G $I $N $x=val $Nx=line $J=line $SLP $C $X $H ~ ! ? ctrl-x", "OPT:V,15,128", "echo:alarm", "Alarm", "error"]
PLAIN_MESSAGES = ["Grbl 1.1h ['$' for help]", "echo:busy: processing", "echo:busy: paused for user", "echo:Unknown command: \"M999\"", "echo:cold extrusion prevented",
                  "echo:SD card ok", "echo:Error checking disabled", "echo:Error:Printer halted", "echo:error", "echo: Alarm", "echo:; no error here",
                  "echo:Marlin 2.1.2", "echo:!! thermal runaway", "// action:cancel", "// Klipper state: Ready", "// Klipper state: Shutdown (error)",
                  "// !! not at the start", "//Alarm cleared", "//error", "start", "wait", "Resend: 7", "rs N7 error", "T:error", "X:alarm Y:!!",
                  "Unknown command: error", "$X to clear the alarm", "no error", "an alarm", "x!!", "(error)", "?!!", "[error]", "-error", ">alarm<"]


def gen_message(rng):
    """A line of the device that carries no reading (`[MSG:…]`, `echo:…`, `// …`), sometimes followed by readings."""
    if rng.random() < 0.45:
        op, cl, text = "[", "]", rng.choice(GRBL_MESSAGES)
    else:
        op, cl, text = None, None, rng.choice(PLAIN_MESSAGES)
    if rng.random() < 0.35:  # an error word somewhere after the first word
        ws = text.split(" ")
        ws.insert(rng.randint(1, len(ws)), rng.choice(ERRWORDS))
        text = " ".join(ws)
    if rng.random() < 0.25:
        text = rng.choice([text.upper(), text.lower(), text.swapcase()])
    toks = [("N", text)]
    if rng.random() < 0.3:
        toks += [("L", rng.choice("XYZTBEFS"), gen_dec(rng)) for _ in range(rng.randint(1, 3))]
    lead, trail = pad(rng)
    return {"family": "message", "lead": lead, "ok": False, "open": op, "sep": " ", "close": cl, "trail": trail, "toks": toks}


FAMILIES = [gen_marlin_pos, gen_marlin_temp, gen_grbl_status, gen_grbl_status, gen_grbl_probe, gen_mixed, gen_mixed, gen_message]
REPORT_FAMILIES = [gen_marlin_pos, gen_marlin_temp, gen_grbl_status, gen_grbl_status, gen_grbl_probe, gen_mixed]

ERROR_LINES = ["error: X:5 Y:6", "Error:Printer halted. kill() called! X:1", "ALARM:1", "alarm:2 MPos:9,9,9", "!! T:999", "  error:9\n", "ERROR X:0"]
GARBAGE = ["x:1 X:2", "X:1 x:2 X:3", "X:1.2.3 Y:5", "X:- Y:--1 Z:1-2", "<Idle|MPos:1,,2|FS:5>", "<Idle|FS:1,2,3|MPos:1,x,3>", "MPos:1,2,.,4", "ok", "OK X:1", "okay T:5",
           "", "   ", "wait", "echo:busy: processing", "X:1,2 Y:3", "FS:1,2", " <Idle|FS:7,8>", "ok <Idle|FS:7,8>", "X:1e5", "X:+5", "X: 5", "Xx:5 Y :6",
           "<Run|WPos:1,2,3,4,5,6,7,x|F:5>", "PRB:1,2:1", "[PRB:1,2,3,oops:1]", "MPos:5 mpos:6 WPOS:7", "X:1\x0b", "\x1cX:3\x1f", "FS:1,x", "<FS:1,x|FS:2,3>", "<FS:x,1|F:9>",
           "<Alarm|MPos:1,,2|FS:5>", "<ALARM|FS:1,2,3|MPos:1,x,3>", "<Alarm|MPos:1,2,3|FS:4,x>", "echo:Error X:1.2.3 Y:5", "[MSG:alarm x:1 X:2]", "x:1 error X:2",
           "ok error X:1", "OK ALARM:1 X:2", "okerror: X:3", "<!!|mpos:1,2,3|FS:7,8>", " \x1cAlarm X:1", "Alarm\x0bX:1", "<Alarm|MPos:1,2,3|FS:5,6", "erro r:1 X:1", "alar:1 m:2", "! ! X:5"]


ERROR_HEADS = ["error", "Error", "ERROR", "alarm", "Alarm", "ALARM", "!!", "eRRoR", "aLARM", "errors", "Alarmed", "!!!"]


def gen_error_line(rng):
    """A line that STARTS (after blanks) with error / alarm / !! in any case: an error line whatever follows, even a
    complete report (`Alarm|MPos:1,2,3|FS:5,6>`, `error: <Idle|MPos:…>`); it must change no reading."""
    if rng.random() < 0.3:
        return rng.choice(ERROR_LINES)
    head = rng.choice(ERROR_HEADS)
    r = rng.random()
    if r < 0.2:
        tail = rng.choice(["", ":1", ":9", ": 22", " 3", ":Printer halted. kill() called!", ": Unknown command", ":checksum mismatch, Last Line: 7"])
    else:
        tail = rng.choice(["", ":", ": ", " ", "|", ":3 ", ":3|", " ok ", "<", " <", "//"]) + rep_body(rng.choice(REPORT_FAMILIES)(rng))
    lead, trail = pad(rng)
    return lead + head + tail + trail


# ---- ambient configuration: how verbose the application has configured logging to be
LOG_LEVELS = ["DEBUG", "DEBUG", "DEBUG", "INFO", "WARNING"]


def gen_log_config(rng, n_items):
    """Levels for the root logger, the library's package logger and the writer's module logger (None = not set, the
    level is inherited), what the handler does with a record, and the line before which the application switches it on
    (0 = before the writer is created)."""
    cfg = {"root": rng.choice(["WARNING", "WARNING", "INFO", "DEBUG", "DEBUG"]),
           "package": rng.choice([None, None, None] + LOG_LEVELS),
           "module": rng.choice([None, None, None] + LOG_LEVELS),
           "sink": rng.choice(["stream", "stream", "null"]),
           "at": 0 if rng.random() < 0.6 else rng.randrange(n_items)}
    return cfg


def log_effective(cfg):
    return "quiet" if not cfg else (cfg.get("module") or cfg.get("package") or cfg.get("root") or "WARNING")


def gen_case(rng, p_log=0.4):
    """A sequence of lines for one writer: reports (oracle applies), error lines (oracle: nothing changes)."""
    items = []
    for _ in range(rng.choice([1, 1, 2, 2, 3, 4, 6])):
        if rng.random() < 0.12:
            items.append(("error", gen_error_line(rng)))
        elif items and rng.random() < 0.2:
            # the very same line again (auto-reports repeat verbatim), possibly after other reports in between
            items.append(rng.choice([it for it in items]))
        else:
            items.append(("report", rng.choice(FAMILIES)(rng)))
    case = {"via": rng.choice(["printrun", "printrun", "serial", "socket"]), "items": items}
    if rng.random() < p_log:
        case["log"] = gen_log_config(rng, len(items))
    return case


def gen_garbage_case(rng):
    items = []
    for _ in range(rng.randint(1, 5)):
        r = rng.random()
        if r < 0.5:
            items.append(("raw", rng.choice(GARBAGE)))
        elif r < 0.7:
            line = rep_line(rng.choice(FAMILIES)(rng))
            k = rng.randrange(len(line) + 1)
            line = line[:k] + rng.choice(["", ":", ",", "-", " ", "X", "x:", "<", "ok"]) + line[k + rng.randint(0, 2):]
            items.append(("raw", line))
        elif r < 0.8:
            items.append(("error", gen_error_line(rng)))
        else:
            items.append(("report", rng.choice(FAMILIES)(rng)))
    case = {"via": "printrun", "items": items}
    if rng.random() < 0.3:
        case["log"] = gen_log_config(rng, len(items))
    return case


ERRWORD_RE = re.compile(r"error|alarm|!!", re.IGNORECASE)
VALUE_LIKE_RE = re.compile(r"[A-Za-z0-9]:[-0-9.]")


def word_case(w):
    return "bang" if w == "!!" else "lower" if w.islower() else "upper" if w.isupper() else "title" if w.istitle() else "mixed"


def report_tags(r):
    """Distribution keys of a report, computed from its content (not from how it was generated)."""
    tags = []
    if r["family"] == "grbl-status":
        name, _, sub = tok_text(r["toks"][0]).partition(":")
        tags.append("grbl-state:" + name.capitalize() + (":n" if sub else ""))
        if name != name.capitalize():
            tags.append("grbl-state-case:" + word_case(name))
    m = ERRWORD_RE.search(rep_body(r))
    if m:  # a well-formed report never starts with one: this is an error word inside a line that must be parsed
        tags += ["errword-inside-report", "errword-inside:" + r["family"], "errword-case:" + word_case(m.group())]
        if first_values(r):
            tags.append("errword-inside-report-with-readings")
    if not first_values(r):
        tags.append("report-without-readings")
    return tags


def error_line_tags(line):
    m = ERRWORD_RE.match(line.strip())
    tags = ["error-line-case:" + (word_case(m.group()) if m else "?")]
    if VALUE_LIKE_RE.search(line):
        tags.append("error-line-with-values")
    if line.strip()[len(m.group()) if m else 0:].lstrip(":| 0123456789").startswith("<"):
        tags.append("error-line-then-status-report")
    return tags


def case_letters(case):
    s = set("XYZEFSTB")
    for kind, it in case["items"]:
        if kind == "report":
            s.update(L for L, _ in rep_mentions(it))
            s.update(t[1] for t in it["toks"] if t[0] == "L")
        else:
            s.update(ch.upper() for ch in it if ch.isascii() and ch.isalpha() and ch.upper() in LETTERS)
    out = ""
    for L in sorted(s):
        out += L + (L.lower() if L.lower() != L else "")
    return out


def item_line(item):
    return rep_line(item[1]) if item[0] == "report" else item[1]


def case_repr(case):
    out = {"via": case["via"], "lines": [item_line(it) for it in case["items"]], "items": [list(it) for it in case["items"]]}
    if case.get("log"):
        out["log"] = dict(case["log"])
    return out


# ------------------------------------------------------------------ implementation adapter
def make_writer(via):
    from gscrib.writers import PrintrunWriter, SerialWriter, SocketWriter

    saved = {s: signal.getsignal(s) for s in (signal.SIGTERM, signal.SIGINT)}
    try:
        if via == "serial":
            front = SerialWriter("/dev/null-not-a-port", 115200)
            back = front._writer_delegate
        elif via == "socket":
            front = SocketWriter("no-such-host.invalid", 9)
            back = front._writer_delegate
        else:
            front = back = PrintrunWriter(mode="serial", host="none", port="/dev/null-not-a-port", baudrate=115200)
    finally:
        for s, h in saved.items():
            signal.signal(s, h)
    return front, back


def frac_text(v):
    if v is None:
        return "-"
    if isinstance(v, bool) or not isinstance(v, (int, float)):
        return "?" + type(v).__name__
    if v != v or v in (float("inf"), float("-inf")):
        return "?" + repr(v)
    f = Fraction(v)
    return str(f.numerator) if f.denominator == 1 else f"{f.numerator}/{f.denominator}"


def _logger_chain(module_name):
    """The loggers whose level decides what `logging.getLogger(<module of the writer>)` lets through: root, the package,
    everything in between, the module."""
    parts = module_name.split(".")
    return [logging.getLogger()] + [logging.getLogger(".".join(parts[:k])) for k in range(1, len(parts) + 1)]


@contextlib.contextmanager
def logging_state(module_name="gscrib.writers.printrun_writer"):
    """Everything this harness touches in the global logging configuration is put back on exit (also on exceptions):
    level, handler list, `propagate` and `disabled` of the loggers of the chain, and `logging.disable`."""
    loggers = _logger_chain(module_name)
    saved = [(lg, lg.level, list(lg.handlers), lg.propagate, lg.disabled) for lg in loggers]
    saved_disable = logging.root.manager.disable
    try:
        yield loggers
    finally:
        for lg, level, handlers, propagate, disabled in saved:
            lg.handlers[:] = handlers
            lg.propagate = propagate
            lg.disabled = disabled
            lg.setLevel(level)  # also drops the cached isEnabledFor answers
        logging.disable(saved_disable)


def apply_log_config(cfg, loggers):
    """What an application does to trace a session: `basicConfig(stream=…, level=root)` and/or
    `getLogger("<package>" | "<module>").setLevel(…)`. Nothing reaches the console: root's handlers are replaced by one
    that formats every record into memory (`stream`) or one that drops it unformatted (`null`)."""
    root, package, module = loggers[0], loggers[1], loggers[-1]
    sink = logging.StreamHandler(io.StringIO()) if cfg.get("sink") == "stream" else logging.NullHandler()
    sink.setFormatter(logging.Formatter("%(asctime)s %(name)s %(levelname)s %(message)s"))
    root.handlers[:] = [sink]
    for lg in loggers[1:]:
        lg.setLevel(logging.NOTSET)
        lg.propagate = True
        lg.disabled = False
    root.setLevel(getattr(logging, cfg.get("root") or "WARNING"))
    if cfg.get("package"):
        package.setLevel(getattr(logging, cfg["package"]))
    if cfg.get("module"):
        module.setLevel(getattr(logging, cfg["module"]))


def impl_run(case, letters):
    from gscrib.excepts import DeviceError
    from gscrib.writers import PrintrunWriter

    cfg = case.get("log")
    with logging_state(PrintrunWriter.__module__) as loggers:
        if cfg and cfg.get("at", 0) <= 0:
            apply_log_config(cfg, loggers)
        front, back = make_writer(case["via"])
        recs, raw = [], []
        for k, item in enumerate(case["items"]):
            if cfg and k > 0 and cfg.get("at", 0) == k:
                apply_log_config(cfg, loggers)  # the application turns tracing on in the middle of a session
            back._ack_event.clear()
            back._on_device_message(item_line(item))
            e = back._device_error
            if e is None:
                err = "-"
            elif type(e) is DeviceError:
                err = cps(str(e))
            else:
                err = "!" + type(e).__name__
            vals = {L: front.get_parameter(L) for L in letters}
            raw.append((back._ack_event.is_set(), err, vals))
            recs.append(f"ack={1 if back._ack_event.is_set() else 0} err={err} " + " ".join(f"{L}={frac_text(vals[L])}" for L in letters))
    return recs, raw


def model_to_double(rec):
    """The model holds the exact rational of the decimal text; the implementation the nearest double."""
    out = []
    for w in rec.split(" "):
        k, _, v = w.partition("=")
        if len(k) == 1 and v != "-":
            q = Fraction(v)
            w = k + "=" + frac_text(float(q))
        out.append(w)
    return " ".join(out)


# ------------------------------------------------------------------ oracle (property on the implementation's output)
def oracle(case, letters, raw):
    """get_parameter after each report = first value of the letter in that report, else the earlier reading."""
    table = {}
    cfg = case.get("log")
    amb = "" if not cfg else (f" [logging: root={cfg.get('root')} package={cfg.get('package')} module={cfg.get('module')} "
                              f"handler={cfg.get('sink')} from line {cfg.get('at', 0)}]")
    for i, (item, (ack, err, vals)) in enumerate(zip(case["items"], raw)):
        if item[0] == "raw":
            return None  # no abstract report to judge by
        if item[0] == "report":
            r = item[1]
            for L, v in first_values(r).items():
                table[L] = float(v)
            if ack != r["ok"]:
                return ("ack", i, f"line {item_line(item)!r}: acknowledged={ack}, starts with ok={r['ok']}" + amb)
            if err != "-" and not any(k == "error" for k, _ in case["items"][:i]):
                return ("error", i, f"line {item_line(item)!r} raised a device error {err}" + amb)
        for L in letters:
            want = table.get(L.upper())
            got = vals[L]
            if (got is None) != (want is None) or (got is not None and (not isinstance(got, (int, float)) or got != want)):
                what = "first value in the report" if (item[0] == "report" and L.upper() in first_values(item[1])) else "earlier reading"
                return ("first-wins" if what.startswith("first") else "keeps", i,
                        f"after {item_line(item)!r}: get_parameter({L!r}) = {got!r}, expected {want!r} ({what})" + amb)
    return None


# ------------------------------------------------------------------ scanner vs re
SCAN_ALPHA = "XYZTBEFSab019:,.-+ |<>[]/@::,,..--é_\t"


def gen_scan_string(rng, reports):
    r = rng.random()
    if r < 0.75:
        return "".join(rng.choice(SCAN_ALPHA) for _ in range(rng.randint(0, 30)))
    line = rng.choice(reports)
    for _ in range(rng.randint(0, 3)):
        k = rng.randrange(len(line) + 1)
        line = line[:k] + rng.choice(["", ":", ",", "-", ".", " ", "X", "1", "|"]) + line[k + rng.randint(0, 1):]
    return line


def run_scanner(R, n):
    from gscrib.writers.printrun_writer import VALUE_PATTERN

    pool = [rep_line(rng_f(R.rng)) for rng_f in FAMILIES for _ in range(40)] + GARBAGE
    strs = [gen_scan_string(R.rng, pool) for _ in range(n)]
    out = run_model_par(["scan " + cps(s) if s else "scan" for s in strs])
    bad = 0
    for s, o in zip(strs, out):
        exp = ";".join(k + "=" + v for k, v in VALUE_PATTERN.findall(s))
        if exp != o:
            bad += 1
            R.disagree("scanner-vs-re", {"string": s}, exp, o)
    R.evaluations += n
    R.traces_validated += n
    R.dist["scan-strings"] += n
    R.dist["scan-strings-with-match"] += sum(1 for o in out if o)
    R.extra["scanner_vs_re"] = {"strings": n, "mismatches": bad, "with_at_least_one_match": sum(1 for o in out if o)}


# ------------------------------------------------------------------ reports
def run_reports(R, cases, label):
    lines, index = [], []
    for c in cases:
        letters = case_letters(c)
        c["_letters"] = letters
        index.append(len(lines))
        lines.append("d " + letters + " | " + " | ".join(cps(item_line(it)) for it in c["items"]))
        for it in c["items"]:
            if it[0] == "report":
                lines.append(rep_proto(it[1]))
    out = run_model_par(lines)
    for c, k in zip(cases, index):
        letters = c["_letters"]
        del c["_letters"]
        model_recs = [model_to_double(x) for x in out[k].split(" ; ")]
        j = k + 1
        for it in c["items"]:
            if it[0] != "report":
                continue
            r = it[1]
            f = dict(w.split("=", 1) for w in out[j].split(" "))
            j += 1
            # harness self-checks: the Lean renderer / spec and the Python twins describe the same report
            if f["wf"] != "1":
                raise core.Infra(f"generated report is not well-formed for the model: {rep_proto(r)}")
            if f["line"] != cps(rep_line(r)):
                raise core.Infra(f"renderers differ: python {rep_line(r)!r} lean {f['line']}")
            fv = ",".join(f"{L}:{frac_text_q(v)}" for L, v in first_values(r).items())
            if f["first"] != fv:
                raise core.Infra(f"first-value specs differ for {rep_line(r)!r}: python {fv} lean {f['first']}")
        impl_recs, raw = impl_run(c, letters)
        mentioned = set()
        for it in c["items"]:
            if it[0] == "report":
                mentioned.update(first_values(it[1]))
                R.count("family:" + it[1]["family"], "ok:" + str(it[1]["ok"]), *report_tags(it[1]))
            else:
                R.count("line:" + it[0], *(error_line_tags(it[1]) if it[0] == "error" else []))
        R.case(case_repr(c), nontrivial=len(mentioned) >= 2)
        R.count(label, "via:" + c["via"], f"lines:{len(c['items'])}", "logging:" + log_effective(c.get("log")))
        if c.get("log"):
            R.count("logging-handler:" + c["log"]["sink"], "logging-on:" + ("before-the-writer" if c["log"]["at"] <= 0 else "mid-session"))
            if log_effective(c["log"]) == "DEBUG" and any(it[0] == "report" and any(t[0] == "P" for t in it[1]["toks"])
                                                          for it in c["items"][max(0, c["log"]["at"]):]):
                R.count("logging:DEBUG-with-position-group")
        if impl_recs != model_recs:
            step = next(i for i, (a, b) in enumerate(zip(impl_recs, model_recs)) if a != b)
            R.disagree("deliver-report", case_repr(c), impl_recs[step], model_recs[step], step=step)
        verdict = oracle(c, letters, raw)
        if verdict:
            tag, i, msg = verdict
            R.fail(case_repr(c), msg, tag=tag, step=i)


def frac_text_q(q: Fraction):
    return str(q.numerator) if q.denominator == 1 else f"{q.numerator}/{q.denominator}"


# ------------------------------------------------------------------ end to end: a connected writer, a device that talks
# The sequences above hand lines to the writer's receive callback.  Here the lines travel the whole way: a real
# `SerialWriter` (on the fake port of sim_c16) or `SocketWriter` (on its localhost TCP device) connects to a scripted
# device that reports at every stage of a session -
#   hello : what the device says on its own before it has read anything (auto-reports switched on in an earlier session,
#           a Grbl / Marlin greeting somewhere among them),
#   probe : its answer to the first command it reads, the connect probe (a bare `ok` or an `ok T:.. B:..`),
#   after : more unasked reports right behind that answer, while the writer is still finishing its handshake,
#   stmts : statements written by the caller, each answered with reports and a closing `ok` (bare or leading a report);
# every other command the device reads (line-number resets of the handshake) gets a bare `ok`.
# After each stage - once the device HAS SENT the stage's last line - `get_parameter` is asked for every letter; the
# answer is polled for a grace period (a reading is judged once the reader thread had ample time to take the line in).
GREETINGS = ["start", "Grbl 1.1h ['$' for help]", "Grbl 1.1f ['$' for help]"]
E2E_STATEMENTS = ["M114", "M105", "G1 X1 F600", "G38.2 Z-5 F50", "M400", "G4 P1", "M114 R", "G0 Y2", "M119"]
E2E_GRACE = 1.5  # seconds a reading may lag behind the device's last line before it is judged
# prefixes that make the bundled sender treat a line as something else than a report (acknowledgement, error, resend
# request, greeting, debug chatter): an unasked report of this family never starts with one
SENDER_WORDS = ("ok", "error", "alarm", "!!", "resend", "rs", "start", "grbl", "debug_")


def gen_e2e_report(rng, ok):
    """A report as a device puts it on the wire: one line, no line break inside (the wire adds `\\n`), nothing in front
    of a leading `ok`; unasked reports never lead with `ok`."""
    while True:
        r = rng.choice([gen_marlin_pos, gen_marlin_temp, gen_marlin_temp, gen_mixed] if ok else REPORT_FAMILIES + [gen_marlin_temp])(rng)
        r["ok"] = ok
        r["lead"] = "" if ok else rng.choice(["", "", " ", " ", "  ", "\t "])
        r["trail"] = rng.choice(["", "", "", "\r", " ", " \r"])
        if not first_values(r):
            continue
        if not ok and rep_body(r).lower().startswith(SENDER_WORDS):
            continue
        return r


def gen_e2e_case(rng, via=None):
    def unasked(weights):
        return [("report", gen_e2e_report(rng, False)) for _ in range(rng.choice(weights))]

    def answer():
        # Marlin leads the report with the ok; Grbl (and Marlin for M114) sends the report, then a bare ok
        return [("report", gen_e2e_report(rng, True))] if rng.random() < 0.5 else unasked([0, 1, 1, 2]) + [("plain", "ok")]

    while True:
        hello = unasked([0, 1, 1, 2])
        if rng.random() < 0.5:
            hello.insert(rng.randint(0, len(hello)), ("plain", rng.choice(GREETINGS)))
        probe = unasked([0, 0, 1]) + ([("report", gen_e2e_report(rng, True))] if rng.random() < 0.5 else [("plain", "ok")])
        after = unasked([0, 1, 1, 2])
        if any(k == "report" for k, _ in hello + probe + after):
            break
    texts = rng.sample(E2E_STATEMENTS, rng.choice([1, 1, 2]))
    return {"e2e": True, "via": via or rng.choice(["serial", "socket"]), "hello": hello, "probe": probe, "after": after,
            "stmts": [{"stmt": t, "reply": answer()} for t in texts]}


# ---- a report that reaches the host in two TCP segments
# `case["splits"]` = [{"stage": k, "line": i, "cut": c, "pause": p}, …]: line i of stage k (indices of `e2e_stages`) is
# sent as text[:c], a pause of p seconds - longer than the 0.25 s `select` time-out of the socket reader -, then the rest
# with the newline.  Socket sessions only: the fake serial port hands over whole lines the way pyserial assembles them.
E2E_PLACES = ["probe", "stmt", "hello", "after"]  # the order in which the generated sessions take turns
E2E_SPLIT_PAUSE = (0.3, 0.8)


def e2e_places(case):
    """{place: [(stage, line index), …]} of the reports of a session"""
    out = {p: [] for p in E2E_PLACES}
    i = 0
    for tag in ("hello", "probe", "after"):
        for it in case[tag]:
            if it[0] == "report":
                out[tag].append((0, i))
            i += 1
    for k, s in enumerate(case["stmts"]):
        out["stmt"] += [(k + 1, i) for i, it in enumerate(s["reply"]) if it[0] == "report"]
    return out


def e2e_cut_points(r):
    """(cuts inside the number of a reading, other cuts inside the line) of a report's wire text: a cut c sends text[:c]
    first.  Computed from the abstract report (the spans of the decimals of its letter / position / FS tokens).  Every
    cut lies behind the first `:` of the report proper (behind a leading `ok`: whether a torn acknowledgement still is
    one is the sender's business, C16) and leaves at least one non-blank character for the second segment."""
    text = rep_line(r)
    pos = len(r["lead"]) + (3 if r["ok"] else 0) + len(r["open"] or "")
    body0 = pos
    inside = set()
    for n, t in enumerate(r["toks"]):
        tt = tok_text(t)
        decs = [t[2]] if t[0] == "L" else list(t[2]) if t[0] == "P" else [t[1], t[2]] if t[0] == "F" else []
        q = tt.index(":") + 1 if decs else 0
        for d in decs:
            w = len(dec_text(d))
            inside.update(range(pos + q + 1, pos + q + w))
            q += w + 1
        pos += len(tt) + len(r["sep"])
    if text[body0 - len(r["open"] or ""):] != rep_body(r)[3 if r["ok"] else 0:] + r["trail"]:
        raise core.Infra(f"cut points computed on another text than the wire's: {text!r}")
    lo = text.index(":", body0) + 1 if ":" in text[body0:] else body0 + 1
    hi = len(text.rstrip())
    num = [c for c in sorted(inside) if lo <= c < hi]
    other = [c for c in range(max(lo, 1), hi) if c not in inside]
    return num, other


def gen_e2e_split(rng, case, where):
    """One split of the report at `where` = (stage, line index): inside the number of a reading two times out of three."""
    k, i = where
    item = e2e_stages(case)[k][1][i][1]
    num, other = e2e_cut_points(item[1])
    pool = num if (num and (not other or rng.random() < 0.67)) else other
    if not pool:
        return None
    return {"stage": k, "line": i, "cut": rng.choice(pool), "pause": round(rng.uniform(*E2E_SPLIT_PAUSE), 2)}


def gen_e2e_split_case(rng, place):
    """A socket session with a report cut in two at `place` (hello / probe / after / stmt), and three times out of ten
    a second one anywhere else in the session."""
    while True:
        case = gen_e2e_case(rng, via="socket")
        places = e2e_places(case)
        if not places[place]:
            continue
        first = rng.choice(places[place])
        rest = [w for ws in places.values() for w in ws if w != first]
        chosen = [first] + ([rng.choice(rest)] if rest and rng.random() < 0.3 else [])
        splits = [sp for sp in (gen_e2e_split(rng, case, w) for w in chosen) if sp]
        if splits and (splits[0]["stage"], splits[0]["line"]) == first:
            case["splits"] = sorted(splits, key=lambda sp: (sp["stage"], sp["line"]))
            return case


def e2e_split_map(case):
    return {(sp["stage"], sp["line"]): sp for sp in case.get("splits") or []} if case["via"] == "socket" else {}


def e2e_split_tags(case):
    """Distribution keys of the splits of a session, computed from the text"""
    tags = []
    stages = e2e_stages(case)
    where = {w: p for p, ws in e2e_places(case).items() for w in ws}
    for (k, i), sp in e2e_split_map(case).items():
        item = stages[k][1][i][1]
        tags += ["e2e-split-report", "e2e-split-at:" + where.get((k, i), "not-a-report"), f"e2e-split-pause:{int(sp['pause'] * 10) / 10:.1f}s"]
        if item[0] == "report":
            tags += ["e2e-split:" + ("inside-the-number-of-a-reading" if sp["cut"] in e2e_cut_points(item[1])[0] else "elsewhere-in-the-line"),
                     "e2e-split-family:" + item[1]["family"]]
    return tags


def e2e_wire(item):
    """(kind, payload) -> the line on the wire"""
    return (rep_line(item[1]) if item[0] == "report" else item[1]) + "\n"


def e2e_hold_index(lines):
    """Scheduling only.  A controller that greets with `Grbl …` makes the bundled sender drop line numbers; the sender
    then starts its (empty) start-up job without a line-number reset, and the job can only move on an `ok` read AFTER
    it has started (an `ok` read before leaves connect() waiting for ever - the liveness observation recorded in
    Props/C16.lean and harness/c16.py, outside this property).  So when such a greeting is the first line that proves
    the device alive (the sender's rule: a greeting, a leading `ok`, or `T:` anywhere), the device of this harness sends
    the rest of its connect-stage lines late: once the start-up job waits.  Returns the index to hold from, or None."""
    for i, ln in enumerate(lines):
        if ln.startswith("Grbl "):
            return i + 1
        if ln.startswith(("start", "ok")) or "T:" in ln:
            return None
    return None


def e2e_stages(case):
    """[(what the caller did, [(where, item), …]), …]: stage 0 is connect(), stage k the k-th write()."""
    st = [("connect()", [("sent before the device read anything", it) for it in case["hello"]]
           + [("answer to the connect probe", it) for it in case["probe"]]
           + [("sent right behind the probe's answer", it) for it in case["after"]])]
    for s in case["stmts"]:
        st.append((f"write({s['stmt']!r})", [(f"reply to {s['stmt']}", it) for it in s["reply"]]))
    return st


def e2e_letters(case):
    s = set("XYZEFSTB")
    for _, items in e2e_stages(case):
        for _, it in items:
            if it[0] == "report":
                s.update(L for L, _ in rep_mentions(it[1]))
                s.update(t[1] for t in it[1]["toks"] if t[0] == "L")
    return "".join(L + (L.lower() if L.lower() != L else "") for L in sorted(s))


def e2e_repr(case):
    stages = e2e_stages(case)
    extra = {}
    if e2e_split_map(case):
        extra = {"splits": [dict(sp) for sp in case["splits"]],
                 "segments": [{"after": stages[sp["stage"]][0], "first": e2e_wire(stages[sp["stage"]][1][sp["line"]][1])[:sp["cut"]],
                               "pause_s": sp["pause"], "then": e2e_wire(stages[sp["stage"]][1][sp["line"]][1])[sp["cut"]:]} for sp in case["splits"]]}
    return {"e2e": True, "via": case["via"], **extra,
            "lines": {what: [e2e_wire(it) for _, it in items] for what, items in stages},
            "hello": [list(it) for it in case["hello"]], "probe": [list(it) for it in case["probe"]],
            "after": [list(it) for it in case["after"]],
            "stmts": [{"stmt": s["stmt"], "reply": [list(it) for it in s["reply"]]} for s in case["stmts"]]}


def e2e_expected(case):
    """The oracle's table after every stage: first value per letter of every report, later reports over earlier ones;
    `src[L]` remembers the line that last reported L and where in the session it was sent."""
    table, src, out = {}, {}, []
    for _, items in e2e_stages(case):
        for where, it in items:
            if it[0] == "report":
                for L, v in first_values(it[1]).items():
                    table[L] = float(v)
                    src[L] = (where, e2e_wire(it))
        out.append((dict(table), dict(src)))
    return out


def e2e_matches(vals, table, letters):
    for L in letters:
        want, got = table.get(L.upper()), vals[L]
        if (got is None) != (want is None) or (got is not None and (not isinstance(got, (int, float)) or got != want)):
            return False
    return True


def e2e_run(case, letters, grace=E2E_GRACE, limit=8.0):
    """Drive one real writer through the session.  Returns (obs, sent, marks, notes): `obs[k]` = the readings after
    stage k (None from the first stage the session did not reach), `sent` = every line the device put on the wire, in
    order, `marks[k]` = how many of them had been sent when stage k was complete."""
    import threading
    import time

    from . import sim_c16 as sim

    stages = e2e_stages(case)
    expected = e2e_expected(case)
    splits = e2e_split_map(case)
    replies = {s["stmt"]: k + 1 for k, s in enumerate(case["stmts"])}

    class Scripted(sim.Session):
        """the device side of `sim_c16.Session` answering by script, inside the callback that logs what it reads"""

        def __init__(self, *a, **k):
            super().__init__(*a, **k)
            self.sent, self.marks, self.reads, self.held = [], {}, 0, None
            self.wire = threading.RLock()  # one writer on the wire at a time: nothing lands between the two segments of a line

        def put_lines(self, lines, stage, at=None):
            """`at` = (stage, index of lines[0] in it) when these are lines of the script (they may be split)"""
            with self.wire:
                for j, ln in enumerate(lines):
                    sp = splits.get((at[0], at[1] + j)) if at else None
                    self.sent.append(ln)
                    if self.kind != "socket":
                        self.io().rxq.put(ln.encode())
                    elif sp and 0 < sp["cut"] < len(ln) - 1:
                        self.tcp.put(ln[:sp["cut"]].encode())
                        time.sleep(sp["pause"])
                        self.tcp.put(ln[sp["cut"]:].encode())
                    else:
                        self.tcp.put(ln.encode())
                if stage is not None:
                    self.marks[stage] = len(self.sent)

        def _on_tx(self, i, line, ok):
            super()._on_tx(i, line, ok)
            if not ok:
                return
            self.reads += 1
            if self.reads == 1:
                self.io().free_run = True  # the device answers at once: the fake port's reads may time out freely (a connect() that gives up can then close it)
            k = 0 if self.reads == 1 else replies.pop(line, None)
            if k is None:
                return self.put_lines(["ok\n"], None)
            lines = [e2e_wire(it) for _, it in stages[k][1]]
            cut = e2e_hold_index(lines) if k == 0 else None
            if cut is None:
                return self.put_lines(lines, k, at=(k, 0))
            self.put_lines(lines[:cut], None, at=(k, 0))
            self.held, self.held_at = lines[cut:], (k, cut)

        def release_held(self):
            snap = self.snapshot()
            if self.held is not None and snap.get("printing") == "1" and snap.get("clear") == "0":
                lines, self.held = self.held, None
                self.put_lines(lines, 0, at=self.held_at)

    S = Scripted(case["via"], [s["stmt"] + "\n" for s in case["stmts"]], False, gated=True)
    obs, notes, late = [], [], False

    def caller_gone():
        return any(e[0] == "connect-raised" for e in S.ev)

    try:
        S.start()
        for k in range(len(stages)):
            if k > 0:
                t_end = time.time() + limit
                while time.time() < t_end and not any(e[0] in ("connected", "connect-raised") for e in S.ev):
                    time.sleep(0.002)
                S.permit()
            t_end = time.time() + limit
            while time.time() < t_end and k not in S.marks and not (k > 0 and caller_gone()):
                S.release_held()
                time.sleep(0.002)
            if k not in S.marks:
                notes.append(f"stage {k} ({stages[k][0]}) not reached: events {[e for e in S.ev if e[0] != 'tx'][-6:]}")
                break
            # once a stage has been judged late the verdict of the session is settled: later stages are only recorded
            t_end = time.time() + (0.3 if late else grace)
            while True:
                vals = {L: S.writer.get_parameter(L) for L in letters}
                if e2e_matches(vals, expected[k][0], letters):
                    break
                if time.time() > t_end:
                    late = True
                    break
                time.sleep(0.004)
            obs.append(vals)
        if len(obs) == len(stages):  # let the last write() come back before the session is torn down
            t_end = time.time() + 2.0
            n = len(case["stmts"])
            while time.time() < t_end and sum(1 for e in S.ev if e[0] == "ret") < n:
                time.sleep(0.002)
        for e in S.ev:
            if e[0] == "connect-raised" or (e[0] == "ret" and e[2] != "returned"):
                notes.append(f"caller: {e[0]} {e[1:3]}")
    finally:
        left = S.cleanup()
    if left:
        raise core.Infra(f"printcore threads left running: {left}")
    obs += [None] * (len(stages) - len(obs))
    return obs, list(S.sent), [S.marks.get(k) for k in range(len(stages))], notes


def e2e_oracle(case, letters, obs, notes=()):
    """After the device has sent the reports of a stage, get_parameter answers the first value of each reported
    letter and the earlier reading of every other letter - wherever in the session the report was sent.  The device of
    these sessions sends reports, greetings and `ok` only: a call of the caller that raises has taken one of them for an
    error (the same clause as `error` in `oracle`)."""
    stages = e2e_stages(case)
    raised = [n for n in notes if n.startswith("caller:")]
    for k, ((table, src), vals) in enumerate(zip(e2e_expected(case), obs)):
        if vals is None:
            break
        for L in letters:
            want, got = table.get(L.upper()), vals[L]
            if (got is None) != (want is None) or (got is not None and (not isinstance(got, (int, float)) or got != want)):
                where, line = src.get(L.upper(), ("never reported", ""))
                fresh = any(it[0] == "report" and L.upper() in first_values(it[1]) for _, it in stages[k][1])
                return ("e2e-first-wins" if fresh else "e2e-keeps", k,
                        f"{case['via']} writer, after {stages[k][0]} and the device's lines {[e2e_wire(it) for _, it in stages[k][1]]}: "
                        f"get_parameter({L!r}) = {got!r}, expected {want!r}"
                        + (f" (first value of {L.upper()} in {line!r}, {where})" if line else " (no report mentioned it)"))
    if raised:
        k = min(len([v for v in obs if v is not None]), len(stages) - 1)
        return ("e2e-error", k, f"{case['via']} writer: the device sent reports, greetings and ok only "
                                f"{[e2e_wire(it) for _, items in stages for _, it in items]}, yet {raised[0]}")
    return None


def e2e_readings(vals, letters):
    return " ".join(f"{L}={frac_text(vals[L])}" for L in letters)


def run_e2e(R, cases, label):
    done = []
    for c in cases:
        letters = e2e_letters(c)
        for attempt in range(2):  # a session cut short (loaded machine) is played once more before it counts
            obs, sent, marks, notes = e2e_run(c, letters)
            if obs[-1] is not None or any(n.startswith("caller:") for n in notes):
                break
        verdict = e2e_oracle(c, letters, obs, notes)
        if obs[-1] is None and not verdict:
            raise core.Infra(f"end-to-end session did not complete: {notes} case {e2e_repr(c)}")
        stage0 = [it for _, it in e2e_stages(c)[0][1]]
        R.case(e2e_repr(c), nontrivial=len(e2e_expected(c)[-1][0]) >= 2, validated=False)
        R.count(label, "e2e-via:" + c["via"], f"e2e-statements:{len(c['stmts'])}", *e2e_split_tags(c))
        R.count(*["e2e-report:" + w for w, tag in (("before-the-probe-answer", "hello"), ("answering-the-probe", "probe"), ("behind-the-probe-answer", "after"))
                  if any(k == "report" for k, _ in c[tag])])
        if stage0 and stage0[0][0] == "report":
            R.count("e2e-first-line-of-the-session-is-a-report")
        # distribution only: which line proves the device alive by the bundled sender's rule (greeting / leading ok / `T:`)
        alive = next((i for i, it in enumerate(stage0) if e2e_wire(it).startswith(("start", "Grbl ", "ok")) or "T:" in e2e_wire(it)), None)
        if alive is not None:
            R.count("e2e-alive-line:" + ("report" if stage0[alive][0] == "report" else "greeting" if stage0[alive][1] in GREETINGS else "bare-ok"))
            if any(it[0] == "report" for it in stage0[:alive]):
                R.count("e2e-report-ahead-of-the-alive-line")
            if e2e_hold_index([e2e_wire(it) for it in stage0]) is not None:
                R.count("e2e-grbl-greeting-first:probe-answered-late")
        if any(k == "plain" and t in GREETINGS for k, t in c["hello"]):
            R.count("e2e-greeting")
        for n in notes:
            R.count("e2e-note:" + n.split(":")[0])
        if verdict:
            tag, k, msg = verdict
            R.fail(e2e_repr(c), msg, tag=tag, step=k)
        done.append((c, letters, obs, sent, marks))
    # the same lines through the model: its readings after the line that completes each stage
    out = core.run_model(MODE, ["d " + letters + " | " + " | ".join(cps(ln) for ln in sent) for _, letters, _, sent, _ in done]) if done else []
    for (c, letters, obs, sent, marks), rec in zip(done, out):
        model_recs = [model_to_double(x) for x in rec.split(" ; ")]
        for k, (vals, m) in enumerate(zip(obs, marks)):
            if vals is None or m is None:
                break
            R.traces_validated += 1
            mo = " ".join(model_recs[m - 1].split(" ")[2:])
            if e2e_readings(vals, letters) != mo:
                R.disagree("deliver-report-end-to-end", e2e_repr(c), e2e_readings(vals, letters), mo, step=k)
                break


def _quiet():
    lg = logging.getLogger("gscrib")
    lg.setLevel(logging.CRITICAL + 1)
    if not lg.handlers:
        lg.addHandler(logging.NullHandler())


CORPUS = [
    {"via": "printrun", "items": [("report", {"family": "marlin-temp", "lead": "", "ok": True, "open": None, "sep": " ", "close": None, "trail": "\n",
                                              "toks": [("L", "T", (False, "210", "5")), ("N", "/210.0"), ("L", "B", (False, "60", "1")), ("N", "/60.0"), ("N", "@:127"), ("N", "B@:0")]})]},
    {"via": "serial", "items": [("report", {"family": "marlin-pos", "lead": "", "ok": False, "open": None, "sep": " ", "close": None, "trail": "\n",
                                            "toks": [("L", "X", (False, "1", "00")), ("L", "Y", (True, "2", "50")), ("L", "Z", (False, "3", "00")), ("L", "E", (False, "0", "00")), ("N", "Count"),
                                                     ("L", "X", (False, "80", None)), ("L", "Y", (True, "200", None)), ("L", "Z", (False, "1200", None))]}),
                                ("error", "error: X:5"),
                                ("report", {"family": "grbl-status", "lead": "", "ok": False, "open": "<", "sep": "|", "close": ">", "trail": "",
                                            "toks": [("N", "Idle"), ("P", "m", [(False, "1", "000"), (False, "2", "000"), (True, "3", "000")], None), ("F", (False, "500", None), (False, "8000", None)),
                                                     ("O", "WCO", [(False, "0", None)] * 3)]}),
                                ("report", {"family": "grbl-probe", "lead": "", "ok": False, "open": "[", "sep": "|", "close": "]", "trail": "",
                                            "toks": [("P", "p", [(False, "1", "5"), (False, "2", "5"), (True, "3", "5")], True)]})]},
    # the application traces the session: every family once with the root logger at DEBUG and a formatting handler
    {"via": "printrun", "log": {"root": "DEBUG", "package": None, "module": None, "sink": "stream", "at": 0},
     "items": [("report", {"family": "grbl-status", "lead": "", "ok": False, "open": "<", "sep": "|", "close": ">", "trail": "\r\n",
                           "toks": [("N", "Run"), ("P", "w", [(True, "0", "250"), (False, "12", "5"), (False, "3", None)], None), ("F", (False, "1200", None), (False, "0", None))]}),
               ("report", {"family": "marlin-temp", "lead": "", "ok": True, "open": None, "sep": " ", "close": None, "trail": "\n",
                           "toks": [("L", "T", (False, "199", "8")), ("N", "/200.0"), ("L", "B", (False, "59", "9")), ("N", "/60.0"), ("N", "@:64"), ("N", "B@:32")]}),
               ("report", {"family": "grbl-probe", "lead": "", "ok": False, "open": "[", "sep": "|", "close": "]", "trail": "\r\n",
                           "toks": [("P", "p", [(False, "4", "000"), (False, "5", "000"), (True, "0", "125")], True)]}),
               ("report", {"family": "marlin-pos", "lead": "", "ok": True, "open": None, "sep": " ", "close": None, "trail": "\n",
                           "toks": [("L", "X", (False, "7", "00")), ("L", "Y", (False, "8", "00")), ("L", "Z", (False, "0", "20")), ("L", "E", (False, "1", "50"))]})]},
    # only the writer's module at DEBUG (records dropped unformatted), switched on after the first report
    {"via": "socket", "log": {"root": "WARNING", "package": None, "module": "DEBUG", "sink": "null", "at": 1},
     "items": [("report", {"family": "grbl-status", "lead": "", "ok": False, "open": "<", "sep": "|", "close": ">", "trail": "\n",
                           "toks": [("N", "Idle"), ("P", "m", [(False, "1", "000"), (False, "1", "000"), (False, "1", "000")], None), ("F", (False, "0", None), (False, "0", None))]}),
               ("report", {"family": "grbl-status", "lead": "", "ok": False, "open": "<", "sep": "|", "close": ">", "trail": "\n",
                           "toks": [("N", "Jog"), ("P", "m", [(False, "2", "500"), (True, "3", "500"), (False, "1", "000")], None), ("F", (False, "300", None), (False, "0", None))]})]},
]


def _d(text):
    neg = text.startswith("-")
    ip, dot, fp = text.lstrip("-").partition(".")
    return (neg, ip, fp if dot else None)


def _rep(family, toks, ok=False, lead="", trail="", frame=(None, " ", None)):
    return {"family": family, "lead": lead, "ok": ok, "open": frame[0], "sep": frame[1], "close": frame[2], "trail": trail, "toks": toks}


def _temp(t, b, ok=False, lead="", trail=""):
    return _rep("marlin-temp", [("L", "T", _d(t)), ("N", "/0.0"), ("L", "B", _d(b)), ("N", "/0.0"), ("N", "@:0"), ("N", "B@:0")], ok, lead, trail)


def _pos(x, y, z, e, ok=False):
    return _rep("marlin-pos", [("L", "X", _d(x)), ("L", "Y", _d(y)), ("L", "Z", _d(z)), ("L", "E", _d(e)), ("N", "Count"),
                               ("L", "X", _d("800")), ("L", "Y", _d("-1640")), ("L", "Z", _d("120"))], ok)


def _status(state, x, y, z, f, s):
    return _rep("grbl-status", [("N", state), ("P", "m", [_d(x), _d(y), _d(z)], None), ("F", _d(f), _d(s))], trail="\r", frame=("<", "|", ">"))


E2E_CORPUS = [
    # a Marlin board behind a TCP bridge, temperature auto-report left on by an earlier session: it talks first
    {"e2e": True, "via": "socket", "hello": [("report", _temp("21.4", "-2.75", lead=" "))], "probe": [("plain", "ok")], "after": [],
     "stmts": [{"stmt": "M114", "reply": [("report", _pos("10.00", "-20.50", "0.30", "1.25")), ("plain", "ok")]}]},
    # a firmware that answers every command with its temperatures, the connect probe included; a position report behind it
    {"e2e": True, "via": "serial", "hello": [], "probe": [("report", _temp("199.6", "60.2", ok=True))], "after": [("report", _pos("0.00", "0.00", "5.00", "0.00"))],
     "stmts": [{"stmt": "M105", "reply": [("report", _temp("200.3", "60.0", ok=True))]}]},
    # Grbl: a status report queued before the greeting, the greeting, a bare ok for the probe and a status behind it,
    # then a probing move answered with the probe report
    {"e2e": True, "via": "socket", "hello": [("report", _status("Idle", "1.000", "2.000", "-3.000", "0", "0")), ("plain", GREETINGS[1])], "probe": [("plain", "ok")],
     "after": [("report", _status("Run", "1.500", "2.000", "-3.000", "500", "8000"))],
     "stmts": [{"stmt": "G38.2 Z-5 F50", "reply": [("report", _rep("grbl-probe", [("P", "p", [_d("4.000"), _d("5.000"), _d("-0.125")], True)], trail="\r", frame=("[", "|", "]"))),
                                                     ("plain", "ok")]}]},
    # a Marlin board behind a serial-to-wifi bridge that forwards the UART bytes as they trickle in: the temperature
    # auto-report it starts with arrives cut inside a number, the position report behind the probe's answer cut in front
    # of its step counts - each is one report
    {"e2e": True, "via": "socket", "hello": [("report", _temp("203.75", "58.5"))], "probe": [("plain", "ok")],
     "after": [("report", _pos("12.50", "-3.25", "0.40", "7.125"))],
     "stmts": [{"stmt": "M105", "reply": [("report", _temp("204.0", "59.25", ok=True))]}],
     "splits": [{"stage": 0, "line": 0, "cut": 4, "pause": 0.3}, {"stage": 0, "line": 2, "cut": 14, "pause": 0.35}]},
]


def run(R: core.Run):
    with logging_state():  # the check leaves the global logging configuration as it found it
        return _run(R)


def _run(R: core.Run):
    R.rule = ("(a) random strings over an adversarial alphabet and mutated report lines, scanner vs re.findall; (b) sequences of 1-6 "
              "lines for one writer: rendered reports of the four families and free token mixes (any order, signed decimals incl. '5.' and "
              "'.5', noise, ignored fields, padding, leading ok), error/alarm lines; plus malformed lines (correspondence only); "
              "40 % of the sequences delivered under an application's logging configuration (root / package / module logger at DEBUG, INFO "
              "or WARNING, formatting or dropping handler, switched on before the writer exists or between two lines); "
              "(c) a few end-to-end sessions: a connected SerialWriter / SocketWriter and a scripted device reporting before it has read "
              "anything, in its answer to the connect probe, right behind it, and in answer to 1-2 written statements; a few more over "
              "the socket where 1-2 reports reach the host in two TCP segments (cut inside the line, mostly inside a number) "
              f"{E2E_SPLIT_PAUSE[0]}-{E2E_SPLIT_PAUSE[1]} s apart, the split report's place (before the probe, its answer, behind it, a statement's reply) taking turns; "
              "non-trivial = the sequence reports >= 2 different letters; distinct by hash")
    R.assumptions = [
        "device messages are ASCII (Python's \\d, float(), str.strip and str.lower also know non-ASCII digits, blanks and case pairs)",
        "single-letter report keys are upper-case or digits, as Marlin and Grbl print them: the first-occurrence bookkeeping is case-sensitive, "
        "so a line naming one letter in both cases (x:1 X:2) reads the last one - outside the report families, covered by the correspondence only",
        "float(text) is the double nearest to the decimal text (the model holds the exact rational; compared after rounding it to a double)",
        "in (b) the writer is never connected: the receive callback is called directly, as the repository's tests drive the writer; "
        "in (c) the lines travel through the bundled sender's reader thread, and a reading is judged once the device has sent the line "
        f"and up to {E2E_GRACE} s have passed",
        "(c): a device greeting with `Grbl …` holds back its answer to the connect probe until the sender's start-up job waits for it "
        "(answered earlier, connect() never returns - the liveness observation of Props/C16.lean, outside this property)",
        "ambient configuration varied: logging levels and handlers only (locale, warnings filters, float context are left alone)",
    ]
    _quiet()
    run_scanner(R, R.n(100000, 2000000))
    run_reports(R, CORPUS, "corpus")
    n = R.n(3000, 50000)
    cases = [gen_case(R.rng) for _ in range(n)]
    run_reports(R, cases, "reports")
    garbage = [gen_garbage_case(R.rng) for _ in range(max(1, n // 6))]
    run_reports(R, garbage, "malformed")
    run_e2e(R, E2E_CORPUS, "e2e-corpus")
    run_e2e(R, [gen_e2e_case(R.rng) for _ in range(R.n(4, 60))], "e2e")
    # socket sessions with reports cut in two segments: every split costs its pause, so there are few of them and the
    # places take turns (quick: the probe's answer and a statement's reply here, the other two in the corpus session)
    run_e2e(R, [gen_e2e_split_case(R.rng, E2E_PLACES[j % len(E2E_PLACES)]) for j in range(R.n(2, 16))], "e2e-split")
    if R.broken:
        R.search_batches += 1
        for _ in range(R.n(6000, 30000)):
            c = gen_case(R.rng)
            letters = case_letters(c)
            _, raw = impl_run(c, letters)
            R.evaluations += 1
            verdict = oracle(c, letters, raw)
            if verdict:
                tag, i, msg = verdict
                R.fail(case_repr(c), msg, tag=tag, step=i)
    return {}, {}


def replay(data):
    core.use_repo()
    with logging_state():
        return _replay(data)


def _replay(data):
    _quiet()
    fl = data.get("failure") or data.get("first", {})
    case = fl.get("case")
    if not case:
        print("replay: no case recorded (", data.get("no_longer_checks"), ")")
        return 1
    if "string" in case:
        from gscrib.writers.printrun_writer import VALUE_PATTERN

        s = case["string"]
        mo = core.run_model(MODE, ["scan " + cps(s) if s else "scan"])[0]
        io = ";".join(k + "=" + v for k, v in VALUE_PATTERN.findall(s))
        print("re   :", io)
        print("model:", mo)
        return 1 if io != mo else 0
    if case.get("e2e"):
        c = {"e2e": True, "via": case["via"], "stmts": [{"stmt": x["stmt"], "reply": [tuple(it) for it in x["reply"]]} for x in case["stmts"]],
             **{k: [tuple(it) for it in case[k]] for k in ("hello", "probe", "after")}}
        if case.get("splits"):
            c["splits"] = [dict(sp) for sp in case["splits"]]
            for seg in e2e_repr(c).get("segments", []):
                print("split:", seg)
        letters = e2e_letters(c)
        obs, sent, marks, notes = e2e_run(c, letters)
        mo = [model_to_double(x) for x in core.run_model(MODE, ["d " + letters + " | " + " | ".join(cps(ln) for ln in sent)])[0].split(" ; ")]
        bad = False
        for k, ((what, items), vals, m) in enumerate(zip(e2e_stages(c), obs, marks)):
            print("stage:", what, "- the device sent", [e2e_wire(it) for _, it in items])
            if vals is None or m is None:
                print("       not reached", notes)
                return 1
            a, b = e2e_readings(vals, letters), " ".join(mo[m - 1].split(" ")[2:])
            print("impl :", a)
            print("model:", b)
            bad = bad or a != b
        verdict = e2e_oracle(c, letters, obs, notes)
        print("oracle:", verdict[2] if verdict else "ok")
        return 1 if (bad or verdict) else 0
    c = {"via": case["via"], "items": [(k, v) for k, v in case["items"]]}
    if case.get("log"):
        c["log"] = case["log"]
        print("logging:", c["log"])
    letters = case_letters(c)
    impl_recs, raw = impl_run(c, letters)
    mo = core.run_model(MODE, ["d " + letters + " | " + " | ".join(cps(item_line(it)) for it in c["items"])])[0]
    model_recs = [model_to_double(x) for x in mo.split(" ; ")]
    bad = False
    for it, a, b in zip(c["items"], impl_recs, model_recs):
        print("line :", repr(item_line(it)))
        print("impl :", a)
        print("model:", b)
        bad = bad or a != b
    verdict = oracle(c, letters, raw)
    print("oracle:", verdict[2] if verdict else "ok")
    return 1 if (bad or verdict) else 0

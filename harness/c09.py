"""C09 - comment text can never change what the machine executes.

Model: lean/GscribModel/Model/Format.lean (driver mode `format`, op `entry`); theorems: Props/C09.lean.
Implementation: a real `GCodeBuilder` writing to a recording writer; every entry point that takes free
text (`comment()`, `comment(msg, *args)`, `annotate()`, `comment=` of move / rapid / move_absolute /
rapid_absolute / set_axis / auto_home / probe / halt / trace.polyline, `emergency_halt(message)`), under every
comment style of COMMENT_OPENINGS/ENDINGS plus several to-end-of-line symbols, and three line endings.

Oracle (independent of the model): the bytes of the call, with comments removed by an independent Python
stripper (lines split at every CR/LF), must give the same executable words line by line, and the same
number of line-break characters, as the same call with an empty and with an innocuous comment; a text
must not make a call raise that succeeds with the innocuous comment.
Correspondence: impl bytes == model bytes, and the Lean stripper (`execLines`) reads them like the Python one.
"""
from __future__ import annotations

import itertools
import random

from . import core
from . import fmt_common as F

PROP = "C09"
INNOCUOUS = "innocuous"
EOLS = ["\\n", "\\r\\n", "\\r"]

# ------------------------------------------------------------------ entry points
# name -> (call(g, text), model entries(text) as protocol fields, number of statements)


def _cmd(code, params):
    return lambda t: [f"kind=cmd code={F.enc(code)} params={F.params_field(params)} text={F.enc(t)}"]


def _table(enum, params):
    def f(t):
        code, desc = F.table(enum)
        return [f"kind=table code={F.enc(code)} params={F.params_field(params)} desc={F.enc(desc)} text={F.enc(t)}"]
    return f


def _ehalt(reset):
    def f(t):
        from gscrib import enums as E

        oc, od = F.table(E.SpinMode("off"))
        cc, cd = F.table(E.CoolantMode("off"))
        hc, hd = F.table(E.HaltMode("end-with-reset" if reset else "pause"))
        return [f"kind=ehalt oc={F.enc(oc)} od={F.enc(od)} cc={F.enc(cc)} cd={F.enc(cd)} hc={F.enc(hc)} "
                f"hd={F.enc(hd)} text={F.enc(t)}"]
    return f


def entry_points():
    from gscrib import enums as E

    N = None
    return {
        "comment": (lambda g, t: g.comment(t), lambda t: [f"kind=comment text={F.enc(t)}"]),
        "comment-args": (lambda g, t: g.comment("note", t, 7),
                         lambda t: [f"kind=comment text={F.enc('note ' + t + ' 7')}"]),
        "annotate": (lambda g, t: g.annotate("key_1", t), lambda t: [f"kind=annotate key={F.enc('key_1')} text={F.enc(t)}"]),
        "move": (lambda g, t: g.move(x=1, F=100, comment=t), _cmd("G1", [("X", 1), ("F", 100), ("Y", N), ("Z", N)])),
        "rapid": (lambda g, t: g.rapid(z=5, comment=t), _cmd("G0", [("Z", 5), ("X", N), ("Y", N)])),
        "move_absolute": (lambda g, t: g.move_absolute(x=2, y=3, comment=t), _cmd("G1", [("X", 2), ("Y", 3), ("Z", N)])),
        "rapid_absolute": (lambda g, t: g.rapid_absolute(x=0, comment=t), _cmd("G0", [("X", 0), ("Y", N), ("Z", N)])),
        "move-nothing": (lambda g, t: g.move(comment=t), _cmd("G1", [("X", N), ("Y", N), ("Z", N)])),
        "set_axis": (lambda g, t: g.set_axis(x=0, E=0, comment=t),
                     _table(E.PositioningMode.OFFSET, [("X", 0), ("E", 0), ("Y", N), ("Z", N)])),
        "auto_home": (lambda g, t: g.auto_home(comment=t), _table(E.PositioningMode.HOME, [("X", N), ("Y", N), ("Z", N)])),
        "probe": (lambda g, t: g.probe("towards", z=-1, F=50, comment=t),
                  _table(E.ProbingMode("towards"), [("Z", -1), ("F", 50), ("X", N), ("Y", N)])),
        "polyline": (lambda g, t: g.trace.polyline([(1, 0, 0), (1, 1, 0)], comment=t),
                     lambda t: _cmd("G1", [("X", 1), ("Y", 0), ("Z", 0)])(t) + _cmd("G1", [("X", 1), ("Y", 1), ("Z", 0)])(t)),
        "emergency_halt": (lambda g, t: g.emergency_halt(t), _ehalt(False)),
        "emergency_halt-reset": (lambda g, t: g.emergency_halt(t, reset=True), _ehalt(True)),
        # halt(mode, comment=text, **params) goes through _get_statement like set_axis / auto_home / probe
        "halt": (lambda g, t: g.halt("pause", comment=t), _table(E.HaltMode("pause"), [])),
        "halt-params": (lambda g, t: g.halt("wait-for-bed", S=60, comment=t),
                        _table(E.HaltMode("wait-for-bed"), [("S", 60)])),
    }


# ------------------------------------------------------------------ implementation adapter + oracle


def observe(raw_text, opening, closing):
    """canonical record of what a call wrote: bytes, executable words per line, line-break count"""
    return (f"ok {F.enc(raw_text)} | exec={F.show_exec(F.strip_comments(raw_text, opening, closing))}"
            f" | nb={F.break_count(raw_text)}")


class Session:
    """one builder under (style, line ending); every entry point can be driven with any text"""

    def __init__(self, sym, le, fresh_each_call):
        self.sym, self.le, self.fresh = sym, le, fresh_each_call
        self.opening, self.closing = F.style_of(sym)
        self.g = self.rec = None
        self.eps = entry_points()
        self.base = {}

    #: styles a session may have been switched over from (the style in force is set live, after output was written)
    SWITCH_FROM = [";", "(", "[", "/*", "<"]
    ncreated = 0

    def call(self, name, text):
        if self.fresh or self.g is None:
            Session.ncreated += 1
            other = self.SWITCH_FROM[Session.ncreated % len(self.SWITCH_FROM)]
            if Session.ncreated % 3 == 0 and other != self.sym:
                # a builder configured with another style, used, then switched with the public setter
                self.g, self.rec = F.make_builder(5, other, self.le)
                self.g.comment("written under the previous comment style")
                self.g.move(x=1, comment="so was this")
                self.g.format.set_comment_symbols(self.sym)
            else:
                self.g, self.rec = F.make_builder(5, self.sym, self.le)
        self.rec.raw.clear()
        try:
            self.eps[name][0](self.g, text)
        except Exception as e:  # noqa: BLE001
            self.g = None  # do not reuse a builder that raised
            return type(e).__name__, b"".join(self.rec.raw).decode("utf-8", "replace")
        return None, b"".join(self.rec.raw).decode("utf-8")

    def baseline(self, name):
        if name not in self.base:
            self.base[name] = [self.call(name, ""), self.call(name, INNOCUOUS)]
        return self.base[name]

    def model_lines(self, name, text):
        cf = F.cfg_fields(5, self.sym, F.LINE_ENDINGS[self.le], ("X", "Y", "Z"))
        return [f"entry {cf} {fields}" for fields in self.eps[name][1](text)]


def judge(R, sess, name, text, model_recs, label):
    """run one (text, style, entry point): correspondence + oracle"""
    exc, raw = sess.call(name, text)
    case = {"symbols": sess.sym, "line_endings": sess.le, "entry": name, "text": text}
    stripped = F.strip_comments(raw, sess.opening, sess.closing)
    dangerous = any(c in text for c in "\r\n") or (sess.closing and sess.closing in text)
    R.case(case, nontrivial=dangerous or len(text) > 0)
    R.count(label, "entry:" + name, "style:" + sess.opening, "eol:" + sess.le.replace("\\", "\\\\"),
            "text:" + ("has-CR/LF" if any(c in text for c in "\r\n") else "no-CR/LF"),
            "text:" + ("has-closing-delimiter" if sess.closing and sess.closing in text else "no-closing-delimiter"),
            "outcome:" + (exc or "ok"), *("text:" + f for f in F.text_features(text, sess.closing)))
    # ---- correspondence
    if model_recs:
        impl_rec = exc or observe(raw, sess.opening, sess.closing)
        if any(not m.startswith("ok ") for m in model_recs):
            mo = next(m for m in model_recs if not m.startswith("ok "))
        else:
            # several entries (polyline): concatenate bytes, exec lines and counts
            bytes_ = "".join(F.dec(m.split(" | ")[0][3:]) for m in model_recs)
            ex = [m.split(" | ")[1][5:] for m in model_recs]
            ex = "|".join(e for e in ex if e != "~") or "~"
            nb = sum(int(m.split(" | ")[2][3:]) for m in model_recs)
            mo = f"ok {F.enc(bytes_)} | exec={ex} | nb={nb}"
        if impl_rec != mo:
            R.disagree("entry:" + name, case, impl_rec, mo)
    # ---- oracle
    for (bexc, braw), bname in zip(sess.baseline(name), ("empty", INNOCUOUS)):
        if bexc is not None:
            if exc is None:
                continue
            R.fail(case, f"{name} raises {bexc} even with the {bname} comment", tag="raises")
            return
        if exc is not None:
            R.fail(case, f"{name} raised {exc} because of the text (fine with the {bname} comment)", tag="raises")
            return
        bstripped = F.strip_comments(braw, sess.opening, sess.closing)
        if stripped != bstripped:
            R.fail(case, f"executable words changed by the text: {stripped!r} instead of {bstripped!r} "
                         f"(bytes {raw!r})", tag="escape")
            return
        if F.break_count(raw) != F.break_count(braw):
            R.fail(case, f"line count changed by the text: {F.break_count(raw)} break characters instead of "
                         f"{F.break_count(braw)} (bytes {raw!r})", tag="lines")
            return


# ------------------------------------------------------------------ generation

DELIMS = sorted(set(list(F.PAIRS) + list(F.PAIRS.values()) + F.EOL_SYMBOLS))
ATOMS = (["\r", "\n", "\r\n", "\n\r", "\x85", " ", " ", "\x0b", "\x0c", "\t", " ", "  ", "\x1c", "\x1f", "\xa0"]
         + DELIMS + ["G1 X9", "M3 S1000", "G0 Z-5 ", "{}", "{0}", "{x}", "%s", "%(a)s", "\\n", "\\", "é", "✓", "日本", "\U0001f600",
                     "a", "B", "0", "-1.5", ".", "@set k = v", "\x00", "\x7f"])


def gen_text(rng, closing, opening=";"):
    if rng.random() < 0.14:
        # compatibility look-alikes of the delimiters / of line breaks, closers nested in themselves or split by
        # something removable - in front of executable-looking words (fmt_common.adversarial_text)
        t = F.adversarial_text(rng, opening, closing)
        if rng.random() < 0.2:
            t = t + rng.choice(["\n", "\r\n", " "]) + F.adversarial_text(rng, opening, closing)
        return t
    if rng.random() < 0.08:
        # a long multi-line message (report, traceback): many separate runs of line breaks, payload after each;
        # any per-call budget of substitutions (8, 16, 32, 64 ...) is exceeded
        runs = rng.choice([9, 10, 12, 17, 20, 33, 40, 65, 70, 130])
        brk = rng.choice(["\n", "\r", "\r\n", None])
        parts = []
        for i in range(runs):
            parts.append(rng.choice(["step", "G1 X9", "M3 S1000", "a", "é", closing or "x"]) + str(i))
            parts.append(brk or rng.choice(["\r", "\n", "\r\n", "\n\n", " \n "]))
        parts.append(rng.choice(["G1 X9", "M3 S1000", "end"]))
        return "".join(parts)
    n = rng.choice([0, 1, 1, 2, 2, 3, 4, 6, 10])
    parts = []
    for _ in range(n):
        r = rng.random()
        if r < 0.22:
            parts.append(rng.choice(["\r", "\n", "\r\n"]))
        elif r < 0.37 and closing:
            parts.append(closing)
        elif r < 0.45 and closing and len(closing) > 1:
            parts.append(rng.choice([closing[0], closing[1], closing[0] * 2 + closing[1] * 2, closing[1] + closing[0],
                                     # the closing symbol split by characters a later transcoding step might drop
                                     closing[0] + "é" + closing[1], closing[0] + "日本" + closing[1] + " G1 X9",
                                     closing[0] + "\x00" + closing[1]]))
        else:
            parts.append(rng.choice(ATOMS))
    return "".join(parts)


def alphabet9(opening, closing):
    """the 9-symbol adversarial alphabet of the exhaustive sub-run"""
    close = closing or ")"
    return ["\r", "\n", close, opening, "G1 X9", " ", "é", "\x85", "{}"]


def run_batch(R, triples, label, fresh, oracle_only=False):
    """triples: (sym, le, name, text)"""
    sessions = {}
    lines, spans = [], []
    for sym, le, name, text in triples:
        s = sessions.setdefault((sym, le), Session(sym, le, fresh))
        ml = s.model_lines(name, text)
        spans.append((len(lines), len(ml)))
        lines += ml
    model = None if oracle_only else core.run_model("format", lines)
    for (sym, le, name, text), (lo, k) in zip(triples, spans):
        s = sessions[(sym, le)]
        judge(R, s, name, text, None if model is None else model[lo: lo + k], label)


# ------------------------------------------------------------------ histories: text, then commands that depend on state
#
# The statement compares "the same calls" with the caller's text and with an innocuous one.  A text can also change
# what is executed *later*: anything that reads words back out of a written statement (to follow the distance mode,
# the tool, the units ...) and is not as careful about comments as a machine is, lets a text that merely mentions
# `G91` or `M3` alter the tracked state, and the commands whose output depends on that state (move_absolute /
# rapid_absolute / absolute_mode() / relative_mode(), the interlocked tool / coolant / halt commands) then emit other
# lines.  So: whole call histories on ONE fresh builder, in which the texts are made of G-code / M-code words (modal
# ones above all), followed by state-dependent commands; the same history is run again with every text replaced by
# the empty string and by an innocuous text of the same shape (`twin_text`), and every call - not only the ones that
# carry a text - must write the same executable words and the same number of line breaks, and raise the same way.
# The Lean model (Format.lean) has no notion of a builder's carried state: these run through the implementation and
# the oracle only, counted under `history*`.

CODE_WORDS = (["G90", "G91"] * 4 + ["G90.1", "G91.1", "G92 X0", "G92 X0 Y0 Z0", "G92.1", "G20", "G21", "G17", "G18", "G19",
                                    "G93", "G94", "M82", "M83", "M3", "M03 S1000", "M4", "M5", "M05", "M6", "T1 M6", "T01 M06",
                                    "M7", "M8", "M9", "M09", "M0", "M00", "M1", "M2", "M30", "M60", "M112", "G28", "G28 X0",
                                    "G0 X0 Y0", "G1 X9 F100", "G4 P1", "G53", "G54", "S1000", "F100", "M104 S200",
                                    "M109 S200", "M140 S60", "M190 S60", "M106 S255", "M107", "G38.2 Z-5"])
PHRASES = ["{a}", "{a}", "{a} {b}", "do not switch to {a} in this section", "{a} is restored later", "was {a}, now {b}",
           "see {a}.", "{a}: {b}", "N10 {a}", "{a}*71", "{a}{b}", "step 3 - {a} - then {b}", "{a} ; {b}", "; {a}", "%{a}",
           "{a}\t{b}", "=={a}=="]
COORDS = [0, 1, 2, 5, 10, -3, 2.5, 7.25, -0.5, 20]


def code_text(rng, opening, closing):
    """a caller text made of G-code / M-code words; sometimes behind a delimiter or a line break"""
    def word():
        w = rng.choice(CODE_WORDS)
        r = rng.random()
        if r < 0.12:
            w = w.lower()
        elif r < 0.18:
            w = w.replace(" ", "")
        return w
    t = rng.choice(PHRASES).format(a=word(), b=word())
    r = rng.random()
    if r < 0.08 and closing:
        t = f"x {closing} {t} {opening}"
    elif r < 0.14:
        t = "x" + rng.choice(["\n", "\r\n", "\r"]) + t
    elif r < 0.18:
        t = f"{opening} {t} {closing}".strip()
    elif r < 0.24:
        t = t + rng.choice([" ", "\n", " é", " ✓"])
    return t


def twin_text(text):
    """an innocuous text of the same shape: same length, same blanks, every other character a plain letter"""
    return "".join(c if c == " " else "w" for c in text)


TEXT_ENTRIES_IN_HISTORY = ["comment", "comment", "comment-args", "annotate", "annotate", "move", "rapid", "move_absolute",
                           "rapid_absolute", "move-nothing", "set_axis", "auto_home", "probe", "polyline",
                           "emergency_halt", "emergency_halt-reset", "halt", "halt-params"]


def _point(rng, always=False):
    p = {}
    for ax in "xyz":
        if rng.random() < (0.55 if ax != "z" else 0.2):
            p[ax] = rng.choice(COORDS)
    if not p and (always or rng.random() < 0.8):
        p["x"] = rng.choice(COORDS)
    return p


def gen_text_op(rng, opening, closing):
    return ["text", rng.choice(TEXT_ENTRIES_IN_HISTORY), code_text(rng, opening, closing)]


def gen_dependent_op(rng, opening, closing, depth=0):
    """a command whose output (or refusal) depends on state carried by the builder"""
    r = rng.random()
    if r < 0.17:
        return ["move_absolute", _point(rng)]
    if r < 0.27:
        return ["rapid_absolute", _point(rng)]
    if r < 0.39:
        return [rng.choice(["move", "rapid"]), _point(rng)]
    if r < 0.52 and depth == 0:
        body = []
        for _ in range(rng.choice([1, 1, 2, 3])):
            body.append(gen_text_op(rng, opening, closing) if rng.random() < 0.3
                        else gen_dependent_op(rng, opening, closing, depth + 1))
        return [rng.choice(["abs_ctx", "rel_ctx"]), body]
    if r < 0.60:
        return ["mode", rng.choice(["absolute", "relative"])]
    if r < 0.64:
        return ["polyline", [[rng.choice(COORDS), rng.choice(COORDS), 0] for _ in range(rng.choice([1, 2, 3]))]]
    if r < 0.92:
        return ["call"] + rng.choice([
            ["tool_on", [rng.choice(["clockwise", "counter"]), rng.choice([1000, 0, 12000.5])]], ["tool_off", []],
            ["coolant_on", [rng.choice(["flood", "mist"])]], ["coolant_off", []],
            ["tool_change", [rng.choice(["manual", "automatic"]), rng.choice([1, 2, 12])]],
            ["power_on", [rng.choice(["constant", "dynamic"]), rng.choice([50, 100])]], ["power_off", []],
            ["set_extrusion_mode", [rng.choice(["absolute", "relative"])]], ["set_plane", [rng.choice(["xy", "zx", "yz"])]],
            ["set_length_units", [rng.choice(["millimeters", "inches"])]], ["set_feed_rate", [rng.choice([100, 1200.5])]],
            ["set_feed_mode", [rng.choice(["1/time", "units/min"])]], ["set_tool_power", [rng.choice([0, 80])]],
            ["halt", [rng.choice(["pause", "optional-pause", "end-with-reset"])]], ["sleep", [rng.choice([1, 0.5])]],
            ["set_axis", [{"x": 0}]], ["auto_home", [{}]]])
    if r < 0.97:
        return ["transform"] + rng.choice([["translate", [rng.choice(COORDS), rng.choice(COORDS), 0]],
                                           ["scale", [rng.choice([2, 0.5])]], ["rotate", [rng.choice([90, 180, 30])]],
                                           ["mirror", ["zx"]]])
    if depth:
        # (a call's bytes are read under ONE style: the style is only switched between top-level calls)
        return ["move_absolute", _point(rng, True)]
    return ["style", rng.choice([s for s in F.ALL_SYMBOLS if F.style_of(s)[0] != opening])]


def gen_history(rng, sym):
    opening, closing = F.style_of(sym)
    ops = []
    if rng.random() < 0.65:
        ops.append(["mode", rng.choice(["absolute", "relative"])])
    for _ in range(rng.choice([0, 0, 1, 2])):
        ops.append([rng.choice(["move", "rapid", "move_absolute"]), _point(rng, True)])
    for _ in range(rng.choice([1, 1, 2, 2, 3, 4])):
        ops.append(gen_text_op(rng, opening, closing))
        for _ in range(rng.choice([1, 2, 2, 3])):
            op = gen_dependent_op(rng, opening, closing)
            ops.append(op)
            if op[0] == "style":
                opening, closing = F.style_of(op[1])
    return ops


def map_texts(ops, f):
    return [["text", op[1], f(op[2])] if op[0] == "text" else
            [op[0], map_texts(op[1], f)] if op[0] in ("abs_ctx", "rel_ctx") else op for op in ops]


def texts_of(ops):
    out = []
    for op in ops:
        if op[0] == "text":
            out.append(op[2])
        elif op[0] in ("abs_ctx", "rel_ctx"):
            out += texts_of(op[1])
    return out


def _exec_op(g, eps, op):
    k = op[0]
    if k == "text":
        eps[op[1]][0](g, op[2])
    elif k == "mode":
        g.set_distance_mode(op[1])
    elif k in ("move", "rapid", "move_absolute", "rapid_absolute"):
        getattr(g, k)(**op[1])
    elif k in ("abs_ctx", "rel_ctx"):
        with (g.absolute_mode() if k == "abs_ctx" else g.relative_mode()):
            for sub in op[1]:
                _exec_op(g, eps, sub)
    elif k == "polyline":
        g.trace.polyline([tuple(p) for p in op[1]])
    elif k == "call":
        args = op[2]
        if args and isinstance(args[0], dict):
            getattr(g, op[1])(**args[0])
        else:
            getattr(g, op[1])(*args)
    elif k == "transform":
        getattr(g.transform, op[1])(*op[2])
    elif k == "style":
        g.format.set_comment_symbols(op[1])
    else:
        raise core.Infra(f"unknown history op {op!r}")


def run_history(sym, le, ops):
    """one fresh builder, the calls of `ops` in order; per top-level call: (exception class, bytes, executable words,
    line-break count) - comments removed under the style in force when the call was made"""
    g, rec = F.make_builder(5, sym, le)
    eps = entry_points()
    opening, closing = F.style_of(sym)
    out = []
    for op in ops:
        rec.raw.clear()
        exc = None
        try:
            _exec_op(g, eps, op)
        except core.Infra:
            raise
        except Exception as e:  # noqa: BLE001
            exc = type(e).__name__
        raw = b"".join(rec.raw).decode("utf-8", "replace")
        if op[0] == "style" and exc is None:
            opening, closing = F.style_of(op[1])
        out.append((exc, raw, F.strip_comments(raw, opening, closing), F.break_count(raw)))
    return out


def history_verdict(sym, le, ops):
    """None, or (tag, message): the first call of the history that differs from the twin runs"""
    mine = run_history(sym, le, ops)
    for bname, f in (("empty", lambda t: ""), (INNOCUOUS, twin_text)):
        twin = run_history(sym, le, map_texts(ops, f))
        for i, (op, (exc, raw, ex, nb), (bexc, braw, bex, bnb)) in enumerate(zip(ops, mine, twin)):
            own = op[0] == "text"
            where = (f"call #{i} {op!r}" + ("" if own else f" after the texts {texts_of(ops[:i + 1])!r}")
                     + f", compared with the same history with {bname} texts")
            if exc != bexc:
                return "raises", f"{where}: {'raised ' + exc if exc else 'did not raise'} instead of " \
                                 f"{'raising ' + bexc if bexc else 'succeeding'}"
            if ex != bex:
                return ("escape" if own else "carried"), \
                    f"{where}: executable words {ex!r} instead of {bex!r} (bytes {raw!r} instead of {braw!r})"
            if nb != bnb:
                return "lines", f"{where}: {nb} line-break characters instead of {bnb} (bytes {raw!r})"
    return None


def judge_history(R, sym, le, ops, label, shrink=True):
    case = {"symbols": sym, "line_endings": le, "history": ops}
    texts = texts_of(ops)
    R.case(case, nontrivial=any(texts), validated=False)
    R.count(label, "history:style:" + F.style_of(sym)[0], "history:texts:" + str(len(texts)),
            *("history-op:" + (op[0] if op[0] != "call" else op[1]) for op in ops))
    v = history_verdict(sym, le, ops)
    R.count("history-outcome:" + (v[0] if v else "same-as-twins"))
    if v is None:
        return
    if shrink and len(R.failures) < 3:
        ops = core.shrink_list(ops, lambda c: bool(c) and history_verdict(sym, le, c) is not None, max_rounds=80)
        v = history_verdict(sym, le, ops) or v
        case = {"symbols": sym, "line_endings": le, "history": ops}
    R.fail(case, v[1], tag="history-" + v[0])


# hand-written members of the family (run under every comment style)
HISTORY_CORPUS = [
    [["mode", "absolute"], ["move", {"x": 5, "y": 5}], ["text", "comment", "keep G91 out of this section"],
     ["move_absolute", {"x": 10, "y": 0}], ["move", {"x": 20, "y": 20}]],
    [["mode", "relative"], ["text", "move", "back to G90 after the pocket"], ["rapid_absolute", {"x": 0, "y": 0}],
     ["move", {"x": 5}], ["abs_ctx", [["move", {"x": 1}]]]],
    [["text", "annotate", "M3 S1000 / T1 M6 / M8"], ["call", "tool_on", ["clockwise", 1000]], ["call", "coolant_on", ["flood"]],
     ["rel_ctx", [["text", "comment", "G90 M5 M9 M30"], ["move", {"x": 2}]]], ["call", "tool_change", ["manual", 2]],
     ["text", "emergency_halt", "G91 G28 Z0 then M112"], ["move_absolute", {"x": 0}]],
]


def run_histories(R, n, label):
    rng = R.rng
    for _ in range(n):
        sym = rng.choice(F.ALL_SYMBOLS + ["( ", " ; "])
        judge_history(R, sym, rng.choice(EOLS), gen_history(rng, sym), label)


CORPUS = ["x\nM3 S1000", "a\rG1 X9", "a\r\nG1 X9", "a) G1 X5 (b", "a ] G1 X5 [", "b } G1 X5 {", "c > G1 X5 <",
          'd " G1 X5 "', "e ' G1 X5 '", "f */ G1 X5 /*", "**//", "*/*/", "* /", "trail  \r", "\n", "\r\n\r\n", "",
          "   ", "{} {0} %s", "x\x85G1 X9", "x G1 X9", "x\x0bG1 X9", "x\x0cG1 X9", "tab\there", "é✓", "; G1 X9", "( G1 X9 )",
          # look-alikes (full-width / small forms) of every closing symbol, closers nested in themselves, line boundaries
          # other than CR / LF (see fmt_common.adversarial_text for the generated family)
          "a\uff09 \uff3d \uff5d \uff1e \uff0a\uff0f G1 X5", "b \ufe5a \ufe5c \ufe65 *\uff0f \uff0a/ M3 S1000 \uff1b",
          "c )) ]] }} >> ***/// */*/ G1 X5", "x\u2028G1 X9\u2029M3 S1000\x1cM112"]


def run(R: core.Run):
    R.rule = ("(text, comment style, line ending, entry point); non-trivial = non-empty text (counted separately: text "
              "containing CR/LF, text containing the closing delimiter of the style in force); distinct by hash")
    R.assumptions = [
        "a machine treats CR and LF (and nothing else) as line breaks; comments are `opening … closing` or "
        "`opening … end of line` under the configured style; the first closing delimiter ends a bracketed comment",
        "comment symbols do not contain the text '{}' (with symbols '{}' the template's opening part is empty and "
        "every comment is emitted as bare text - a configuration outside COMMENT_OPENINGS and outside this check)",
        "text is valid Unicode (a lone surrogate makes `bytes(line, 'utf-8')` fail with GscribError before anything is written)",
        "string-valued *parameters* (e.g. `move(x=1, P='1\\nM3')`) are emitted verbatim by `parameters()`: they are "
        "G-code words by construction, not comment text, and are not part of this property's entry points",
    ]
    R.trusted = [
        "Lean 4.33 kernel; axioms propext, Classical.choice, Quot.sound only (audited per theorem)",
        "hand-written Lean model Model/Format.lean (comment, sanitiser with re.sub / str.replace semantics, line), "
        "tied to /repo by this run's correspondence check",
        "Python harness: generators, recording writer, the independent comment stripper",
    ]
    if not F.repo_styles_match():
        R.notes.append("COMMENT_OPENINGS/ENDINGS of the tree under test differ from the harness table")
        R.count("styles-table-differs")
    names = list(entry_points())
    rng = R.rng
    # corpus: the historic escapes under every style and entry point
    corpus = [(sym, rng.choice(EOLS), name, t) for sym in F.ALL_SYMBOLS for name in names for t in
              rng.sample(CORPUS, 3 if not R.thorough else len(CORPUS))]
    run_batch(R, corpus, "corpus", fresh=False)
    # histories (implementation + oracle only): texts made of G-code words, then state-dependent commands
    for k, ops in enumerate(HISTORY_CORPUS):
        for sym in F.ALL_SYMBOLS:
            judge_history(R, sym, EOLS[k % len(EOLS)], ops, "history:corpus")
    run_histories(R, R.n(260, 20000), "history:random")
    triples = []
    for _ in range(R.n(6000, 200000)):
        sym = rng.choice(F.ALL_SYMBOLS + [" ; ", "( "])
        triples.append((sym, rng.choice(EOLS), rng.choice(names), gen_text(rng, F.style_of(sym)[1], F.style_of(sym)[0])))
    fresh_n = R.n(600, 5000)
    run_batch(R, triples[:fresh_n], "random:fresh-builder", fresh=True)
    for i in range(fresh_n, len(triples), 50000):
        run_batch(R, triples[i: i + 50000], "random", fresh=False)
    if R.thorough:
        # exhaustive small scope: all strings <= 4 over the 9-symbol alphabet x all styles, on a rotating entry point
        # (every entry point sees every string of length <= 3 under every style)
        total = 0
        for sym in F.ALL_SYMBOLS:
            opening, closing = F.style_of(sym)
            alpha = alphabet9(opening, closing)
            batch = []
            k = 0
            for L in range(0, 5):
                for tup in itertools.product(alpha, repeat=L):
                    t = "".join(tup)
                    if L <= 3:
                        for name in names:
                            batch.append((sym, "\\n", name, t))
                    else:
                        batch.append((sym, EOLS[k % 3], names[k % len(names)], t))
                        k += 1
            total += len(batch)
            run_batch(R, batch, "exhaustive<=4", fresh=False)
        R.exhaustive = False
        R.extra["exhaustive_subrun"] = {
            "cases": total, "exhaustive": True,
            "scope": "per style: all strings of length <= 3 over {CR, LF, closing, opening, 'G1 X9', ' ', 'é', NEL, '{}'} "
                     "x every entry point, and all strings of length 4 with entry point and line ending rotating"}
    if R.broken:
        R.search_batches += 1
        more = []
        for _ in range(R.n(6000, 40000)):
            sym = rng.choice(F.ALL_SYMBOLS)
            more.append((sym, rng.choice(EOLS), rng.choice(names), gen_text(rng, F.style_of(sym)[1], F.style_of(sym)[0])))
        run_batch(R, more, "search", fresh=False, oracle_only=True)
        run_histories(R, R.n(500, 10000), "history:search")
    return {}, {}


def replay(data):
    core.use_repo()
    fl = data.get("failure") or data.get("first", {})
    case = fl.get("case")
    if isinstance(case, dict) and "history" in case:
        R = core.Run(PROP, "quick", 0)
        R.scratch = True
        judge_history(R, case["symbols"], case["line_endings"], case["history"], "replay", shrink=False)
        print("case  :", case)
        for label, ops in (("impl  :", case["history"]), ("twin  :", map_texts(case["history"], twin_text))):
            print(label, [exc or raw for exc, raw, _, _ in run_history(case["symbols"], case["line_endings"], ops)])
        print("oracle:", [f["message"] for f in R.failures] or "ok")
        return 1 if R.failures else 0
    if not isinstance(case, dict) or "entry" not in case:
        print("replay: no case recorded (", data.get("no_longer_checks"), ")")
        return 1
    R = core.Run(PROP, "quick", 0)
    R.scratch = True
    s = Session(case["symbols"], case["line_endings"], True)
    model = core.run_model("format", s.model_lines(case["entry"], case["text"]))
    judge(R, s, case["entry"], case["text"], model, "replay")
    exc, raw = s.call(case["entry"], case["text"])
    print("case  :", case)
    print("impl  :", exc or repr(raw))
    print("model :", [F.dec(m.split(' | ')[0][3:]) if m.startswith('ok ') else m for m in model])
    print("oracle:", [f["message"] for f in R.failures] or "ok")
    print("corresp:", [b["name"] for b in R.broken] or "ok")
    return 1 if (R.failures or R.broken) else 0

"""Validation of the translator `tools/gen_height.py`: the *generated* Lean functions (driver mode `heightsrc`, built from the
committed `Gen/HeightSrc.lean`) against the real `gscrib.heightmaps` classes, called method by method on the same random
inputs (see `tie_state.py` for the role of this run).

What the translation leaves as parameters is supplied from the real objects: the raster spline as the table of its values at the
pixel centres and at the queried points (computed here as `spline(row, col)`, independently of the order `get_depth_at` uses),
`numpy.hypot` as its value on the one pair of arguments the line gives.  The sparse maps are built from samples of an affine
function whose convex hull is a box, so that scipy's `LinearNDInterpolator` *is* that function inside the box and the fill
value outside; queries within 1e-6 of the box's boundary lines are skipped (Qhull's point location is not modelled there —
finding C19-sparse-hull-vertex).  Structure (number and order of samples, exception class) is compared exactly, numbers within
1e-9 (relative): the implementation rounds where the translation is exact."""
from __future__ import annotations

import warnings
from fractions import Fraction

from . import core

EPS = Fraction(1, 10 ** 9)


def show(q) -> str:
    q = Fraction(q)
    return str(q.numerator) if q.denominator == 1 else f"{q.numerator}/{q.denominator}"


def fl(x) -> Fraction:
    return Fraction(float(x))


def close(a: Fraction, b: Fraction, eps=EPS) -> bool:
    return abs(a - b) <= eps * max(1, abs(a), abs(b))


def parse(s: str) -> Fraction:
    return Fraction(s)


def rec_samples(arr) -> str:
    rows = [":".join(show(fl(v)) for v in row) for row in arr]
    return "ok" + ("" if not rows else " " + " ".join(rows))


def call(f, *a):
    """-> record of a call returning an (N, 3) array"""
    try:
        with warnings.catch_warnings():
            warnings.simplefilter("ignore")
            return rec_samples(f(*a))
    except Exception as e:  # noqa: BLE001 - the class is the observation
        return "err " + type(e).__name__


def agree(impl: str, model: str, eps=EPS) -> bool:
    a, b = impl.split(" "), model.split(" ")
    if a[0] != b[0] or len(a) != len(b):
        return False
    if a[0] == "err":
        return a == b
    for x, y in zip(a[1:], b[1:]):
        xs, ys = x.replace(",", ":").replace(";", ":").split(":"), y.replace(",", ":").replace(";", ":").split(":")
        if len(xs) != len(ys) or not all(close(parse(p), parse(q), eps) for p, q in zip(xs, ys)):
            return False
    return True


def dy(rng, lo, hi, den=64):
    return Fraction(rng.randint(int(lo * den), int(hi * den)), den)


def gen_len(rng):
    return 4 if rng.random() < 0.85 else rng.choice([0, 1, 2, 3, 5, 6])


def validate(rng, cases: int) -> dict:
    core.use_repo()
    import numpy as np
    from gscrib.heightmaps import FlatHeightMap, RasterHeightMap, SparseHeightMap

    lines, want, eps_of = [], [], []
    outcomes: dict = {}

    def add(kind, line, rec, eps=EPS):
        lines.append(line)
        want.append(rec)
        eps_of.append(eps)
        k = kind + ":" + (rec.split(" ")[1] if rec.startswith("err") else "ok")
        outcomes[k] = outcomes.get(k, 0) + 1

    def lst(v):
        return ",".join(show(x) for x in v)

    n_maps = max(2, cases // 12)
    # ------------------------------------------------------------------ raster
    for _ in range(n_maps):
        w, h = rng.randint(4, 8), rng.randint(4, 8)
        dt = rng.choice([np.uint8, np.uint16])
        top = 255 if dt == np.uint8 else 65535
        img = np.array([[rng.randint(0, top) for _ in range(w)] for _ in range(h)], dtype=dt)
        hm = RasterHeightMap(img)
        sc = rng.choice([Fraction(1, 2), Fraction(1), Fraction(2), Fraction(4), Fraction(rng.randint(1, 400), 100)])
        tol = rng.choice([fl(rng.uniform(0.01, 1.5)), Fraction(rng.randint(0, 64), 64)])
        hm.set_scale(float(sc))
        hm.set_tolerance(float(tol))
        sc, tol = fl(float(sc)), fl(float(tol))
        table = {(Fraction(r), Fraction(c)): fl(hm._interpolator(r, c)[0, 0]) for r in range(h) for c in range(w)}
        # point queries: pixel centres, the four edges (which comparison is strict), just inside / outside, off-grid points
        qs = []
        for _ in range(8):
            k = rng.random()
            if k < 0.3:
                q = (Fraction(rng.randint(-1, w)), Fraction(rng.randint(-1, h)))
            elif k < 0.6:
                q = (rng.choice([Fraction(0), Fraction(w), Fraction(w - 1), Fraction(-1, 64), w - Fraction(1, 64), dy(rng, 0, w - 1)]),
                     rng.choice([Fraction(0), Fraction(h), Fraction(h - 1), Fraction(-1, 64), h - Fraction(1, 64), dy(rng, 0, h - 1)]))
            else:
                q = (dy(rng, -1, w + 1), dy(rng, -1, h + 1))
            qs.append(q)
        ex = dict(table)
        for x, y in qs:
            for r, c in ((y, x), (x, y)):
                if (r, c) not in ex:
                    ex[(r, c)] = fl(hm._interpolator(float(r), float(c))[0, 0])
        head = f"sc={show(sc)} tol={show(tol)} w={w} h={h} ex=" + ",".join(f"{show(r)}:{show(c)}:{show(v)}" for (r, c), v in ex.items())
        add("rdepth", f"rdepth {head} q=" + ",".join(f"{show(x)}:{show(y)}" for x, y in qs),
            "ok " + " ".join(show(fl(hm.get_depth_at(float(x), float(y)))) for x, y in qs))
        head = f"sc={show(sc)} tol={show(tol)} w={w} h={h} ex=" + ",".join(f"{show(r)}:{show(c)}:{show(v)}" for (r, c), v in table.items())
        for _ in range(6):
            n = gen_len(rng)
            # ends on the half-integers exercise round-half-to-even
            ln = [rng.choice([dy(rng, -2, max(w, h) + 2, 2), dy(rng, -2, max(w, h) + 2, 8)]) for _ in range(n)]
            if rng.random() < 0.5:
                add("rline", f"rline {head} line={lst(ln)}", call(hm._interpolate_line, np.asarray([float(v) for v in ln], dtype=float)))
            else:
                add("rpath", f"rpath {head} line={lst(ln)}", call(hm.sample_path, [float(v) for v in ln]))
        px = [[rng.randint(0, top) for _ in range(rng.randint(1, 3))] for _ in range(rng.randint(1, 3))]
        px = [row[:len(px[0])] + [0] * (len(px[0]) - len(row)) for row in px]
        got = hm._to_height_map(np.array(px, dtype=dt))
        add("norm", f"norm dtype={'uint8' if dt == np.uint8 else 'uint16'} px=" + ";".join(",".join(str(v) for v in row) for row in px),
            "ok " + ";".join(",".join(show(fl(v)) for v in row) for row in got), Fraction(1, 10 ** 6))
        fresh = RasterHeightMap(img)
        add("init", "init cls=R", f"ok {show(fl(fresh._scale_z))}:{show(fl(fresh._tolerance))}")
    # ------------------------------------------------------------------ sparse
    for _ in range(n_maps):
        bw, bh = rng.randint(4, 12), rng.randint(4, 12)
        a, b, c = (fl(rng.uniform(-2, 2)) for _ in range(3))
        pts = [(0, 0), (bw, 0), (0, bh), (bw, bh)] + [(float(dy(rng, 0, bw, 4)), float(dy(rng, 0, bh, 4))) for _ in range(rng.randint(2, 8))]
        data = np.array([[x, y, float(a) * x + float(b) * y + float(c)] for x, y in pts], dtype=float)
        hm = SparseHeightMap(data)
        sc = rng.choice([Fraction(1, 2), Fraction(1), Fraction(2), Fraction(rng.randint(1, 400), 100)])
        hm.set_scale(float(sc))
        sc = fl(float(sc))
        base = f"sc={show(sc)} aff={show(a)},{show(b)},{show(c)} box={bw},{bh}"

        def off(lo, hi):
            return dy(rng, lo, hi - 1) + Fraction(1, 128)           # never on a boundary line of the box
        qs = [(off(-2, bw + 2), off(-2, bh + 2)) for _ in range(6)]
        add("sdepth", f"sdepth {base} q=" + ",".join(f"{show(x)}:{show(y)}" for x, y in qs),
            "ok " + " ".join(show(fl(hm.get_depth_at(float(x), float(y)))) for x, y in qs))
        for _ in range(6):
            tol = Fraction(0) if rng.random() < 0.06 else fl(rng.uniform(0.05, 3))
            hm.set_tolerance(float(tol))
            n = gen_len(rng)
            if rng.random() < 0.8:
                ln = [off(0, bw), off(0, bh), off(0, bw), off(0, bh)][:n] + [off(0, bw)] * max(0, n - 4)
            else:
                ln = [off(-2, bw + 2), off(-2, bh + 2), off(-2, bw + 2), off(-2, bh + 2)][:n] + [off(0, bw)] * max(0, n - 4)
            if n == 4 and rng.random() < 0.08:
                ln[2], ln[3] = ln[0], ln[1]                          # a line of length zero
            fs = [float(v) for v in ln]
            if n == 4:
                dx, dyv = fs[2] - fs[0], fs[3] - fs[1]
                hyp = f"{show(fl(dx))}:{show(fl(dyv))}:{show(fl(np.hypot(dx, dyv)))}"
                if tol != 0:
                    allp = hm._interpolate_line(np.asarray(fs, dtype=float))
                    if any(min(abs(p[0]), abs(p[0] - bw)) < 1e-6 or min(abs(p[1]), abs(p[1] - bh)) < 1e-6 for p in allp):
                        outcomes["skipped-boundary"] = outcomes.get("skipped-boundary", 0) + 1
                        continue
            else:
                hyp = "0:0:0"
            tail = f"tol={show(tol)} hyp={hyp} line={lst(ln)}"
            if rng.random() < 0.5:
                add("sline", f"sline {base} {tail}", call(hm._interpolate_line, np.asarray(fs, dtype=float)))
            else:
                add("spath", f"spath {base} {tail}", call(hm.sample_path, fs))
        fresh = SparseHeightMap(data)
        add("init", "init cls=S", f"ok {show(fl(fresh._scale_z))}:{show(fl(fresh._tolerance))}")
    # ------------------------------------------------------------------ _filter_points (exact ties), setters, flat
    img = np.zeros((4, 4), dtype=np.uint8)
    sdata = np.array([[0, 0, 0], [4, 0, 1], [0, 4, 2], [4, 4, 3.0]])
    for _ in range(cases):
        tol = rng.choice([Fraction(0), Fraction(1, 4), Fraction(1, 2), Fraction(1), dy(rng, 0, 2, 8)])
        n = rng.choice([0, 1, 1, 2, 3, 5, 8, 12])
        z = Fraction(0)
        pts = []
        for i in range(n):
            z += rng.choice([Fraction(0), tol, -tol, tol / 2, dy(rng, -1, 1, 8)])
            pts.append((Fraction(i), dy(rng, 0, 4, 4), z))
        cls = rng.choice("RS")
        hm = RasterHeightMap(img) if cls == "R" else SparseHeightMap(sdata)
        arr = np.array([[float(v) for v in p] for p in pts], dtype=float).reshape(len(pts), 3)
        add("filter" + cls, f"filter{cls} tol={show(tol)} pts=" + ",".join(":".join(show(v) for v in p) for p in pts),
            call(hm._filter_points, arr, float(tol)))
    for _ in range(max(8, cases // 2)):
        cls, what = rng.choice("RS"), rng.choice(["scale", "tol"])
        v = rng.choice([Fraction(0), Fraction(-1, 64), Fraction(1, 64), Fraction(-2), Fraction(1), dy(rng, -3, 3)])
        hm = RasterHeightMap(img) if cls == "R" else SparseHeightMap(sdata)
        hm.set_scale(3.0)
        hm.set_tolerance(5.0)
        try:
            (hm.set_scale if what == "scale" else hm.set_tolerance)(float(v) if v != 0 or rng.random() < 0.5 else -0.0)
            rec = f"ok {show(fl(hm._scale_z))} {show(fl(hm._tolerance))}"
        except Exception as e:  # noqa: BLE001
            rec = "err " + type(e).__name__
        add("set-" + what, f"set cls={cls} what={what} v={show(v)}", rec)
    flat = FlatHeightMap()
    for _ in range(max(8, cases // 2)):
        if rng.random() < 0.3:
            x, y = dy(rng, -9, 9), dy(rng, -9, 9)
            add("fdepth", f"fdepth x={show(x)} y={show(y)}", "ok " + show(fl(flat.get_depth_at(float(x), float(y)))))
        else:
            ln = [dy(rng, -9, 9) for _ in range(gen_len(rng))]
            add("fpath", f"fpath line={lst(ln)}", call(flat.sample_path, [float(v) for v in ln]))

    got = core.run_model("heightsrc", lines)
    for ln, w_, g, eps in zip(lines, want, got, eps_of):
        kind = ln.split(" ")[0]
        if kind in ("rdepth", "sdepth", "fdepth", "norm"):
            g = "ok " + g
        elif kind == "init":
            g = "ok " + g.replace(" ", ":")
        if not agree(w_, g, eps):
            return {"cases": cases, "calls": len(lines), "outcomes": outcomes,
                    "disagreement": {"ops": [ln], "step": 0, "impl": w_, "model": g}}
    return {"cases": cases, "calls": len(lines), "outcomes": outcomes, "disagreement": None}

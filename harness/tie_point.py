"""Validation of the translator `tools/gen_point.py`: the *generated* Lean functions (driver mode `point`, built from the
committed `Gen/PointSrc.lean`) against the real `gscrib.geometry.Point` methods on random points with unknown
coordinates (see `tie_state.py` for the role of this run)."""
from __future__ import annotations

from fractions import Fraction

from . import core


def show(q) -> str:
    if q is None:
        return "-"
    q = Fraction(q)
    return str(q.numerator) if q.denominator == 1 else f"{q.numerator}/{q.denominator}"


def gen_pt(rng, p_none=0.3):
    return [None if rng.random() < p_none else Fraction(rng.randint(-64, 64), rng.choice([1, 2, 32])) for _ in range(3)]


def validate(rng, cases: int) -> dict:
    core.use_repo()
    from gscrib.geometry import Point

    P = lambda v: Point(*[None if c is None else float(c) for c in v])
    line = lambda v: ";".join(show(c) for c in v)
    canon = lambda p: ",".join("~" if c is None else show(Fraction(repr(float(c)))) for c in p)
    lines, want = [], []
    outcomes: dict = {}
    for _ in range(cases * 5):
        k = rng.choice(["resolve", "replace", "mask", "combine", "within"])
        outcomes[k] = outcomes.get(k, 0) + 1
        if k == "resolve":
            p = gen_pt(rng)
            lines.append(f"resolve {line(p)}")
            want.append(canon(P(p).resolve()))
        elif k in ("replace", "mask"):
            p, q = gen_pt(rng), gen_pt(rng, 0.5)
            lines.append(f"{k} {line(p)} {line(q)}")
            want.append(canon(getattr(P(p), k)(*[None if c is None else float(c) for c in q])))
        elif k == "combine":
            s, o, m = gen_pt(rng, 0.6), gen_pt(rng, 0.0), gen_pt(rng, 0.0)
            t = [o[i] if rng.random() < 0.5 else gen_pt(rng, 0.0)[i] for i in range(3)]
            lines.append(f"combine {line(s)} {line(o)} {line(t)} {line(m)}")
            want.append(canon(P(s).combine(P(o), P(t), P(m))))
        else:
            lo = gen_pt(rng, 0.1)
            hi = [None if (l is None and rng.random() < 0.5) else (l if l is not None else Fraction(0)) + rng.randint(0, 40) for l in lo]
            p = [None if rng.random() < 0.25 else rng.choice([lo[i], hi[i], Fraction(rng.randint(-80, 120), 2)]) for i in range(3)]
            lines.append(f"within {line(p)} {line(lo)} {line(hi)}")
            want.append("1" if P(p).within_bounds(P(lo), P(hi)) else "0")
    got = core.run_model("point", lines)
    for ln, w, g in zip(lines, want, got):
        if w != g:
            return {"cases": cases, "calls": len(lines), "outcomes": outcomes, "disagreement": {"ops": [ln], "step": 0, "impl": w, "model": g}}
    return {"cases": cases, "calls": len(lines), "outcomes": outcomes, "disagreement": None}

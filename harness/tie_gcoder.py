"""Validation of the translator `tools/gen_gcoder.py`: the *generated* Lean functions (driver mode `gcodersrc`, built from the
committed `Gen/GcoderSrc.lean`) against the real `gscrib.printrun.gcoder.GCode` / `LightGCode` (see `tie_state.py` for the role
of this run).

A random job (Z moves back and forth, extruding and travel moves, relative mode, comments, blank lines) is handed to the real
constructor, then a few `append()` calls follow (blank commands and `store=False` among them).  What the translation leaves
open - *which* lines each call of the nested `append_lines` was handed and whether it started a new layer - is observed on
the real run with `sys.setprofile` (the library is not patched): the lines are the first argument of the call, "new layer"
is `len(all_layers)` having grown when the call returns.  The translated functions are fed that batch structure and the same
`append` calls; compared are `all_layers` (by identity of the line objects), `layer_idxs`, `line_idxs`, `append_layer_id`,
the position of `append_layer` in `all_layers`, `lines`, `len`, and for every `k` from `-(len+2)` to `len+1`:
`has_index(k)`, `idxs(k)` and `all_layers[layer][line]` (or `IndexError`)."""
from __future__ import annotations

import sys

from . import core

ZS = ["0.2", "0.4", "0.6", "0.8"]


def gen_command(rng, st) -> str:
    r = rng.random()
    if r < 0.27:
        return f"G1 Z{rng.choice(ZS)}" + (" F300" if rng.random() < 0.3 else "")
    if r < 0.62:
        st["e"] += rng.randint(1, 3)
        e = rng.randint(1, 3) if st["rel_e"] else st["e"]
        return f"G1 X{rng.randint(0, 40)} Y{rng.randint(0, 40)} E{e}"
    if r < 0.76:
        return f"G0 X{rng.randint(0, 40)} Y{rng.randint(0, 40)}"
    return rng.choice(["; a comment", "M104 S200", "G28", "G92 Z0.4", "G92 E0", "G4 P10", "  ", "", "G1 Z0.2 E1", "M106 S255", "T0",
                       "G1 X3 Y3 Z0.6 E2", "G1 X1 Y1 Z0.2 E1"])


def gen_job(rng) -> list[str]:
    st = {"e": 0, "rel_e": rng.random() < 0.5}
    out = ["M83"] if st["rel_e"] else []
    if rng.random() < 0.15:
        out.append("G91")
    for _ in range(rng.choice([0, 1, 2, 3, 5, 8, 12, 16, 24])):
        out.append(gen_command(rng, st))
    return out


class Watch:
    """observes the calls of the nested `append_lines` (code object name, in gcoder.py) without touching the library"""

    def __init__(self):
        self.batches = []      # (line objects, len(all_layers) at call, at return)
        self.open = []

    def __call__(self, frame, event, arg):
        code = frame.f_code
        if code.co_name != "append_lines" or not code.co_filename.endswith("gcoder.py"):
            return
        owner = frame.f_back.f_locals.get("self") if frame.f_back is not None else None
        n = len(owner.all_layers) if owner is not None and owner.all_layers is not None else None
        if event == "call":
            self.open.append((list(frame.f_locals[code.co_varnames[0]]), n))
        elif event == "return" and self.open:
            lines, n0 = self.open.pop()
            self.batches.append((lines, n0, n))


def render_real(g, ident) -> str:
    ids = lambda xs: ",".join(str(ident.get(id(x), "?")) for x in xs)
    ints = lambda xs: ",".join(str(int(x)) for x in xs)
    al = [k for k, layer in enumerate(g.all_layers) if layer is g.append_layer]
    n = len(g)
    qs = []
    for k in range(-(n + 2), n + 2):
        h = "1" if g.has_index(k) else "0"
        try:
            layer, line = g.idxs(k)
            ix = f"{int(layer)}.{int(line)}"
        except IndexError:
            layer = line = None
            ix = "E"
        cell = "E"
        if layer is not None:
            try:
                cell = str(ident.get(id(g.all_layers[layer][line]), "?"))
            except IndexError:
                cell = "E"
        qs.append(f"{k}:{h}:{ix}:{cell}")
    return (f"layers={'|'.join(ids(l) for l in g.all_layers)} li={ints(g.layer_idxs)} ni={ints(g.line_idxs)} "
            f"al={al[0] if len(al) == 1 else '?'} alid={int(g.append_layer_id)} lines={ids(g.lines)} len={n} q={'/'.join(qs)}")


def one_case(rng, gcoder, outcomes):
    """-> (protocol line, the record the real object gives)"""
    cls = gcoder.GCode if rng.random() < 0.6 else gcoder.LightGCode
    data = gen_job(rng)
    keep = []
    ident = {}
    w = Watch()
    old = sys.getprofile()
    sys.setprofile(w)
    try:
        g = cls(data) if data or rng.random() < 0.7 else cls()
    finally:
        sys.setprofile(old)
    for k, ln in enumerate(g.lines):
        ident[id(ln)] = 10 + k
    nxt = 10 + len(g.lines)
    toks = []
    if g.lines:
        start = "P"
        if not w.batches:
            raise core.Infra("tie_gcoder: no call of append_lines was observed while a job was built")
        seen = 0
        per_layer: dict = {}
        for lines, n0, n1 in w.batches:
            if n0 is None or n1 is None or not (n1 == n0 or n1 == n0 + 1):
                raise core.Infra("tie_gcoder: could not observe all_layers around a call of append_lines")
            toks.append(f"b{1 if n1 > n0 else 0}:" + ",".join(str(ident.get(id(x), 0)) for x in lines))
            per_layer[n1 - 1] = per_layer.get(n1 - 1, 0) + (1 if lines else 0)
            seen += len(lines)
        outcomes["batches"] = outcomes.get("batches", 0) + len(w.batches)
        if any(v >= 2 for v in per_layer.values()):
            outcomes["jobs with a layer filled by several batches"] = outcomes.get("jobs with a layer filled by several batches", 0) + 1
        if len(g.all_layers) > 2:
            outcomes["jobs with several layers"] = outcomes.get("jobs with several layers", 0) + 1
    else:
        start = "E"
        outcomes["empty jobs"] = outcomes.get("empty jobs", 0) + 1
    st = {"e": 50, "rel_e": False}
    for _ in range(rng.choice([0, 0, 1, 2, 4])):
        cmd = gen_command(rng, st)
        store = rng.random() < 0.8
        gl = g.append(cmd, store=store)
        if gl is None:
            toks.append("a1" + ("1" if store else "0") + ":0")
            outcomes["append blank"] = outcomes.get("append blank", 0) + 1
        else:
            keep.append(gl)
            ident[id(gl)] = nxt
            toks.append("a0" + ("1" if store else "0") + f":{nxt}")
            nxt += 1
            key = "append stored" if store else "append not stored"
            outcomes[key] = outcomes.get(key, 0) + 1
    return " ".join([start] + toks), render_real(g, ident), len(g) * 2 + 4


def validate(rng, cases: int) -> dict:
    core.use_repo()
    from gscrib.printrun import gcoder

    lines, want = [], []
    outcomes: dict = {}
    calls = 0
    for _ in range(cases):
        try:
            ln, rec, q = one_case(rng, gcoder, outcomes)
        except core.Infra:
            raise
        except Exception as e:      # the real class raised where the translation has no exception
            return {"cases": cases, "calls": calls, "outcomes": outcomes,
                    "disagreement": {"ops": ["building a random job"], "step": len(lines), "impl": f"{type(e).__name__}: {e}", "model": "no exception"}}
        lines.append(ln)
        want.append(rec)
        calls += q
    got = core.run_model("gcodersrc", lines)
    for k, (ln, w, g) in enumerate(zip(lines, want, got)):
        if w != g:
            return {"cases": cases, "calls": calls, "outcomes": outcomes, "disagreement": {"ops": [ln], "step": k, "impl": w, "model": g}}
    return {"cases": cases, "calls": calls, "outcomes": outcomes, "disagreement": None}

"""Validation of the translator `tools/gen_format.py`: the *generated* Lean functions (driver mode `formatsrc`, built from
the committed `Gen/FormatSrc.lean`) against the real `gscrib.formatters.DefaultFormatter` on the same random direct
calls (see `tie_state.py` for the role of this run).

Every case builds a formatter the way `GCodeCore._initialize_formatter` does (fresh object, then the setters for a random
subset of the settings, in that order, possibly one more `set_axis_label` with an arbitrary axis name) and makes one call:
`number`, `line`, `comment`, `parameters`, `command`, or reads the object's fields back.  Compared: the returned string,
or the exception class (a setter that raises ends the case: `setup:<class>`).

Inputs stay inside what the prelude states it models: ASCII parameter names and labels (the case maps are the ASCII
ones), comment symbols without the text `{}`, `line_endings` made of ASCII text and the escapes `\\n \\r \\t \\\\ \\xHH`,
numbers whose binary value prints exactly at the configured precision (dyadic grid) or whose unit in the last place is
below the last printed decimal (numpy then rounds the exact value half-to-even, which is the model's printer), NaN, the
infinities, zero and negative zero.
"""
from __future__ import annotations

import math
from fractions import Fraction

from . import core
from . import fmt_common as fc

TEXT_ALPHABET = ["a", "B", "z", "0", "7", " ", " ", "\n", "\r", "\r\n", "\t", ")", "]", "}", ">", '"', "'", "*/", "*", "/", "(", ";",
                 "{}", "{", " ", " ", "\x1c", "\x85", "é", "G1 X9", "M3"]
KEYS = ["x", "X", "y", "Y", "z", "Z", "f", "F", "e", "E", "s", "p", "P", "i", "j", "xy", "Xy", "a", "comment", "r1"]
LABELS = ["x", "X", "y", "z", "a", " a ", "b\t", " uv", "AB", "c1", "u v"]
BLANK = ["", " ", "\n", "\t "]
LINE_ENDINGS = ["os", "\\n", "\\r\\n", "\n", "\r\n", "\\r", "\\t", "\\x41\\n", "\\\\", ";\\n", "", " \\n", "OS", "os "]


def rand_text(rng, n_max=10) -> str:
    return "".join(rng.choice(TEXT_ALPHABET) for _ in range(rng.randint(0, n_max)))


def rand_number(rng, dp: int):
    """(python value, protocol text)"""
    r = rng.random()
    if r < 0.08:
        return 0, "q0"
    if r < 0.12:
        return rng.choice([0.0, -0.0]), "q0"
    if r < 0.17:
        return math.nan, "nan"
    if r < 0.22:
        return math.inf, "inf"
    if r < 0.27:
        return -math.inf, "-inf"
    if r < 0.45:
        n = rng.choice([1, -1]) * rng.randint(0, 10 ** rng.randint(1, 7))
        return n, "q" + str(n)
    if r < 0.8 or dp < 0:
        # dyadic grid: k / 2^j prints exactly with j decimals
        j = rng.randint(0, max(0, min(dp, 10)))
        q = Fraction(rng.randint(-10 ** 6, 10 ** 6), 2 ** j)
        x = float(q)
        return x, "q" + fc.rat(Fraction(x))
    # any double of moderate size: its ulp is far below 10^-dp (dp <= 8), numpy rounds the exact value
    x = rng.uniform(-1000, 1000) * rng.choice([1, 1e-3, 1e-6])
    return x, "q" + fc.rat(Fraction(x))


def rand_params(rng, dp: int):
    """([(key, python value)], protocol field)"""
    items, fields = [], []
    for _ in range(rng.randint(0, 5)):
        k = rng.choice(KEYS)
        r = rng.random()
        if r < 0.7:
            v, t = rand_number(rng, dp)
        elif r < 0.85:
            v = rand_text(rng, 4)
            t = "s" + fc.enc(v)
        else:
            v, t = None, "N"
        if k in [i[0] for i in items]:
            continue          # a Python dict literal holds each spelling once
        items.append((k, v))
        fields.append(f"{fc.enc(k)}:{t}")
    return items, (",".join(fields) if fields else "~")


def err_name(e: BaseException) -> str:
    n = type(e).__name__
    return "TypeError" if n in ("TypeCheckError", "AttributeError") else n


def validate(rng, cases: int) -> dict:
    core.use_repo()
    from gscrib.formatters import DefaultFormatter

    lines, want, outcomes = [], [], {}

    def note(k):
        outcomes[k] = outcomes.get(k, 0) + 1

    for _ in range(cases):
        fields = []
        fmt, failed = DefaultFormatter(), None
        dp = 5

        def call(fn, *a):
            nonlocal failed
            if failed is None:
                try:
                    fn(*a)
                except Exception as e:  # noqa: BLE001
                    failed = "setup:" + err_name(e)

        if rng.random() < 0.7:
            dp = rng.choice([0, 0, 1, 2, 3, 3, 4, 5, 5, 6, 8]) if rng.random() < 0.96 else rng.choice([-1, -7])
            fields.append(f"dp={dp}")
            call(fmt.set_decimal_places, dp)
        if rng.random() < 0.7:
            sym = rng.choice(fc.ALL_SYMBOLS) if rng.random() < 0.96 else ""
            sym = rng.choice(["", " ", "\t "]) + sym + rng.choice(["", " ", "\n"])
            fields.append(f"sym={fc.enc(sym)}")
            call(fmt.set_comment_symbols, sym)
        if rng.random() < 0.6:
            le = rng.choice(LINE_ENDINGS)
            fields.append(f"le={fc.enc(le)}")
            call(fmt.set_line_endings, le)
        for axis in "xyz":
            if rng.random() < 0.5:
                lab = rng.choice(LABELS) if rng.random() < 0.96 else rng.choice(BLANK)
                fields.append(f"l{axis}={fc.enc(lab)}")
                call(fmt.set_axis_label, axis, lab)
        if rng.random() < 0.15:
            ax, al = rng.choice(["x", "X", "Y", "z", "Z", "w", "", "xy", " x"]), rng.choice(LABELS + BLANK)
            fields += [f"ax={fc.enc(ax)}", f"al={fc.enc(al)}"]
            call(fmt.set_axis_label, ax, al)

        op = rng.choice(["state", "number", "number", "line", "comment", "comment", "params", "params", "command", "command"])
        note(op)
        try:
            if op == "state":
                fields.append("op=state")
                res = (f"ok dp={fmt._decimal_places} eol={fc.enc(fmt._line_endings)} tmpl={fc.enc(fmt._comment_template)} "
                       f"axes={','.join(fc.enc(a) for a in fmt._valid_axes)} "
                       f"labels={','.join(fc.enc(k) + ':' + fc.enc(v) for k, v in fmt._labels.items())}")
            elif op == "number":
                x, t = rand_number(rng, dp)
                fields += ["op=number", "v=" + (t[1:] if t.startswith("q") else t)]
                res = None if failed else "ok " + fc.enc(fmt.number(x))
            elif op == "line":
                s = rand_text(rng)
                fields += ["op=line", "s=" + fc.enc(s)]
                res = None if failed else "ok " + fc.enc(fmt.line(s))
            elif op == "comment":
                s = rand_text(rng)
                fields += ["op=comment", "s=" + fc.enc(s)]
                res = None if failed else "ok " + fc.enc(fmt.comment(s))
            elif op == "params":
                items, t = rand_params(rng, dp)
                fields += ["op=params", "params=" + t]
                res = None if failed else "ok " + fc.enc(fmt.parameters(dict(items)))
            else:
                code = rng.choice(["G1", "G0", "M104", "T1", "g28 "])
                if rng.random() < 0.2:
                    items, t = None, "-"
                else:
                    items, t = rand_params(rng, dp)
                cm = None if rng.random() < 0.3 else rand_text(rng, 6)
                fields += ["op=command", "code=" + fc.enc(code), "params=" + t, "c=" + fc.enc(cm)]
                res = None if failed else "ok " + fc.enc(fmt.command(code, None if items is None else dict(items), cm))
        except Exception as e:  # noqa: BLE001
            res = err_name(e)
        if failed:
            res = failed
            note(failed)
        elif not res.startswith("ok"):
            note(res)
        lines.append(" ".join(fields))
        want.append(res)
    got = core.run_model("formatsrc", lines)
    for ln, w, g in zip(lines, want, got):
        if w != g:
            return {"cases": cases, "calls": len(lines), "outcomes": outcomes,
                    "disagreement": {"ops": [ln], "step": 0, "impl": w, "model": g}}
    return {"cases": cases, "calls": len(lines), "outcomes": outcomes, "disagreement": None}

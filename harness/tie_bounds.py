"""Validation of the translator `tools/gen_bounds.py`: the *generated* Lean functions (driver mode `bounds`, built from the
committed `Gen/BoundsSrc.lean`) against the real `gscrib.geometry.bounds.BoundManager` (and the comparison methods of
the real `Point`): the same short random call sequences on a fresh manager, every outcome compared - exception class,
returned bounds, and (through later `get` / `validate` calls) the state (see `tie_state.py` for the role of this run)."""
from __future__ import annotations

import math
from fractions import Fraction

from . import core

NAMES = ["axes", "bed-temperature", "chamber-temperature", "hotend-temperature", "feed-rate", "tool-number", "tool-power"]
BOGUS = ["bogus", "Axes", "feed_rate", "feed-rate-", "x", "tool"]


def show(q) -> str:
    q = Fraction(q)
    return str(q.numerator) if q.denominator == 1 else f"{q.numerator}/{q.denominator}"


def show_num(v) -> str:
    if isinstance(v, float) and math.isnan(v):
        return "n:nan"
    if isinstance(v, float) and math.isinf(v):
        return "n:inf" if v > 0 else "n:-inf"
    return "n:" + show(Fraction(v))


def show_val(v) -> str:
    if isinstance(v, tuple):        # a Point (NamedTuple)
        return "p:" + ";".join("-" if c is None else show(Fraction(c)) for c in v)
    return show_num(v)


def gen_num(rng, around=None):
    r = rng.random()
    if r < 0.05:
        return float("nan")
    if r < 0.10:
        return rng.choice([float("inf"), float("-inf")])
    if around is not None and r < 0.5:
        return rng.choice(around)
    if r < 0.65:
        return rng.randint(-5, 40)                    # an int
    return float(Fraction(rng.randint(-64, 1280), 32))


def gen_pt(rng, Point, p_none=0.08, around=None):
    cs = []
    for i in range(3):
        if rng.random() < p_none:
            cs.append(None)
        elif around is not None and rng.random() < 0.6:
            cs.append(rng.choice(around)[i])
        else:
            cs.append(float(Fraction(rng.randint(-320, 640), 32)))
    if around is not None:
        cs = [0.0 if c is None and rng.random() < 0.7 else c for c in cs]
    return Point(*cs)


def outcome(f):
    try:
        return f()
    except ValueError:
        return "valueError"
    except AttributeError:
        return "attributeError"
    except TypeError:
        return "typeError"


def validate(rng, cases: int) -> dict:
    core.use_repo()
    from gscrib.geometry import Point
    from gscrib.geometry.bounds import BoundManager

    lines, want = [], []
    outcomes: dict = {}
    calls = 0
    for _ in range(cases):
        m = BoundManager()
        ops, outs = [], []
        nums, pts = [], []          # values seen so far: boundary values for later calls
        for _ in range(rng.randint(2, 7)):
            k = rng.choice(["set", "set", "validate", "validate", "validate", "get", "cmp"])
            name = rng.choice(NAMES) if rng.random() < 0.9 else rng.choice(BOGUS)
            as_point = (name == "axes") != (rng.random() < 0.12)          # mostly the right kind
            if k == "set":
                if as_point:
                    a = gen_pt(rng, Point, around=pts or None)
                    b = (Point(*[None if c is None else c + rng.choice([0, 0, 1, 8, -1]) for c in a]) if rng.random() < 0.7
                         else gen_pt(rng, Point, around=pts or None))
                    pts += [a, b]
                else:
                    a = gen_num(rng, nums or None)
                    b = a + rng.choice([0, 1, 10, 200, -1]) if rng.random() < 0.7 else gen_num(rng, nums or None)
                    nums += [a, b]
                if rng.random() < 0.08:        # mixed kinds
                    b = gen_pt(rng, Point) if not as_point else gen_num(rng)
                ops.append(f"set {name} {show_val(a)} {show_val(b)}")
                r = outcome(lambda: m.set_bounds(name, a, b) or "ok")
            elif k == "validate":
                v = gen_pt(rng, Point, p_none=0.25, around=pts or None) if as_point else gen_num(rng, nums or None)
                ops.append(f"validate {name} {show_val(v)}")
                r = outcome(lambda: m.validate(name, v) or "ok")
            elif k == "get":
                ops.append(f"get {name}")
                r = outcome(lambda: "ok:" + ",".join("~" if x is None else show_val(x) for x in m.get_bounds(name)))
            else:
                op = rng.choice(["lt", "eq", "ge", "gt", "le"])
                p = gen_pt(rng, Point, around=pts or None)
                q = p if rng.random() < 0.15 else gen_pt(rng, Point, around=[p] + pts)
                ops.append(f"cmp {op} {show_val(p)} {show_val(q)}")
                r = outcome(lambda: "1" if getattr(p, f"__{op}__")(q) else "0")
            outs.append(r)
            key = f"{k}:{r.split(':')[0]}"
            outcomes[key] = outcomes.get(key, 0) + 1
            calls += 1
        lines.append(" | ".join(ops))
        want.append(" ".join(outs))
    got = core.run_model("bounds", lines)
    for ln, w, g in zip(lines, want, got):
        if w != g:
            ws, gs = w.split(" "), g.split(" ")
            step = next((i for i, (a, b) in enumerate(zip(ws, gs)) if a != b), min(len(ws), len(gs)))
            return {"cases": cases, "calls": calls, "outcomes": dict(sorted(outcomes.items())),
                    "disagreement": {"ops": ln.split(" | "), "step": step, "impl": w, "model": g}}
    return {"cases": cases, "calls": calls, "outcomes": dict(sorted(outcomes.items())), "disagreement": None}

"""C08 - every emitted line is one well-formed block with faithful numbers.

Model: lean/GscribModel/Model/Format.lean (driver mode `format`); theorems: Props/C08.lean.
Implementation: `DefaultFormatter.number` directly (part a) and every text-producing command of a real
`GCodeBuilder` writing to a recording writer, under random formatter settings (part b).

(a) numbers  - `number(x)` must be *string-equal* to the model given the exact rational of x and the
    trusted shortest-digit text of x (`fmtNumberU`); whenever ulp(x) <= 10^-dp that must in turn equal
    the exact half-even rounding `fmtNumber` the theorems are about.  Oracle (independent of the model):
    grammar -?[0-9]+(.[0-9]+)? and |text - x| <= 1/2 10^-dp, or <= dp digits reading back to x exactly.
(b) lines    - bytes at the writer vs the model's rendering of the statement the call is documented to
    assemble; oracle: an independent Python block-grammar lexer + the number oracle per word.
(c) several objects alive - the same two comparisons and oracles with 13 formatters (one per precision) living side
    by side, and with histories of commands interleaved over 2-4 builders of pairwise different settings that live
    at the same time (one more created / one torn down in the middle now and then, values re-sent across builders):
    every call is judged under the settings of its OWN builder.
(d) relative distance mode - histories on one builder: into G91 (`set_distance_mode` / `with relative_mode()`), 2-6 moves
    and rapids in a row whose increments have digits beyond the configured places (first dropped digit 4 / 5 / 6), an
    absolute move in the middle now and then, back to G90; every word is judged against the increment requested in
    THAT call; the model renders the double (position + increment) - position.
"""
from __future__ import annotations

import math
import random
import struct
import warnings
from fractions import Fraction

from . import core
from . import fmt_common as F

PROP = "C08"
MAXDP = 12

# ------------------------------------------------------------------ (a) numbers


def number_oracle(x, dp, rec):
    """The property on what `number()` returned/raised.  None = fine, else a message."""
    kind = F.scalar_kind(x)
    if kind not in ("f32", "f64", "int", "bool"):
        return None if not rec.startswith("ok ") else f"non-number {x!r} was formatted as {rec[3:]!r}"
    if kind in ("f32", "f64") and not math.isfinite(float(x)):
        return None if rec == "ValueError" else f"non-finite {x!r} gave {rec!r} instead of ValueError"
    if not rec.startswith("ok "):
        return f"finite {x!r} (dp={dp}) raised {rec}"
    text = rec[3:]
    if not F.NUM.match(text):
        return f"{x!r} (dp={dp}) printed as {text!r}: not a plain signed decimal"
    err = abs(Fraction(text) - F.exact(x))
    if err <= Fraction(1, 2) / 10 ** dp:
        return None
    if F.frac_len(text) <= dp and F.reads_back(text, x):
        return None
    return f"{x!r} (dp={dp}) printed as {text!r}: off by {float(err):.3g} > 0.5e-{dp} and does not read back"


def number_case(x, dp):
    return {"x": repr(x), "type": F.scalar_kind(x), "dp": dp,
            "hex": float(x).hex() if F.scalar_kind(x) in ("f32", "f64") else None}


def number_model_line(x, dp):
    k = F.scalar_kind(x)
    if k in ("f32", "f64") and not math.isfinite(float(x)):
        f = float(x)
        return f"num dp={dp} v={'nan' if math.isnan(f) else 'inf' if f > 0 else '-inf'}"
    if x == 0:
        return f"num dp={dp} v=0"
    sh = F.shortest(x)
    # the model only looks at the shortest digits when they fit in dp fraction digits
    tail = f" short={sh}" if F.frac_len(sh) <= dp else ""
    return f"num dp={dp} v={F.rat(F.exact(x))}{tail}"


def impl_number(fmt, x, dp):
    fmt.set_decimal_places(dp)
    try:
        return "ok " + fmt.number(x)
    except Exception as e:  # noqa: BLE001 - the class is the observation
        return type(e).__name__


def gen_number(rng, np):
    dp = rng.randint(0, MAXDP)
    m = rng.random()
    if m < 0.30:  # any binade
        x = math.ldexp(rng.random() + 0.5, rng.randint(-1074, 50)) * rng.choice([-1, 1])
    elif m < 0.45:  # rounding ties k+1/2 units of the last place, and neighbours
        k = rng.randint(-10 ** rng.randint(1, 9), 10 ** rng.randint(1, 9))
        x = (k + 0.5) / 10 ** dp
        r = rng.random()
        if r < 0.35:
            x = math.nextafter(x, math.inf)
        elif r < 0.7:
            x = math.nextafter(x, -math.inf)
    elif m < 0.53:  # dyadic: exact ties
        x = rng.randint(-2 ** 24, 2 ** 24) / 2 ** rng.randint(0, 14)
    elif m < 0.58:  # subnormal
        x = struct.unpack("d", struct.pack("Q", rng.getrandbits(52)))[0] * rng.choice([-1, 1])
    elif m < 0.68:
        x = rng.uniform(-1000, 1000)
    elif m < 0.74:  # up to 1e15
        x = rng.uniform(-1, 1) * 10.0 ** rng.randint(0, 15)
    elif m < 0.80:
        x = rng.randint(-10 ** rng.randint(0, 15), 10 ** rng.randint(0, 15))
    elif m < 0.84:  # numpy's fixed-width integers, the ends of their ranges included (abs() of a minimum wraps around)
        dt = rng.choice([np.int8, np.int16, np.int32, np.uint8, np.uint16, np.uint32, np.int64, np.int64])
        if dt is np.int64:
            x = np.int64(rng.randint(-2 ** 53, 2 ** 53))
        else:
            info = np.iinfo(dt)
            x = dt(rng.choice([info.min, info.max, rng.randint(info.min, info.max), rng.randint(info.min, info.max)]))
    elif m < 0.90:
        x = np.float64(rng.uniform(-100, 100) * 2.0 ** rng.randint(-30, 30))
    elif m < 0.97:
        x = np.float32(math.ldexp(rng.random() + 0.5, rng.randint(-149, 50)) * rng.choice([-1, 1]))
    elif m < 0.985:
        x = rng.choice([0, 0.0, -0.0, np.float64(0), np.float32(-0.0), np.int64(0), True, False,
                        1e-6, -1e-6, 5e-324, -5e-324, 2.0 ** 50, 1e15, -1e15, 0.5, 1.5, 2.5, 0.1 + 0.2])
    else:  # malformed stream
        x = rng.choice([float("nan"), float("inf"), float("-inf"), np.float64("nan"), np.float64("inf"),
                        np.float32("nan"), np.float32("-inf"), "1", "nan", None])
    return x, dp


def binade_sweep(rng, per_binade, dps):
    """every binade 2^-1074 .. 2^50 (subnormals included) x the given dp's"""
    for e in range(-1074, 51):
        for dp in dps:
            for _ in range(per_binade):
                yield math.ldexp(rng.random() + 0.5, e) * rng.choice([-1, 1]), dp
        yield math.ldexp(1.0, e) if e >= -1074 else 0.0, rng.choice(list(dps))


def impl_number_alive(order, cases):
    """one formatter per precision, all created and configured up front (in the given order) and all alive while the
    numbers are formatted, each by the formatter of its precision"""
    from gscrib.formatters import DefaultFormatter

    fmts = {}
    for dp in order:
        fmts[dp] = DefaultFormatter()
        fmts[dp].set_decimal_places(dp)
    out = []
    for x, dp in cases:
        try:
            out.append("ok " + fmts[dp].number(x))
        except Exception as e:  # noqa: BLE001 - the class is the observation
            out.append(type(e).__name__)
    return out


def run_numbers(R, cases, label, oracle_only=False, alive=None):
    """alive: a creation order of the precisions 0..12 - the numbers are then formatted by 13 formatters living side by
    side, each configured once, instead of one formatter reconfigured before every number"""
    import numpy as np  # noqa: F401
    from gscrib.formatters import DefaultFormatter

    if alive is not None:
        impl = impl_number_alive(alive, cases)
    else:
        fmt = DefaultFormatter()
        impl = [impl_number(fmt, x, dp) for x, dp in cases]

    def case_of(x, dp):
        c = number_case(x, dp)
        return c if alive is None else {**c, "formatters_alive": list(alive)}

    idx = [i for i, (x, dp) in enumerate(cases) if F.scalar_kind(x) in ("f32", "f64", "int", "bool")]
    model = {}
    if not oracle_only:
        out = core.run_model("format", [number_model_line(*cases[i]) for i in idx])
        model = dict(zip(idx, out))
    for i, (x, dp) in enumerate(cases):
        kind = F.scalar_kind(x)
        finite = kind in ("int", "bool") or (kind in ("f32", "f64") and math.isfinite(float(x)))
        region = "-"
        if finite and x != 0:
            region = "exact-range" if F.ulp_of(x) <= Fraction(1, 10 ** dp) else "shortest-digits-range"
        R.case(case_of(x, dp), nontrivial=finite and x != 0)
        R.count(label, "num:" + kind, "num:" + region, f"num:dp={dp}",
                "num:" + ("ok" if impl[i].startswith("ok ") else impl[i]))
        if i in model:
            mo = model[i]
            if mo.startswith("ok "):
                with_short, exact_round = mo[3:].split(" ")
                if impl[i] != "ok " + with_short:
                    R.disagree("number", case_of(x, dp), impl[i], "ok " + with_short)
                if region == "exact-range" and with_short != exact_round:
                    # the theorem's spec (exact half-even rounding) must be the whole story inside the range
                    R.disagree("number-spec-vs-shortest-digits", case_of(x, dp), with_short, exact_round)
                if region == "shortest-digits-range" and with_short != exact_round:
                    R.count("num:shortest-digits-branch-taken")
            elif impl[i] != mo:
                R.disagree("number", case_of(x, dp), impl[i], mo)
        msg = number_oracle(x, dp, impl[i])
        if msg:
            R.fail(case_of(x, dp), msg, tag="number")


# ------------------------------------------------------------------ (b) lines

LABELS = ["X", "Y", "Z", "A", "U", "x", " b ", "XX", "Q"]


def gen_cfg(rng):
    dp = rng.choice([0, 1, 2, 3, 5, 5, 5, 8, 12, rng.randint(0, MAXDP)])
    sym = rng.choice(F.ALL_SYMBOLS + [";", ";", " ; ", "( "])
    le = rng.choice(["\\n", "\\r\\n", "\n", "\r\n", "\\r", "os"])
    labels = ("X", "Y", "Z") if rng.random() < 0.5 else tuple(rng.sample(LABELS, 3))
    return dp, sym, le, labels


def in_range(x, dp):
    return x == 0 or F.ulp_of(x) <= Fraction(1, 10 ** dp)


def value(rng, dp, role="coord"):
    """a finite scalar; mostly inside the exact range of the configured precision.
    role: coord = what `Point` accepts (int, float, np.float64); pos = the same, non-negative (F, S, P, ...);
    any = every numeric scalar type (free parameters such as E, A, I)"""
    import numpy as np

    for _ in range(50):
        m = rng.random()
        if m < 0.25:
            x = rng.randint(-2000, 2000)
        elif m < 0.45:
            x = rng.randint(-2 ** 20, 2 ** 20) / 2 ** rng.randint(0, 10)
        elif m < 0.65:
            x = rng.uniform(-1000, 1000)
        elif m < 0.72:
            x = (rng.randint(-10 ** 6, 10 ** 6) + 0.5) / 10 ** dp
        elif m < 0.78:
            x = rng.choice([1e-7, -2.5e-6, 5e-324, 1e-5, 0.1 + 0.2, 1 / 3, 123456.789, 0.0, -0.0])
        elif m < 0.84:
            x = rng.uniform(-1, 1) * 10.0 ** rng.randint(3, 15)
        elif m < 0.90:
            x = np.float64(rng.uniform(-500, 500))
        elif m < 0.95:
            x = np.int64(rng.randint(-10 ** 6, 10 ** 6)) if role == "any" else rng.randint(0, 10 ** 6)
        elif m < 0.975:
            x = np.float32(rng.uniform(-500, 500)) if role == "any" else rng.uniform(0, 1e4)
        else:
            # narrow numpy floats with tiny / huge magnitudes (their str() uses exponent notation)
            x = (rng.choice([np.float32, np.float16])(rng.choice([5e-5, -2e-5, 3.5e-7, 6e4, 1e-3])) if role == "any"
                 else rng.uniform(0, 1e4))
            if role == "any" and rng.random() < 0.3:
                x = np.float32(rng.choice([2e16, -3e20, 1.5e-30]))
        if role == "pos":
            x = abs(x)
            if F.scalar_kind(x) == "int" and not isinstance(x, int):
                x = int(x)
        if in_range(x, dp) or rng.random() < 0.25:
            return x
    return 1


def bad_value(rng):
    import numpy as np

    return rng.choice([float("nan"), float("inf"), float("-inf"), np.float64("nan"), np.float64("inf")])


COMMENTS = [None, None, "", "   ", "cut here", "  lead and trail \t", "a ) b ] c } d > e", 'q " r \' s */ t',
            "x\ny", "x\r\n\r\ny", "lone\rCR M112\rend", "cr\r", "\rlead", "sem;colon # hash // slashes", "{} {0} %s", "G1 X9", "é✓  ", "tail\x85",
            # closing symbols nested in themselves / overlapping; look-alikes of the closing symbols and line boundaries
            # other than CR / LF (hand-written members of the family fmt_common.adversarial_text generates)
            "n )) ]] }} >> **// ***/// */*/ M112", "w \uff09 \uff3d \uff5d \uff1e \uff0a\uff0f \ufe5a *\uff0f M112\u2028G28"]


def C(method, *args, **kwargs):
    """a builder call as data (replayable): method name (dotted), positional and keyword arguments"""
    return {"m": method, "a": list(args), "k": dict(kwargs)}


def call_expr(spec) -> str:
    parts = [repr(a) for a in spec["a"]] + [f"{k}={v!r}" for k, v in spec["k"].items()]
    return f"g.{spec['m']}({', '.join(parts)})"


def do_call(g, spec):
    f = g
    for part in spec["m"].split("."):
        f = getattr(f, part)
    return f(*spec["a"], **spec["k"])


TEXT_KINDS = ["move", "rapid", "move_absolute", "rapid_absolute", "set_axis", "auto_home", "probe", "halt", "halt_kw",
              "comment", "annotate", "ehalt"]


def gen_op(rng, dp, malformed, sym=";", adv=False, reuse=None):
    """(name, call spec, [stmts]) for one text-producing builder command (under comment symbols `sym`).
    adv: a command that takes free text, given an adversarial text built for the style in force
    reuse: {role: [values]} shared by the calls of one history (several builders): a value already sent - to this
    or to another builder - is sent again now and then"""
    from gscrib import enums as E

    def v(role="coord"):
        if reuse is not None and reuse.get(role) and rng.random() < 0.35:
            return rng.choice(reuse[role])
        x = value(rng, dp, role)
        if reuse is not None:
            reuse.setdefault(role, []).append(x)
        return x

    bad = lambda: bad_value(rng)  # noqa: E731
    opening, closing = F.style_of(sym)

    def free_text():
        # mostly the fixed list; otherwise an adversarial text built for the style in force (look-alikes of its
        # closing symbol, the closing symbol nested in itself, ...): "at most one comment, nothing after it"
        if adv or rng.random() < 0.3:
            return F.adversarial_text(rng, opening, closing)
        return rng.choice([c for c in COMMENTS if c is not None])

    cm = rng.choice(COMMENTS)
    if adv or (cm is not None and rng.random() < 0.3):
        cm = F.adversarial_text(rng, opening, closing)
    kind = rng.choice(["move", "move", "rapid", "move_absolute", "rapid_absolute", "set_axis", "auto_home", "probe",
                       "modes", "modes", "feed", "power", "fan", "temp", "sleep", "tool_on", "power_on", "tool_change",
                       "halt", "halt_kw", "comment", "annotate", "ehalt", "off"])
    if adv:
        kind = rng.choice(TEXT_KINDS)

    def coords(allow_empty=True):
        kw = {}
        for a in "xyz":
            if rng.random() < 0.55:
                kw[a if rng.random() < 0.9 else a.upper()] = v()
        if not kw and not allow_empty:
            kw["x"] = v()
        return kw

    def extras(kw, feed_ok=True):
        if feed_ok and rng.random() < 0.4:
            kw["F"] = v("pos")
        if rng.random() < 0.15:
            kw["S"] = v("pos")
        if rng.random() < 0.3:
            kw[rng.choice(["E", "e", "A", "I", "J", "P"])] = v("any")
        items = list(kw.items())
        rng.shuffle(items)
        return dict(items)

    def poison(kw, keys):
        k = rng.choice(keys)
        kw[k] = bad()
        return kw

    if kind in ("move", "rapid", "move_absolute", "rapid_absolute"):
        kw = extras(coords())
        if malformed:
            kw = poison(kw, [k for k in kw] or ["x"]) if kw else {"x": bad()}
        code = "G1" if kind.startswith("move") else "G0"
        if kind in ("move", "rapid"):
            # coordinates go through the (identity) transform: plain float64 arithmetic
            kwm = {k: (float(x) if k.upper() in "XYZ" and F._is_number(x) and math.isfinite(float(x)) else x)
                   for k, x in kw.items()}
        else:
            kwm = kw
        st = {"kind": "cmd", "code": code, "params": F.move_params(kwm), "c": cm}
        kwc = dict(kw)
        if cm is not None or rng.random() < 0.5:
            kwc["comment"] = cm
        return kind, C(kind, **kwc), [st]
    if kind in ("set_axis", "auto_home", "probe"):
        kw = extras(coords(), feed_ok=(kind == "probe"))
        if kind != "probe":
            kw.pop("S", None)
        if malformed:
            kw = poison(kw, [k for k in kw]) if kw else {"x": bad()}
        mode = {"set_axis": E.PositioningMode.OFFSET, "auto_home": E.PositioningMode.HOME}.get(kind)
        pm = None
        if kind == "probe":
            pm = rng.choice(["towards", "away", "towards-no-error", "away-no-error"])
            mode = E.ProbingMode(pm)
        code, desc = F.table(mode)
        kwm = kw
        if kind == "probe":
            kwm = {k: (float(x) if k.upper() in "XYZ" and F._is_number(x) and math.isfinite(float(x)) else x)
                   for k, x in kw.items()}
        st = {"kind": "table", "code": code, "params": F.move_params(kwm), "c": cm, "desc": desc}
        kwc = dict(kw)
        if cm is not None or rng.random() < 0.5:
            kwc["comment"] = cm
        if kind == "probe":
            return kind, C("probe", pm, **kwc), [st]
        return kind, C(kind, **kwc), [st]
    if kind in ("modes", "off"):
        name, enum = rng.choice([
            ("set_length_units", E.LengthUnits("inches")), ("set_length_units", E.LengthUnits("millimeters")),
            ("set_plane", E.Plane("zx")), ("set_plane", E.Plane("xy")), ("set_plane", E.Plane("yz")),
            ("set_distance_mode", E.DistanceMode("relative")), ("set_distance_mode", E.DistanceMode("absolute")),
            ("set_extrusion_mode", E.ExtrusionMode("relative")), ("set_extrusion_mode", E.ExtrusionMode("absolute")),
            ("set_feed_mode", E.FeedMode("1/time")), ("set_feed_mode", E.FeedMode("units/rev")),
            ("query", E.QueryMode("position")), ("query", E.QueryMode("temperature")),
            ("coolant_on", E.CoolantMode("mist")), ("coolant_on", E.CoolantMode("flood")),
            ("coolant_off", E.CoolantMode("off")), ("tool_off", E.SpinMode("off")), ("power_off", E.PowerMode("off")),
        ])
        code, desc = F.table(enum)
        st = {"kind": "table", "code": code, "params": None, "c": None, "desc": desc}
        if name in ("coolant_off", "tool_off", "power_off"):
            return name, C(name), [st]
        return name, C(name, enum.value), [st]
    if kind in ("feed", "power"):
        x = bad() if malformed else v("pos")
        name, key = ("set_feed_rate", "F") if kind == "feed" else ("set_tool_power", "S")
        return name, C(name, x), [{"kind": "bare", "params": [(key, x)]}]
    if kind == "fan":
        speed = bad() if malformed else rng.choice([0, 0, 1, 128, 255, 12.5, rng.uniform(0, 255)])
        n = rng.choice([0, 0, 1, 2, 7])
        on = F._is_number(speed) and speed > 0
        code, desc = F.table(E.FanMode("cooling" if on else "off"))
        st = {"kind": "table", "code": code, "params": [("P", n), ("S", speed)], "c": None, "desc": desc}
        return "set_fan_speed", C("set_fan_speed", speed, n), [st]
    if kind == "temp":
        t = bad() if malformed else rng.choice([0, 60, 205.5, 215, rng.uniform(0, 300), v("pos")])
        name, enum = rng.choice([("set_bed_temperature", E.BedTemperature("celsius")),
                                 ("set_hotend_temperature", E.HotendTemperature("celsius")),
                                 ("set_chamber_temperature", E.ChamberTemperature("celsius"))])
        code, desc = F.table(enum)
        st = {"kind": "table", "code": code, "params": [("S", t)], "c": None, "desc": desc}
        return name, C(name, t), [st]
    if kind == "sleep":
        d = bad() if malformed else v("pos")
        code, desc = F.table(E.TimeUnits("seconds"))
        st = {"kind": "table", "code": code, "params": [("P", d)], "c": None, "desc": desc}
        return "sleep", C("sleep", d), [st]
    if kind in ("tool_on", "power_on"):
        s = bad() if malformed else v("pos")
        if kind == "tool_on":
            m = rng.choice(["clockwise", "counter"])
            code, desc = F.table(E.SpinMode(m))
        else:
            m = rng.choice(["constant", "dynamic"])
            code, desc = F.table(E.PowerMode(m))
        st = {"kind": "pre", "params": [("S", s)], "code": code, "desc": desc}
        return kind, C(kind, m, s), [st]
    if kind == "tool_change":
        n = rng.choice([1, 2, 7, 9, 10, 12, 99, 100, 123, 1234, 12345, 99999, 123456789, rng.randint(1, 10 ** 9)])
        m = rng.choice(["manual", "automatic"])
        code, desc = F.table(E.ToolSwapMode(m))
        st = {"kind": "tool", "n": n, "code": code, "desc": desc}
        return kind, C("tool_change", m, n), [st]
    if kind in ("halt", "halt_kw"):
        m = rng.choice(["pause", "optional-pause", "end-without-reset", "end-with-reset", "pallet-exchange",
                        "wait-for-bed", "wait-for-hotend", "wait-for-chamber", "wait-for-motion"])
        code, desc = F.table(E.HaltMode(m))
        kw = {}
        if kind == "halt_kw":
            kw[rng.choice(["S", "R", "s", "P"])] = bad() if malformed else v("pos")
            if rng.random() < 0.3:
                kw["T"] = rng.randint(0, 3)
        hcm = cm if adv or rng.random() < 0.5 else None
        st = {"kind": "table", "code": code, "params": list(kw.items()) if kw else None, "c": hcm, "desc": desc}
        if not kw:
            st["params"] = []  # halt always passes the (possibly empty) kwargs dict
            short = {"pause": ("pause", {}), "optional-pause": ("pause", {"optional": True}),
                     "end-without-reset": ("stop", {}), "end-with-reset": ("stop", {"reset": True}),
                     "wait-for-motion": ("wait", {})}.get(m)
            if short and hcm is None and rng.random() < 0.5:
                return short[0], C(short[0], **short[1]), [st]
        if hcm is not None or rng.random() < 0.3:
            kw = {**kw, "comment": hcm}
        return "halt", C("halt", m, **kw), [st]
    if kind == "comment":
        text = free_text()
        args = rng.choice([(), (), (3,), ("a", 1.5), ("x\ny",)])
        full = text if not args else f"{text} {' '.join(str(a) for a in args)}"
        return "comment", C("comment", text, *args), [{"kind": "text", "c": full}]
    if kind == "annotate":
        key = rng.choice(["tool", "layer_height", "k", "_x9"])
        val = free_text()
        return "annotate", C("annotate", key, val), [{"kind": "text", "c": f"@set {key} = {val}"}]
    if kind == "ehalt":
        msg = free_text()
        reset = rng.random() < 0.5
        sts = []
        for enum in (E.SpinMode("off"), E.CoolantMode("off")):
            code, desc = F.table(enum)
            sts.append({"kind": "table", "code": code, "params": None, "c": None, "desc": desc})
        sts.append({"kind": "text", "c": f"Emergency halt: {msg}"})
        code, desc = F.table(E.HaltMode("end-with-reset" if reset else "pause"))
        sts.append({"kind": "table", "code": code, "params": [], "c": None, "desc": desc})
        return "emergency_halt", C("emergency_halt", msg, reset), sts
    raise AssertionError(kind)


def has_bad(stmts):
    for st in stmts:
        for _, x in st.get("params") or []:
            if F._is_number(x) and F.scalar_kind(x) in ("f32", "f64") and not math.isfinite(float(x)):
                return True
    return False


def run_call(cfg, call):
    dp, sym, le, labels = cfg
    g, rec = F.make_builder(dp, sym, le, labels)
    exc = None
    try:
        with warnings.catch_warnings():
            warnings.simplefilter("ignore", RuntimeWarning)  # numpy on NaN/inf coordinates
            do_call(g, call)
    except Exception as e:  # noqa: BLE001
        exc = "ValueError" if isinstance(e, ValueError) else type(e).__name__
    try:
        raws = [b.decode("utf-8") for b in rec.raw]
    except UnicodeDecodeError:
        raws = [b.decode("utf-8", "replace") for b in rec.raw]
    return exc, raws


def line_case(cfg, name, stmts, call=None):
    dp, sym, le, labels = cfg
    return {"dp": dp, "symbols": sym, "line_endings": le, "labels": list(labels), "call": name,
            "call_expr": call_expr(call) if call else None,
            "stmts": [{k: (v if k != "params" else (None if v is None else [[a, repr(b)] for a, b in v]))
                       for k, v in st.items()} for st in stmts]}


def line_oracle(cfg, stmts, exc, raws):
    """The property on the bytes of one call.  Yields (tag, message)."""
    dp, sym, le, labels = cfg
    eol = F.LINE_ENDINGS[le]
    opening, closing = F.style_of(sym)
    if has_bad(stmts):
        if exc != "ValueError":
            yield "nonfinite", f"a non-finite value was accepted (outcome {exc}, wrote {raws!r})"
        elif raws:
            yield "nonfinite", f"ValueError raised but {raws!r} was written"
        return
    if exc is not None:
        return  # a rejected call writes nothing we could judge here
    expect = F.expected_words(stmts, labels)
    if len(raws) != len(stmts):
        yield "lines", f"{len(raws)} lines written for {len(stmts)} statements"
        return
    for raw, ws in zip(raws, expect):
        try:
            toks, cm = F.lex_line(raw, opening, closing, eol)
        except F.LexError as e:
            yield "grammar", f"{raw!r}: {e}"
            continue
        body = raw[: len(raw) - len(eol)]
        if body != body.rstrip():
            yield "trailing-space", f"{raw!r}: white space before the line ending"
        if [t[0] for t in toks] != [w[0] for w in ws]:
            yield "words", f"{raw!r}: address letters {[t[0] for t in toks]} expected {[w[0] for w in ws]}"
            continue
        for (lab, num), (_, want) in zip(toks, ws):
            if isinstance(want, tuple):
                if num != want[1]:
                    yield "words", f"{raw!r}: {lab}{num} expected {lab}{want[1]}"
            elif isinstance(want, str) or want is None:
                continue
            else:
                msg = number_oracle(want, dp, "ok " + num)
                if msg:
                    yield "number", f"{raw!r}: word {lab}{num}: {msg}"


def relaxed_equal(cfg, stmts, raw, model_raw, ws):
    """bytes differ: accept only a numeric word outside the exact range printed with the trusted
    shortest digits"""
    dp, sym, le, labels = cfg
    eol = F.LINE_ENDINGS[le]
    opening, closing = F.style_of(sym)
    try:
        a, ca = F.lex_line(raw, opening, closing, eol)
        b, cb = F.lex_line(model_raw, opening, closing, eol)
    except F.LexError:
        return False
    if ca != cb or len(a) != len(b) or len(a) != len(ws):
        return False
    out, pos = model_raw, 0
    for (la, na), (lb, nb), (_, want) in zip(a, b, ws):
        if la != lb:
            return False
        k = out.find(lb + nb, pos)
        if k < 0:
            return False
        if na != nb:
            if isinstance(want, (tuple, str)) or want is None or in_range(want, dp):
                return False
            sh = F.shortest(want)
            if not (F.frac_len(sh) <= dp and na == sh):
                return False
            out = out[:k] + la + na + out[k + len(lb + nb):]
        pos = k + len(la + na)
    # apart from those words the bytes must be identical
    return out == raw


def compare_with_model(R, cfg, name, case, stmts, exc, raws, recs):
    """correspondence of one call: (outcome, lines at the writer) against the model's records for its statements
    (`case` may be a function that builds the case when it is needed)"""
    dp, sym, le, labels = cfg
    the_case = lambda: case() if callable(case) else case  # noqa: E731
    if any(r == "ValueError" for r in recs):
        mo = ("ValueError", [])
    else:
        mo = (None, [F.dec(r.split(" | ")[0][3:]) for r in recs])
    if (exc, raws) != mo:
        ok = False
        if exc is None and mo[0] is None and len(raws) == len(mo[1]):
            ws = F.expected_words(stmts, labels)
            ok = all(a == b or relaxed_equal(cfg, stmts, a, b, w) for a, b, w in zip(raws, mo[1], ws))
            if ok:
                R.count("line:shortest-digits-word-accepted")
        if not ok:
            R.disagree("line:" + name, the_case(), [exc, raws], list(mo))
    elif exc is None:
        # the two lexers (Python oracle, Lean `lexLine`) must read the same bytes the same way
        eol = F.LINE_ENDINGS[le]
        opening, closing = F.style_of(sym)
        for raw, rec in zip(raws, recs):
            lean_lex = rec.split(" | ")[1][4:]
            try:
                py = F.show_lex(*F.lex_line(raw, opening, closing, eol))
            except F.LexError:
                py = "!"
            if py != lean_lex:
                R.disagree("lexer:python-vs-lean", the_case(), py, lean_lex)


def run_lines(R, n, label, oracle_only=False, adv=False):
    """adv: only commands that take free text, under the bracketed comment styles, with adversarial texts"""
    cases = []
    for _ in range(n):
        cfg = gen_cfg(R.rng)
        if adv:
            cfg = (cfg[0], R.rng.choice(list(F.PAIRS)), cfg[2], cfg[3])
        malformed = R.rng.random() < (0.12 if not adv else 0.0)
        name, call, stmts = gen_op(R.rng, cfg[0], malformed, cfg[1], adv)
        cases.append((cfg, name, call, stmts))
    lines, spans = [], []
    for cfg, name, call, stmts in cases:
        dp, sym, le, labels = cfg
        cf = F.cfg_fields(dp, sym, F.LINE_ENDINGS[le], labels)
        spans.append((len(lines), len(stmts)))
        lines += [F.stmt_line(cf, st) for st in stmts]
    model = [] if oracle_only else core.run_model("format", lines)
    for (cfg, name, call, stmts), (lo, k) in zip(cases, spans):
        dp, sym, le, labels = cfg
        exc, raws = run_call(cfg, call)
        case = line_case(cfg, name, stmts, call)
        bad = has_bad(stmts)
        R.case(case, nontrivial=bool(raws) and not bad)
        R.count(label, "line:" + name, "line:outcome:" + (exc or "ok"), f"line:dp={dp}",
                "line:style:" + sym.strip(), "line:eol:" + le.replace("\\", "\\\\").replace("\r", "CR").replace("\n", "LF"),
                "line:labels:" + ("default" if labels == ("X", "Y", "Z") else "relabelled"),
                *sorted({"line:text:" + f for st in stmts for f in F.text_features(st.get("c") or "", F.style_of(sym)[1])}))
        if not oracle_only:
            compare_with_model(R, cfg, name, case, stmts, exc, raws, model[lo: lo + k])
        for tag, msg in line_oracle(cfg, stmts, exc, raws):
            R.fail(case, msg, tag=tag)


# ------------------------------------------------------------------ (c) several objects alive at the same time
#
# The property is about *every* builder call under the settings configured on the builder that is called.  Parts (a)
# and (b) only ever have one formatter / one builder alive.  Here 2-4 builders with pairwise different settings
# (decimal places, comment symbols, line ending, axis labels) live side by side - created up front, now and then one
# more created or one torn down in the middle - and their calls are interleaved; every call is judged against the
# settings of its OWN builder (oracle) and against the model's rendering under those settings (correspondence).
# Anything configured per object but kept per class / per module / in a default argument shows up here.


def distinct_cfgs(rng, k):
    """k formatter settings: decimal places pairwise different; comment style, line ending and labels pairwise
    different as far as 40 draws manage"""
    out = []
    for _ in range(k):
        best = None
        for attempt in range(40):
            c = gen_cfg(rng)
            if any(c[0] == o[0] for o in out):
                continue
            clash = sum((F.style_of(c[1]) == F.style_of(o[1])) + (F.LINE_ENDINGS[c[2]] == F.LINE_ENDINGS[o[2]])
                        + (c[3] == o[3]) for o in out)
            if best is None or clash < best[0]:
                best = (clash, c)
            if clash == 0 or (attempt >= 12 and best is not None):
                break
        if best is None:  # every draw repeated a precision already taken
            c = gen_cfg(rng)
            best = (0, (rng.choice([d for d in range(MAXDP + 1) if all(d != o[0] for o in out)]),) + c[1:])
        out.append(best[1])
    return out


HALTS = ("halt", "pause", "stop", "wait")
JUDGED = ("call", "enter", "exit")  # events that may write lines: a builder call, a mode context opened / closed


def admissible(name, call, on):
    """would a correct builder in interlock state `on` = {tool, coolant} take this call the way a fresh one does?
    (the statements `gen_op` expects are those of a fresh builder in absolute distance mode)"""
    if name == "set_distance_mode" and call["a"] and str(call["a"][0]) == "relative":
        return False
    if name in ("tool_on", "power_on"):
        return not on["tool"]
    if name == "coolant_on":
        return not on["coolant"]
    if name == "tool_change" or name in HALTS:
        return not on["tool"] and not on["coolant"]
    return True


def track(name, on):
    if name in ("tool_on", "power_on"):
        on["tool"] = True
    elif name in ("tool_off", "power_off"):
        on["tool"] = False
    elif name == "coolant_on":
        on["coolant"] = True
    elif name == "coolant_off":
        on["coolant"] = False
    elif name == "emergency_halt":
        on["tool"] = on["coolant"] = False


def gen_group(rng):
    """(cfgs, events): events are {"ev": "new" | "call" | "drop", "b": builder index, ...}"""
    k = rng.choice([2, 2, 3])
    late = rng.random() < 0.3
    cfgs = distinct_cfgs(rng, k + (1 if late else 0))
    order = list(range(k))
    rng.shuffle(order)  # creation order is independent of the order the settings were drawn in
    events = [{"ev": "new", "b": b} for b in order]
    alive, on, reuse = list(order), {b: {"tool": False, "coolant": False} for b in range(len(cfgs))}, {}
    ncalls = rng.randint(2 * k, 4 * k)
    late_at = rng.randrange(1, ncalls) if late else -1
    drop_at = rng.randrange(2, ncalls + 1) if rng.random() < 0.25 else -1

    def call(b):
        dp, sym = cfgs[b][0], cfgs[b][1]
        malformed = rng.random() < 0.08
        for _ in range(30):
            name, spec, stmts = gen_op(rng, dp, malformed, sym, reuse=reuse)
            if admissible(name, spec, on[b]):
                break
        else:
            name, spec, stmts = "comment", C("comment", "kept"), [{"kind": "text", "c": "kept"}]
        if not has_bad(stmts):
            track(name, on[b])
        events.append({"ev": "call", "b": b, "name": name, "call": spec, "stmts": stmts})

    for i in range(ncalls):
        if i == late_at:
            events.append({"ev": "new", "b": k})
            alive.append(k)
        if i == drop_at and len(alive) > 1:
            b = rng.choice(alive)
            alive.remove(b)
            events.append({"ev": "drop", "b": b})
        call(rng.choice(alive))
    # every builder still alive speaks once more after the last one was created / configured
    tail = list(alive)
    rng.shuffle(tail)
    for b in tail:
        call(b)
    return cfgs, events


def play_group(cfgs, events, invoke=None):
    """drive the real builders; per event None or (exc, lines at the builder's own writer, {other builder: lines})"""
    invoke = invoke or (lambda g, ev: do_call(g, ev["call"]))
    alive, out, ctxs = {}, [], {}

    def text(bs):
        return [b.decode("utf-8", "replace") for b in bs]

    try:
        for ev in events:
            b = ev["b"]
            if ev["ev"] == "new":
                alive[b] = F.make_builder(*cfgs[b])
                out.append(None)
            elif ev["ev"] == "drop":
                g, rec = alive.pop(b)
                g.teardown()
                del g
                out.append(None)
            else:
                g, rec = alive[b]
                marks = {i: len(r.raw) for i, (_, r) in alive.items()}
                exc = None
                try:
                    with warnings.catch_warnings():
                        warnings.simplefilter("ignore", RuntimeWarning)  # numpy on NaN/inf coordinates
                        if ev["ev"] == "enter":  # `with g.<ctx>():` opened here, closed by the matching "exit"
                            cm = getattr(g, ev["ctx"])()
                            cm.__enter__()
                            ctxs.setdefault(b, []).append(cm)
                        elif ev["ev"] == "exit":
                            ctxs[b].pop().__exit__(None, None, None)
                        else:
                            invoke(g, ev)
                except Exception as e:  # noqa: BLE001
                    exc = "ValueError" if isinstance(e, ValueError) else type(e).__name__
                foreign = {i: text(r.raw[marks[i]:]) for i, (_, r) in alive.items() if i != b and len(r.raw) > marks[i]}
                out.append((exc, text(rec.raw[marks[b]:]), foreign))
    finally:
        for g, _ in alive.values():
            try:
                g.teardown()
            except Exception:  # noqa: BLE001
                pass
    return out


def cfg_json(cfg):
    return {"dp": cfg[0], "symbols": cfg[1], "line_endings": cfg[2], "labels": list(cfg[3])}


def group_case(cfgs, events, upto):
    """the history up to and including event `upto`, replayable"""
    evs = []
    for ev in events[: upto + 1]:
        if ev["ev"] in JUDGED:
            lc = line_case(cfgs[ev["b"]], ev["name"], ev["stmts"], ev.get("call"))
            e = {"ev": ev["ev"], "b": ev["b"], "name": ev["name"], "call_expr": lc["call_expr"], "stmts": lc["stmts"]}
            if "ctx" in ev:
                e["ctx"] = ev["ctx"]
            if "mstmts" in ev:  # what the model is asked to render when that is not the statement of the requested values
                e["mstmts"] = line_case(cfgs[ev["b"]], ev["name"], ev["mstmts"])["stmts"]
            evs.append(e)
        else:
            evs.append(dict(ev))
    return {"builders": [cfg_json(c) for c in cfgs], "events": evs, "judged_event": upto,
            "judged_builder": events[upto]["b"]}


def run_groups(R, n, label, oracle_only=False, groups=None, pre="alive"):
    """groups: histories (cfgs, events) to run instead of n generated by `gen_group`; pre: prefix of the counters.
    An event may carry `mstmts`: the statements the MODEL is asked to render (the doubles the documented arithmetic of
    the call hands to the formatter), while the oracle always judges the bytes against `stmts` (the values requested)."""
    if groups is None:
        groups = [gen_group(R.rng) for _ in range(n)]
    lines, spans = [], {}
    for gi, (cfgs, events) in enumerate(groups):
        for ei, ev in enumerate(events):
            if ev["ev"] not in JUDGED:
                continue
            dp, sym, le, labels = cfgs[ev["b"]]
            cf = F.cfg_fields(dp, sym, F.LINE_ENDINGS[le], labels)
            mst = ev.get("mstmts", ev["stmts"])
            spans[gi, ei] = (len(lines), len(mst))
            lines += [F.stmt_line(cf, st) for st in mst]
    model = [] if oracle_only else core.run_model("format", lines)
    for gi, (cfgs, events) in enumerate(groups):
        obs = play_group(cfgs, events)
        first_call = next(i for i, ev in enumerate(events) if ev["ev"] == "call")
        R.count(label, f"{pre}:builders={len(cfgs)}",
                *sorted({f"{pre}:" + ev["ev"] + "-in-the-middle" for ev in events[first_call:] if ev["ev"] != "call"}))
        created = set()
        for ei, (ev, ob) in enumerate(zip(events, obs)):
            if ev["ev"] == "new":
                created.add(ev["b"])
            if ev["ev"] not in JUDGED:
                continue
            b, name, stmts = ev["b"], ev["name"], ev["stmts"]
            cfg = cfgs[b]
            exc, raws, foreign = ob
            others = [cfg_json(cfgs[i]) for i in sorted(created) if i != b]
            if pre == "alive":
                small = {**line_case(cfg, name, stmts, ev.get("call")), "alive_with": others}
            else:  # the history is the input: the same call after a different history is a different case
                small = {**line_case(cfg, name, stmts, ev.get("call")),
                         "after": [e.get("name", e["ev"]) + ":" + (call_expr(e["call"]) if e.get("call") else "")
                                   for e in events[:ei] if e["ev"] in JUDGED]}
            bad = has_bad(stmts)
            R.case(small, nontrivial=bool(raws) and not bad)
            R.count(f"{pre}:call", f"{pre}:line:" + name, f"{pre}:outcome:" + (exc or "ok"), f"{pre}:dp={cfg[0]}",
                    *ev.get("tags", ()))
            full = lambda cfgs=cfgs, events=events, ei=ei: group_case(cfgs, events, ei)  # noqa: E731 - built on demand
            if not oracle_only:
                lo, k = spans[gi, ei]
                compare_with_model(R, cfg, name, full, ev.get("mstmts", stmts), exc, raws, model[lo: lo + k])
                if foreign:
                    R.disagree(f"{pre}:output-at-another-builder", full(), foreign, {})
            for tag, msg in line_oracle(cfg, stmts, exc, raws):
                R.fail(full(), f"builder {b} {cfg_json(cfg)} (alive with {others}): {msg}" if pre == "alive" else
                       f"{call_expr(ev['call']) if ev.get('call') else name} after the history recorded in the case "
                       f"{cfg_json(cfg)}: {msg}", tag=tag)


# ------------------------------------------------------------------ (d) consecutive moves in relative distance mode
#
# "Every numeric word is within half a unit of the last configured decimal place of the value requested" - in G91 the
# value requested for an axis is the increment given in THAT call, whatever was written before.  Parts (b)/(c) only issue
# moves in absolute mode.  Here one builder is taken into relative mode (`set_distance_mode("relative")` or a
# `with g.relative_mode():` block, from an unknown position, after a `set_axis`, or after an absolute move) and given 2-6
# moves / rapids in a row - the same axis named again and again - whose increments have digits beyond the configured
# places, the first dropped digit being 4, 5 or 6 (just below / at / just above the half unit); now and then an
# absolute move (G90 .. G91 around it) in the middle; then back to absolute mode and one more move.  Anything carried
# from one increment to the next shows up as a word half a unit or more away from the increment asked for.
#
# The builder computes the increment it writes as (position + increment) - position in binary64.  The generator only
# sends increments for which that arithmetic is either exact or cannot reach the rounding boundary (`settled`), so the
# strict half-unit oracle against the requested value is decidable; the model is asked to render the double that
# arithmetic yields (`mstmts`), the oracle judges against the increment requested (`stmts`).


def near_half(rng, dp):
    """a double with digits beyond `dp` places: (k + 0.4.. | 0.5.. | 0.6..) units of the last place, either sign"""
    import numpy as np

    if dp <= 8 and rng.random() < 0.12:  # odd multiples of 2^-(dp+1): exact ties, exact arithmetic on dyadic positions
        x = (2 * rng.randint(0, 60) + 1) / 2 ** (dp + 1)
    else:
        k = rng.choice([0, 0, rng.randint(0, 9), rng.randint(0, 10 ** rng.randint(1, 6))])
        d = rng.choice([4, 4, 5, 6, 6])
        tail = rng.choice(["", "", "", "9", "99", "1", "01", "5", str(rng.randint(0, 999))])
        frac = Fraction(int(f"{d}{tail}"), 10 ** (1 + len(tail)))
        x = float((k + frac) / 10 ** dp)
    x = x * rng.choice([-1, 1])
    return np.float64(x) if rng.random() < 0.08 else x


def settled(cur, dx, dp):
    """does the increment the builder computes, (cur + dx) - cur, round like dx itself?  Yes when the addition is exact
    (the difference is then dx again), or when dx is further from the nearest rounding boundary (k + 1/2) 10^-dp than
    the arithmetic can move it (4 ulp of the larger operand: a generous bound)"""
    cur, dx = float(cur), float(dx)
    s = cur + dx
    if Fraction(s) == Fraction(cur) + Fraction(dx):
        return True
    q = Fraction(dx) * 10 ** dp
    dist = abs(q - math.floor(q) - Fraction(1, 2)) / 10 ** dp
    return dist > 4 * F.ulp_of(max(abs(cur), abs(s), abs(dx)))


FINDING_TIE = "C08-relative-tie-noise"


def _tie_case(cur, inc, dp):
    """one relative move of `inc` from a position set to `cur`, at `dp` decimals: (emitted X word, error, half unit)"""
    g, w = F.make_builder(dp, ";", "\n")
    g.set_axis(x=cur)
    g.set_distance_mode("relative")
    n0 = len(w.raw)
    g.move(x=inc)
    text = b"".join(w.raw[n0:]).decode("utf-8")
    word = [t for t in text.split(";", 1)[0].split() if t.startswith("X")][0][1:]
    return word, abs(Fraction(word) - F.exact(inc)), Fraction(1, 2) / 10 ** dp


def unsettled_tie_cases(R, n):
    """oracle-only: the inputs `settled()` keeps out of the relative-mode histories - an increment at a decimal rounding tie from an
    inexact position.  The builder writes (pos + inc) - pos as computed in binary64; the listed finding is an excess over the
    half unit of at most 4 ulp of the operands, anything larger is a violation."""
    for _ in range(n):
        r = R.rng
        dp = r.choice([0, 1, 1, 2, 2, 3, 4, 5])
        cur = r.randint(-200000, 200000) / 10 ** r.randint(1, 4)
        inc = float(Fraction(2 * r.randint(-3000, 3000) + 1, 2 * 10 ** dp))
        if not math.isfinite(cur + inc) or inc == 0:
            continue
        R.evaluations += 1
        R.count("relative:decimal-tie-from-an-inexact-position")
        word, err, half = _tie_case(cur, inc, dp)
        if err <= half:
            continue
        ulp = F.ulp_of(max(abs(cur), abs(cur + inc), abs(inc)))
        R.fail({"position": cur, "increment": repr(inc), "dp": dp}, f"G91 from X{cur}: move(x={inc!r}) wrote X{word}, off by {float(err):.17g} > 0.5e-{dp} "
               f"(the builder formats (pos + inc) - pos)", tag="relative-tie-noise", excess_ulps=float((err - half) / ulp), tie=True)


def finding_tie_predicate(fl) -> bool:
    return fl.get("tag") == "relative-tie-noise" and fl.get("tie") is True and fl.get("excess_ulps", 99) <= 4


def witness_tie():
    word, err, half = _tie_case(13.1, 12.05, 1)
    if err > half:
        return True, f"dp=1, set_axis(x=13.1), G91, move(x=12.05) wrote X{word}: {float(err):.17g} from the requested 12.05"
    return False, "move(x=12.05) in G91 from X13.1 at one decimal is written within half a unit"


def as_float(kw):
    """coordinates of move / rapid go through the (identity) transform: plain float64"""
    return {k: (float(x) if k.upper() in "XYZ" and F._is_number(x) and math.isfinite(float(x)) else x)
            for k, x in kw.items()}


def gen_rel_history(rng, fixed=None):
    """(cfgs, events) for one builder.  fixed: (dp, prelude, switch, [(name, {axis: increment})...]) - a hand-written
    member of the family built by the same code"""
    from gscrib import enums as E

    cfg = gen_cfg(rng)
    if fixed:
        cfg = (fixed[0], ";", "\n", ("X", "Y", "Z"))
    dp, sym = cfg[0], cfg[1]
    events = [{"ev": "new", "b": 0}]
    cur = {"x": 0.0, "y": 0.0, "z": 0.0}  # an unknown position counts as 0
    opening, closing = F.style_of(sym)

    def table_stmt(enum):
        code, desc = F.table(enum)
        return {"kind": "table", "code": code, "params": None, "c": None, "desc": desc}

    g90, g91 = table_stmt(E.DistanceMode("absolute")), table_stmt(E.DistanceMode("relative"))

    def emit(name, spec, stmts, mstmts=None, tags=()):
        ev = {"ev": "call", "b": 0, "name": name, "call": spec, "stmts": stmts, "tags": list(tags)}
        if mstmts is not None:
            ev["mstmts"] = mstmts
        events.append(ev)

    def comment():
        cm = rng.choice(COMMENTS) if rng.random() < 0.25 else None
        return cm

    def with_comment(kw, cm):
        kw = dict(kw)
        if cm is not None or rng.random() < 0.3:
            kw["comment"] = cm
        return kw

    def position(pmax):
        m = rng.random()
        if m < 0.3:
            return rng.randint(-pmax, pmax)
        if m < 0.55:
            return rng.randint(-pmax * 2 ** 9, pmax * 2 ** 9) / 2 ** rng.randint(0, 9)
        if m < 0.8:
            return rng.uniform(-pmax, pmax)
        return near_half(rng, dp)

    def absolute(kind, kw, relative_now):
        """set_axis / move / rapid in absolute mode / move_absolute / rapid_absolute (G90 .. G91 around it when relative)"""
        cm = comment()
        if kind == "set_axis":
            code, desc = F.table(E.PositioningMode.OFFSET)
            sts = [{"kind": "table", "code": code, "params": F.move_params(kw), "c": cm, "desc": desc}]
        else:
            code = "G1" if kind.startswith("move") else "G0"
            kwm = as_float(kw) if kind in ("move", "rapid") else kw
            sts = [{"kind": "cmd", "code": code, "params": F.move_params(kwm), "c": cm}]
            if relative_now:
                sts = [g90] + sts + [g91]
        for a, x in kw.items():
            cur[a] = float(x)
        emit(kind, C(kind, **with_comment(kw, cm)), sts, tags=["rel:absolute-call:" + kind])

    guard = set()  # generator guards hit while drawing the increments of the next call (reported as counters)

    def increments(main):
        kw = {}
        for a in "xyz":
            if a == main or rng.random() < 0.45:
                for _ in range(30):
                    dx = near_half(rng, dp)
                    if settled(cur[a], dx, dp):
                        break
                    guard.add("rel:guard:unsettled-increment-redrawn")
                else:
                    dx = 0.0
                    guard.add("rel:guard:no-settled-increment-found-sent-0")
                kw[a] = dx
        return kw

    def relative(name, kw, malformed=False):
        cm = comment()
        extra = {}
        if rng.random() < 0.3:
            extra["F"] = value(rng, dp, "pos")
        req = {**kw, **extra}
        if malformed:
            req[rng.choice(list(kw))] = bad_value(rng)
        code = "G1" if name == "move" else "G0"
        st = {"kind": "cmd", "code": code, "params": F.move_params(as_float(req)), "c": cm}
        if malformed:
            emit(name, C(name, **with_comment(req, cm)), [st], tags=["rel:malformed"])
            return
        # what the documented arithmetic hands to the formatter: (position + increment) - position
        sent, tags = dict(req), set(guard)
        guard.clear()
        for a, dx in kw.items():
            s = cur[a] + float(dx)
            sent[a] = s - cur[a]
            tags.add("rel:arith:" + ("exact" if sent[a] == float(dx) else "inexact-but-settled"))
            q = abs(Fraction(repr(float(dx)))) * 10 ** dp  # the digits as written in the call
            tags.add("rel:first-dropped-digit=" + str(int((q - math.floor(q)) * 10)))
            cur[a] = s
        mst = {"kind": "cmd", "code": code, "params": F.move_params(sent), "c": cm}
        emit(name, C(name, **with_comment(req, cm)), [st], [mst], tags=sorted(tags))

    # prelude: where the builder is when the relative block starts
    pmax = 10 ** rng.randint(0, max(0, min(3, 10 - dp)))
    if fixed:
        if fixed[1]:
            absolute("set_axis", fixed[1], False)
    else:
        m = rng.random()
        if m > 0.3:
            kw = {a: position(pmax) for a in "xyz" if rng.random() < 0.7} or {"x": position(pmax)}
            absolute("set_axis" if m < 0.6 else rng.choice(["move", "rapid", "move_absolute", "rapid_absolute"]), kw, False)
    # into relative mode
    by_ctx = fixed[2] == "ctx" if fixed else rng.random() < 0.5
    if by_ctx:
        events.append({"ev": "enter", "b": 0, "ctx": "relative_mode", "name": "relative_mode:enter", "stmts": [g91]})
    else:
        emit("set_distance_mode", C("set_distance_mode", "relative"), [g91])
    # the block
    if fixed:
        for name, kw in fixed[3]:
            relative(name, kw)
    else:
        main = rng.choice("xyz")
        n = rng.randint(2, 6)
        interlude = rng.randrange(1, n) if rng.random() < 0.25 else -1
        bad_at = rng.randrange(0, n) if rng.random() < 0.08 else -1
        for i in range(n):
            if i == interlude:
                kw = {a: position(pmax) for a in "xyz" if rng.random() < 0.5} or {main: position(pmax)}
                absolute(rng.choice(["move_absolute", "rapid_absolute"]), kw, True)
            relative(rng.choice(["move", "move", "rapid"]), increments(main), malformed=(i == bad_at))
    # back to absolute mode, one more move: the word is the coordinate requested
    if by_ctx:
        events.append({"ev": "exit", "b": 0, "ctx": "relative_mode", "name": "relative_mode:exit", "stmts": [g90]})
    else:
        emit("set_distance_mode", C("set_distance_mode", "absolute"), [g90])
    kw = {a: near_half(rng, dp) for a in "xyz" if rng.random() < 0.5} or {"x": near_half(rng, dp)}
    absolute(rng.choice(["move", "rapid"]), kw, False)
    return [cfg], events


REL_CORPUS = [
    (3, None, "call", [("move", {"y": 1.0004}), ("move", {"y": 1.0004}), ("rapid", {"y": 1.0004})]),
    (5, {"x": 10, "z": 2.5}, "ctx", [("move", {"x": -0.000006, "z": 0.25}), ("move", {"x": -0.000006}),
                                      ("move", {"x": -0.000006, "z": 0.0000149})]),
    (0, {"z": 7}, "call", [("rapid", {"z": 0.4}), ("move", {"z": 0.4, "x": 2.6}), ("move", {"z": 0.4, "x": 2.6})]),
]


def run_relative(R, n, label, oracle_only=False, corpus=False):
    groups = [gen_rel_history(R.rng, fx) for fx in REL_CORPUS] if corpus else []
    groups += [gen_rel_history(R.rng) for _ in range(n)]
    run_groups(R, 0, label, oracle_only=oracle_only, groups=groups, pre="rel")


def replay_group(case):
    import numpy as np

    env = {"np": np, "nan": float("nan"), "inf": float("inf")}
    cfgs = [(c["dp"], c["symbols"], c["line_endings"], tuple(c["labels"])) for c in case["builders"]]
    events = []
    for ev in case["events"]:
        ev = dict(ev)
        for key in ("stmts", "mstmts"):
            if ev["ev"] in JUDGED and key in ev:
                stmts = []
                for st in ev[key]:
                    st = dict(st)
                    if st.get("params") is not None:
                        st["params"] = [(k, eval(v, dict(env))) for k, v in st["params"]]  # noqa: S307 - our own reprs
                    stmts.append(st)
                ev[key] = stmts
        events.append(ev)
    obs = play_group(cfgs, events, invoke=lambda g, ev: eval(ev["call_expr"], {**env, "g": g}))  # noqa: S307
    for i, c in enumerate(case["builders"]):
        print(f"builder {i}:", c)
    rc = 0
    for ei, (ev, ob) in enumerate(zip(events, obs)):
        if ev["ev"] not in JUDGED:
            print(f"[{ei}] builder {ev['b']}: {'created' if ev['ev'] == 'new' else 'torn down'}")
            continue
        cfg = cfgs[ev["b"]]
        exc, raws, foreign = ob
        cf = F.cfg_fields(cfg[0], cfg[1], F.LINE_ENDINGS[cfg[2]], cfg[3])
        mst = ev.get("mstmts", ev["stmts"])
        recs = core.run_model("format", [F.stmt_line(cf, st) for st in mst]) if mst else []
        mo = ("ValueError", []) if any(r == "ValueError" for r in recs) else \
            (None, [F.dec(r.split(" | ")[0][3:]) for r in recs])
        msgs = list(line_oracle(cfg, ev["stmts"], exc, raws))
        same = not foreign and ((exc, raws) == mo or (exc is None and mo[0] is None and len(raws) == len(mo[1]) and all(
            a == b or relaxed_equal(cfg, mst, a, b, w)
            for a, b, w in zip(raws, mo[1], F.expected_words(mst, cfg[3])))))
        print(f"[{ei}] builder {ev['b']}:", ev["call_expr"] or f"with g.{ev.get('ctx')}(): {ev['ev']}")
        print("      impl   :", exc, raws, *(["at other builders:", foreign] if foreign else []))
        if msgs or not same:
            print("      model  :", mo[0], mo[1])
            print("      oracle :", msgs or "ok", "| corresp:", "ok" if same else "DIFFERENT")
            rc = 1
    return rc


# ------------------------------------------------------------------ entry points


def check_spaces(R):
    hi = 0x110000 if R.thorough else 0x4000
    out = core.run_model("format", [f"spaces lo=0 hi={hi}"])[0]
    lean = out[3:].split(",") if len(out) > 3 else []
    py = [str(c) for c in range(hi) if chr(c).isspace()]
    if lean != py:
        R.disagree("str.isspace", "all code points", py, lean)
    R.count("corpus:isspace-table")


def run(R: core.Run):
    import numpy as np

    R.rule = ("numbers: (scalar, dp) with scalar from every binade 2^-1074..2^50, subnormals, +-0, rounding ties "
              "(k+1/2)*10^-dp and both neighbours, dyadics, ints, np.float64/int64/float32, dp 0..12; non-trivial = "
              "finite and non-zero.  lines: (formatter settings, one text-producing builder command); non-trivial = "
              "at least one line written.  several alive: the same numbers through 13 formatters living side by side "
              "(one per precision); histories of 4-16 such commands interleaved over 2-4 builders with pairwise different "
              "settings that live at the same time, each call judged under its own builder's settings.  relative mode: "
              "histories of 2-6 consecutive relative moves/rapids on one builder (increments k + 0.4.. / 0.5.. / 0.6.. units "
              "of the last place, dp as for lines), each call judged against the increment it requested.  Distinct by hash "
              "of the case.")
    R.assumptions = [
        "numpy's Dragon4 digit generation (unique=True) is a trusted parameter: the model receives the shortest "
        "decimal identifying the scalar (computed without numpy: CPython repr for binary64, direct search for "
        "binary32) and prints it when it needs <= dp fraction digits, else the exact half-even rounding; "
        "C08_number_error/grammar are proved for the exact branch, C08_number_partial covers the other one",
        "inside ulp(x) <= 10^-dp both branches must coincide - checked on every sample (number-spec-vs-shortest-digits)",
        "`bool` is a numbers.Number in Python: True/False are formatted as 1/0 (not rejected)",
        "Python ints are taken up to 2^53 (the property quantifies magnitudes up to 1e15); larger ints are "
        "converted to binary64 by numpy before printing",
        "string-valued and None-valued parameters (`P='foo'` -> `Pfoo`, `F=None` -> `FNone`) are outside the "
        "property's quantifier (finite numbers) and are not generated",
        "coordinates of move/rapid/probe pass through the identity transform (binary64); the model is given "
        "the exact rational of the resulting double",
        "relative moves: the builder writes (position + increment) - position computed in binary64; the generator only "
        "sends increments for which that sum is exact or which are further from a rounding boundary than 4 ulp of the "
        "position (counter rel:guard:*), so the half-unit bound against the requested increment is decidable; an "
        "increment at a decimal tie added to an inexact position is outside this check",
        "comment symbols do not contain the text '{}' (the template is split at its first '{}')",
        "ASCII axis labels / parameter names (str.upper is modelled for ASCII)",
    ]
    R.trusted = [
        "Lean 4.33 kernel; axioms propext, Classical.choice, Quot.sound only (audited per theorem)",
        "Mathlib modules Tactic.Linarith/Ring/FieldSimp, Algebra.Order.Field.Rat, Data.Rat.Floor (proof files only)",
        "hand-written Lean model Model/Format.lean, tied to /repo by this run's correspondence check",
        "Python harness: generators, adapters, the block-grammar lexer, fractions.Fraction, CPython float()/repr "
        "being correctly rounded / shortest",
        "numpy format_float_positional digit generation: modelled by its specification, not verified",
    ]
    if not F.repo_styles_match():
        R.notes.append("COMMENT_OPENINGS/ENDINGS of the tree under test differ from the harness table")
        R.count("styles-table-differs")
    check_spaces(R)

    # (a) numbers
    corpus = [(x, dp) for dp in (0, 1, 5, 12) for x in
              (0, 0.0, -0.0, 1, -1, 0.5, 1.5, 2.5, -2.5, 1e-6, -1e-6, 0.000005, 0.000015, 1 / 3, 0.1 + 0.2, 123456.789,
               1e15, -1e15, 2.0 ** 50, 5e-324, 2.2250738585072014e-308, np.float64(3.25), np.int64(7),
               np.float32(0.1), np.float32(16777216.0), True, float("nan"), float("inf"), float("-inf"))]
    run_numbers(R, corpus, "numbers:corpus")
    sweep = list(binade_sweep(R.rng, 1, [R.rng.randint(0, MAXDP)])) if not R.thorough else \
        list(binade_sweep(R.rng, 3, range(0, MAXDP + 1)))
    run_numbers(R, sweep, "numbers:binade-sweep")
    n_alive = R.n(6000, 200000)
    rnd = [gen_number(R.rng, np) for _ in range(R.n(60000, 2000000) - len(sweep) - n_alive)]
    for i in range(0, len(rnd), 250000):
        run_numbers(R, rnd[i: i + 250000], "numbers:random")
    # 13 formatters alive at once, one per precision, created in a random order
    order = list(range(MAXDP + 1))
    R.rng.shuffle(order)
    run_numbers(R, [gen_number(R.rng, np) for _ in range(n_alive)], "numbers:several-formatters-alive", alive=order)
    if R.thorough:
        R.extra["binade_sweep"] = {"cases": len(sweep), "scope": "every binade 2^-1074..2^50 x every dp 0..12 x 3 mantissas",
                                   "exhaustive": False}
    # (b) lines
    run_lines(R, R.n(2500, 60000), "lines:random")
    run_lines(R, R.n(400, 8000), "lines:adversarial-comment-text", adv=True)
    # (c) several builders alive, calls interleaved
    run_groups(R, R.n(220, 6000), "lines:several-builders-alive")
    # (d) consecutive moves in relative distance mode, increments with digits beyond the configured places
    run_relative(R, R.n(150, 5000), "lines:relative-mode-histories", corpus=True)
    unsettled_tie_cases(R, R.n(150, 3000))

    if R.broken:
        # failing-input search: fresh batches judged by the oracle alone
        R.search_batches += 1
        run_numbers(R, [gen_number(R.rng, np) for _ in range(R.n(30000, 200000))], "search:numbers", oracle_only=True)
        run_lines(R, R.n(3000, 30000), "search:lines", oracle_only=True)
        run_lines(R, R.n(600, 6000), "search:lines:adversarial-comment-text", oracle_only=True, adv=True)
        order = list(range(MAXDP + 1))
        R.rng.shuffle(order)
        run_numbers(R, [gen_number(R.rng, np) for _ in range(R.n(6000, 60000))], "search:numbers:several-formatters-alive",
                    oracle_only=True, alive=order)
        run_groups(R, R.n(400, 4000), "search:lines:several-builders-alive", oracle_only=True)
        run_relative(R, R.n(300, 4000), "search:lines:relative-mode-histories", oracle_only=True)
    return {FINDING_TIE: finding_tie_predicate}, {FINDING_TIE: witness_tie}


def replay(data):
    core.use_repo()
    fl = data.get("failure") or data.get("first", {})
    print("replay of", data.get("kind"), "-", fl.get("name") or fl.get("tag"))
    print("case   :", fl.get("case"))
    case = fl.get("case") or {}
    if isinstance(case, dict) and "builders" in case and "events" in case:
        return replay_group(case)
    if isinstance(case, dict) and "hex" in case:
        import numpy as np
        from gscrib.formatters import DefaultFormatter

        x = case["x"]
        k = case["type"]
        if k == "f64":
            x = float.fromhex(case["hex"])
        elif k == "f32":
            x = np.float32(float.fromhex(case["hex"]))
        elif k in ("int", "bool"):
            x = int(eval(x, {"np": np, "True": True, "False": False}))  # noqa: S307 - our own repr
        else:
            x = None
        if case.get("formatters_alive"):
            print("alive  : one formatter per precision, created in the order", case["formatters_alive"])
            io = impl_number_alive(case["formatters_alive"], [(x, case["dp"])])[0]
        else:
            io = impl_number(DefaultFormatter(), x, case["dp"])
        msg = number_oracle(x, case["dp"], io)
        print("impl   :", io)
        if k in ("f64", "f32", "int", "bool"):
            print("model  :", core.run_model("format", [number_model_line(x, case["dp"])])[0])
        print("oracle :", msg or "ok")
        return 1 if msg else 0
    if isinstance(case, dict) and case.get("call_expr"):
        import warnings as _w

        import numpy as np

        env = {"np": np, "nan": float("nan"), "inf": float("inf")}
        cfg = (case["dp"], case["symbols"], case["line_endings"], tuple(case["labels"]))
        stmts = []
        for st in case["stmts"]:
            st = dict(st)
            if st.get("params") is not None:
                st["params"] = [(k, eval(v, dict(env))) for k, v in st["params"]]  # noqa: S307 - our own reprs
            stmts.append(st)
        g, rec = F.make_builder(*cfg)
        exc = None
        try:
            with _w.catch_warnings():
                _w.simplefilter("ignore", RuntimeWarning)
                eval(case["call_expr"], {**env, "g": g})  # noqa: S307
        except Exception as e:  # noqa: BLE001
            exc = "ValueError" if isinstance(e, ValueError) else type(e).__name__
        raws = [b.decode("utf-8", "replace") for b in rec.raw]
        cf = F.cfg_fields(cfg[0], cfg[1], F.LINE_ENDINGS[cfg[2]], cfg[3])
        recs = core.run_model("format", [F.stmt_line(cf, st) for st in stmts])
        mo = ("ValueError", []) if any(r == "ValueError" for r in recs) else \
            (None, [F.dec(r.split(" | ")[0][3:]) for r in recs])
        msgs = list(line_oracle(cfg, stmts, exc, raws))
        print("call   :", case["call_expr"])
        print("impl   :", exc, raws)
        print("model  :", mo[0], mo[1])
        print("oracle :", msgs or "ok")
        same = (exc, raws) == mo or (exc is None and mo[0] is None and len(raws) == len(mo[1]) and all(
            a == b or relaxed_equal(cfg, stmts, a, b, w)
            for a, b, w in zip(raws, mo[1], F.expected_words(stmts, cfg[3]))))
        print("corresp:", "ok" if same else "DIFFERENT")
        return 1 if (msgs or not same) else 0
    print("message:", fl.get("message") or (fl.get("impl"), fl.get("model")))
    return 1

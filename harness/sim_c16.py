"""Simulated device side for the C16 check: a step-controlled `serial.Serial`, a localhost TCP
device for `SocketWriter`, and the session that drives one real writer from a worker thread.

Nothing here knows the Lean model; the records produced use the same field syntax as the model
driver (`Drv/DirectWrite.lean`) so that `harness/c16.py` can compare them textually.
"""
from __future__ import annotations

import queue
import signal
import socket
import threading
import time
from unittest import mock

PROBE = "G4 P0"


def code_of(line: str, stmt_index: dict) -> str:
    """Port line -> model command code (P probe, M line-number reset, S<k> user statement)."""
    if line == PROBE:
        return "P"
    if "M110" in line:
        return "M"
    k = stmt_index.get(line)
    return f"S{k}" if k is not None else "?" + line


# --------------------------------------------------------------------------- fake serial port
class FakePort:
    """Replacement for `serial.Serial`.  `readline()` returns a released line, or b'' (read time-out)
    only when the harness has granted a time-out token / switched to free running, so the number of
    connect probes is decided by the harness, not by the wall clock."""

    registry: list = []
    default_on_tx = None
    default_auto = None
    routes: dict = {}  # port name -> Session, for sessions that share the process with other sessions (`port_name=`)

    def __init__(self, *a, **k):
        self.is_open = False
        self.port = k.get("port")
        self.dtr = None
        self.parity = None
        self.rxq: queue.Queue = queue.Queue()
        self.tx: list = []  # (line, delivered?)
        self.tokens = 0
        self.free_run = False
        self.lost = False  # reads and writes raise SerialException
        self.dead = False
        self.lock = threading.Lock()
        self.on_tx = FakePort.default_on_tx  # callback(index, line, delivered)
        self.auto = FakePort.default_auto  # callable(line) -> list[bytes]: device that answers inside write()
        self.write_delay = None  # callable(line) -> seconds
        FakePort.registry.append(self)

    def open(self):
        sess = FakePort.routes.get(self.port)
        if sess is not None:  # several writers alive at once: each port belongs to the session that named it
            self.on_tx, self.auto = sess._on_tx, sess.auto
            sess.port = self
        self.is_open = True

    def close(self):
        self.is_open = False

    def write(self, data):
        import serial

        for l in data.decode().split("\n"):
            if not l:
                continue
            if self.write_delay:
                d = self.write_delay(l)
                if d:
                    time.sleep(d)
            gone = self.lost or self.dead
            with self.lock:
                self.tx.append((l, not gone))
                i = len(self.tx) - 1
            if self.on_tx:
                self.on_tx(i, l, not gone)
            if gone:
                raise serial.SerialException("fake port: device gone")
            if self.auto:
                for r in self.auto(l):
                    self.rxq.put(r)

    def grant(self, n):
        with self.lock:
            self.tokens += n

    def readline(self):
        import serial

        while True:
            if self.lost or self.dead:
                raise serial.SerialException("fake port: device gone")
            try:
                return self.rxq.get(timeout=0.004)
            except queue.Empty:
                pass
            if self.free_run:
                return b""
            with self.lock:
                if self.tokens > 0:
                    self.tokens -= 1
                    return b""


# --------------------------------------------------------------------------- localhost TCP device
class TcpDevice:
    """A listening socket on 127.0.0.1 standing in for a networked controller (SocketWriter)."""

    def __init__(self):
        self.srv = socket.socket(socket.AF_INET, socket.SOCK_STREAM)
        self.srv.setsockopt(socket.SOL_SOCKET, socket.SO_REUSEADDR, 1)
        self.srv.bind(("127.0.0.1", 0))
        self.srv.listen(1)
        self.srv.settimeout(3.0)
        self.port_number = self.srv.getsockname()[1]
        self.conn = None
        self.buf = b""
        self.tx: list = []
        self.lost = False
        self.free_run = True
        self.on_tx = None
        self._stop = False
        self._t = threading.Thread(target=self._pump, daemon=True, name="c16-tcp-device")
        self._t.start()

    def _pump(self):
        try:
            self.conn, _ = self.srv.accept()
        except OSError:
            return
        self.conn.setsockopt(socket.IPPROTO_TCP, socket.TCP_NODELAY, 1)
        self.conn.settimeout(0.01)
        while not self._stop:
            try:
                d = self.conn.recv(4096)
            except socket.timeout:
                continue
            except OSError:
                return
            if not d:
                return
            self.buf += d
            while b"\n" in self.buf:
                l, self.buf = self.buf.split(b"\n", 1)
                if l:
                    self.tx.append((l.decode(), True))
                    if self.on_tx:
                        self.on_tx(len(self.tx) - 1, l.decode(), True)

    def put(self, data: bytes):
        if self.conn and not self.lost:
            self.conn.sendall(data)

    def grant(self, n):  # re-probing needs 15 x 0.25 s on a socket: not driven by the harness
        pass

    def lose(self):
        self.lost = True
        try:
            self.conn.shutdown(socket.SHUT_RDWR)
        except OSError:
            pass

    def close(self):
        self._stop = True
        for s in (self.conn, self.srv):
            try:
                if s:
                    s.close()
            except OSError:
                pass


# --------------------------------------------------------------------------- patches shared by concurrent sessions
_shared_patches: list = []
_shared_users = 0


def _acquire_patches():
    """`serial.Serial` -> FakePort once, however many sessions are alive (nested mock.patch objects stopped out of
    order would leave the fake port installed)"""
    global _shared_users
    if _shared_users == 0:
        p1 = mock.patch("serial.Serial", FakePort)
        p2 = mock.patch("gscrib.printrun.device.Device._disable_ttyhup", lambda self: None)
        p1.start()
        p2.start()
        _shared_patches[:] = [p1, p2]
    _shared_users += 1


def _release_patches():
    global _shared_users
    _shared_users = max(0, _shared_users - 1)
    if _shared_users == 0:
        for p in _shared_patches:
            try:
                p.stop()
            except Exception:
                pass
        _shared_patches[:] = []


# --------------------------------------------------------------------------- one writer session
class Session:
    """One real writer driven by a worker thread: connect(); write(s_0) … write(s_{n-1});
    [disconnect(wait=True)].  Every observable event goes into `self.ev` (list append = total order)."""

    READ_KEYS = ("T", "B", "X", "Y", "Z", "E", "F", "S")

    def __init__(self, kind: str, stmts: list, disc: bool, gated: bool = False, timeout: float | None = None,
                 port_name: str | None = None):
        """port_name: this session shares the process with other live sessions (two machines driven by one program):
        its fake port is found by name instead of through the class-wide defaults, the `serial.Serial` patch is
        shared, and `cleanup(check_threads=False)` leaves the thread census to the last session torn down."""
        self.kind, self.disc, self.gated, self.timeout = kind, disc, gated, timeout
        self.port_name = port_name
        self.gate = threading.Semaphore(0)  # gated caller: one permit per write() / disconnect() call
        self.stmts = [s if isinstance(s, bytes) else s.encode() for s in stmts]
        self.stmt_index = {}
        for k, s in enumerate(self.stmts):
            self.stmt_index.setdefault(s.decode().strip(), k)
        self.ev: list = []
        self.pending: list = []  # reply lines produced by the device, not yet released: (owner, text, terminal, errorish)
        self.consumed = 0
        self.lost = False
        self.writer = None
        self.delegate = None
        self.pc = None
        self.port = None
        self.tcp = None
        self.worker = None
        self.auto = None  # callable(line) -> list[bytes] for an instantly answering device
        self._patches = []
        self.t0 = time.time()
        self._stopping = False

    # ---- life cycle
    def start(self, run_worker=True):
        from gscrib.writers import SerialWriter, SocketWriter

        old = {s: signal.getsignal(s) for s in (signal.SIGINT, signal.SIGTERM)}
        try:
            if self.kind == "socket":
                self.tcp = TcpDevice()
                self.tcp.on_tx = self._on_tx
                self.writer = SocketWriter("127.0.0.1", self.tcp.port_number)
            elif self.port_name is not None:
                FakePort.routes[self.port_name] = self
                _acquire_patches()
                self._patches = ["shared"]
                self.writer = SerialWriter(self.port_name, 115200)
            else:
                FakePort.registry.clear()
                FakePort.default_on_tx = self._on_tx
                FakePort.default_auto = self.auto
                p1 = mock.patch("serial.Serial", FakePort)
                p2 = mock.patch("gscrib.printrun.device.Device._disable_ttyhup", lambda self: None)
                p1.start()
                p2.start()
                self._patches = [p1, p2]
                self.writer = SerialWriter("/fake/c16", 115200)
        finally:
            for s, h in old.items():
                signal.signal(s, h)
        self.delegate = self.writer._writer_delegate
        if run_worker:
            self.worker = threading.Thread(target=self._work, daemon=True, name="c16-caller")
            self.worker.start()
        return self

    def io(self):
        """the device end (fake port or TCP peer) once it exists"""
        if self.kind == "socket":
            return self.tcp
        if self.port_name is not None:
            return self.port  # bound by FakePort.open()
        if self.port is None and FakePort.registry:
            self.port = FakePort.registry[0]
        return self.port

    def _on_tx(self, i, line, ok):
        self.ev.append(("tx", i, line, ok))

    def _work(self):
        try:
            self.writer.connect()
            self.ev.append(("connected",))
        except Exception as e:  # noqa
            self.ev.append(("connect-raised", type(e).__name__))
            return
        if self.timeout:
            self.writer.set_timeout(self.timeout)  # shorter than the device's latency: write() must still wait
        self.do_writes()
        if self.disc:
            self.do_disconnect()

    def do_writes(self):
        for k, s in enumerate(self.stmts):
            if self.gated:
                self.gate.acquire()
                if self._stopping:
                    return
            self.ev.append(("call", k))
            try:
                self.writer.write(s)
                res = "returned"
            except BaseException as e:  # noqa  (whatever the real code raises is an observation, not a harness crash)
                res = type(e).__name__
            if self._stopping:
                # the call only came back because cleanup() set the writer's events: it never completed by itself
                self.ev.append(("ret-forced", k, res))
                return
            self.ev.append(("ret", k, res, self.readings()))

    def readings(self):
        """what get_parameter() answers right now, for the keys the scripts report"""
        try:
            return {key: self.writer.get_parameter(key) for key in self.READ_KEYS}
        except Exception as e:  # noqa
            return {"error": type(e).__name__}

    def do_disconnect(self):
        if self.gated:
            self.gate.acquire()
            if self._stopping:
                return
        self.ev.append(("disc-call",))
        try:
            self.writer.disconnect(True)
            res = None
        except BaseException as e:  # noqa
            res = type(e).__name__
        self.ev.append(("disc-forced" if self._stopping else "disc-ret", res))

    def printcore(self):
        if self.pc is None and self.delegate is not None and self.delegate._device is not None:
            self.pc = self.delegate._device
        return self.pc

    # ---- device actions decided by the harness
    def tx_lines(self):
        io = self.io()
        return list(io.tx) if io else []

    def unread(self):
        return len([1 for (_, ok) in self.tx_lines() if ok]) - self.consumed

    def consume(self, lines: list) -> bool:
        """The device reads the oldest unread command and produces `lines` (last one terminal)."""
        if self.lost or self.unread() <= 0:
            return False
        delivered = [i for i, (_, ok) in enumerate(self.tx_lines()) if ok]
        owner = delivered[self.consumed]
        self.consumed += 1
        self.ev.append(("consume", owner))
        for j, (text, errorish) in enumerate(lines):
            self.pending.append((owner, text, j == len(lines) - 1, errorish, "r"))
        return True

    def release(self) -> bool:
        if self.lost or not self.pending:
            return False
        owner, text, terminal, errorish, kind = self.pending.pop(0)
        self.ev.append(("rel", owner, text, terminal, errorish, kind))
        data = (text + "\n").encode()
        if self.kind == "socket":
            self.tcp.put(data)
        else:
            self.io().rxq.put(data)
        return True

    def read_timeout(self, default=0.25) -> float:
        """the device object's read time-out (socket: the `select` time-out of `Device._readline_socket`)"""
        try:
            t = float(getattr(self.printcore().printer, "_timeout", default))
            return t if 0.0 < t < 2.0 else default
        except Exception:
            return default

    def release_split(self, cut: int, pause: float | None = None) -> bool:
        """Release the next pending line in two TCP segments, `text[:cut]` and the rest (with the newline), with a
        pause longer than the device's read time-out in between - a serial-to-wifi bridge, a firmware that prints a
        line in pieces.  The line counts as delivered (`rel`) only with the segment that completes it.  On the
        fake serial port (pyserial's readline assembles whole lines itself) this is a plain release."""
        if self.lost or not self.pending:
            return False
        if self.kind != "socket" or len(self.pending[0][1]) < 2:
            return self.release()
        owner, text, terminal, errorish, kind = self.pending.pop(0)
        data = (text + "\n").encode()
        cut = max(1, min(int(cut), len(text) - 1))
        if pause is None:
            pause = 1.2 * self.read_timeout() + 0.03
        self.ev.append(("seg", owner, text[:cut]))
        self.tcp.put(data[:cut])
        time.sleep(pause)
        self.ev.append(("rel", owner, text, terminal, errorish, kind))
        self.tcp.put(data[cut:])
        return True

    def permit(self) -> bool:
        """the gated caller may start its next call"""
        if not self.gated:
            return False
        self.gate.release()
        return True

    def push(self, text: str, errorish: bool) -> bool:
        """The device emits a line that is nobody's terminal reply (surplus ok / unsolicited error line)."""
        if self.lost:
            return False
        self.pending.append((None, text, False, errorish, "x"))
        return True

    def greet(self, text: str) -> bool:
        """The device emits its greeting (`Grbl …`): an ordinary line on the wire, nobody's reply."""
        if self.lost:
            return False
        self.pending.append((None, text, False, False, "g"))
        return True

    def lose(self) -> bool:
        if self.lost:
            return False
        self.lost = True
        self.ev.append(("loss",))
        if self.kind == "socket":
            self.tcp.lose()
        else:
            self.io().lost = True
        return True

    def probe_again(self) -> bool:
        pc = self.printcore()
        if self.lost or (pc is not None and pc.online) or self.kind == "socket":
            return False
        self.io().grant(15)
        return True

    # ---- observation (same field syntax as the model driver's record)
    def snapshot(self) -> dict:
        ev = list(self.ev)
        phase = "connecting"
        draise = "0"
        for e in ev:
            if e[0] == "connected":
                phase = "connected"
            elif e[0] == "connect-raised":
                phase = "failed"
            elif e[0] == "disc-ret":
                phase = "disconnected"
                draise = "1" if e[1] else "0"
        calls = [e[1] for e in ev if e[0] == "call"]
        rets = {e[1]: e[2] for e in ev if e[0] == "ret"}
        w = "idle"
        if calls and calls[-1] not in rets:
            w = f"waiting:{calls[-1]}"
        out = ",".join(f"{k}:{'r' if rets[k] == 'returned' else 'E' if rets[k] == 'DeviceError' else rets[k]}"
                       for k in [e[1] for e in ev if e[0] == "ret"]) or "-"
        tx = ",".join(code_of(l, self.stmt_index) for (l, _) in self.tx_lines()) or "-"
        d = {"phase": phase, "w": w, "out": out, "tx": tx, "draise": draise}
        pc = self.printcore()
        if phase in ("connecting", "connected") and pc is not None and self.delegate is not None:
            try:
                d["online"] = "1" if pc.online else "0"
                d["printing"] = "1" if pc.printing else "0"
                d["clear"] = "1" if pc.clear else "0"
                d["ack"] = "1" if self.delegate._ack_event.is_set() else "0"
                d["err"] = "1" if self.delegate._device_error is not None else "0"
                d["priq"] = ",".join(code_of(c, self.stmt_index) for c in list(pc.priqueue.queue)) or "-"
                d["ln"] = "1" if pc._send_line_numbers else "0"
            except Exception:  # torn down concurrently
                pass
        return d

    # ---- teardown (must leave no printcore thread behind)
    def cleanup(self, check_threads=True):
        self._stopping = True
        for _ in range(len(self.stmts) + 2):
            self.gate.release()
        io = self.io()
        if io is not None:
            io.free_run = True
        pc = self.printcore()
        dl = self.delegate
        try:
            if dl is not None:
                dl._shutdown_requested = False
                dl._online_event.set()
                dl._ack_event.set()
        except Exception:
            pass
        if self.worker is not None:
            self.worker.join(timeout=0.3)
        if pc is not None:
            pc.stop_send_thread = True
            pc.printing = False
            pc.clear = True

            def _dis():
                try:
                    if dl is not None and dl._device is not None:
                        dl.disconnect(False)
                    else:
                        pc.disconnect()
                except Exception:
                    pass

            t = threading.Thread(target=_dis, daemon=True)
            t.start()
            t.join(timeout=3.0)
            if t.is_alive() and io is not None and self.kind != "socket":
                io.dead = True
                t.join(timeout=2.0)
            pc.stop_read_thread = True
            pc.stop_send_thread = True
        if io is not None and self.kind != "socket":
            io.dead = True
        if self.tcp is not None:
            self.tcp.close()
        if self.worker is not None:
            self.worker.join(timeout=1.0)
        for p in self._patches:
            if p == "shared":
                _release_patches()
                FakePort.routes.pop(self.port_name, None)
                continue
            try:
                p.stop()
            except Exception:
                pass
        self._patches = []
        if not check_threads:  # another session of this process is still alive: its threads are not leftovers
            return []
        leftover = [t for t in threading.enumerate()
                    if t.name in ("read thread", "send thread", "print thread") and t.is_alive()]
        for t in leftover:
            t.join(timeout=1.0)
        return [t.name for t in leftover if t.is_alive()]

"""C14 - every writer receives every line, once, in order, byte for byte.

Model: lean/GscribModel/Model/Writers.lean (driver mode `writers`); theorems: Props/C14.lean.
Implementation: a real `GCodeBuilder` with real `FileWriter`s over path-based files (temporary
directory outside /repo and /verif, removed afterwards), `io.BytesIO`, `io.StringIO(newline='')`,
buffered stream doubles (a user-supplied file object with its own buffer, with or without
`isatty()`), caller-opened real files on disk handed over as file objects (`open(p, "wb")` and
`open(p, "w", encoding="utf-8", newline="")`; their content is always read back from the path through
an independent handle, never through the object the writer holds), `ConsoleWriter`s over a replaced
`sys.stdout`, and custom `BaseWriter`s of two sorts: one that copies what `write()` hands it at that
moment, and one that *retains* the very objects it was handed (a queueing / batching writer; `write()`
is typed `bytes`: what a writer received must read the same at any later moment) and is read again
after every later operation and at the end.

A case is a history of add_writer / remove_writer / write-producing builder calls / flush /
teardown (`teardown()`, `teardown(wait=False)`, `teardown(wait=True)`, and `with builder:` blocks left
normally or through an exception, with operations of the history inside the block) / owner-side
`writer.disconnect()`.  The property makes no exception for `wait=False` or for a block that raised:
after any teardown a file output contains the lines written so far and every writer is disconnected.  The lines the builder formats are captured by a
formatter subclass installed with the public `set_formatter` (-> the model's `write` operations,
as code points, *before* they are encoded); the bytes are captured independently by a tap writer.
The *statements* themselves are captured where they enter `write()` (a pass-through override in a
subclass of the builder): the oracle computes, on its own, the one byte string each statement must
be delivered as (the statement without trailing blanks + one line ending, UTF-8) and keeps its
books of expected file contents from those, never from what the writers received.  Statements
include empty / blank-only ones and ones that carry, inside raw text or comments, characters some
text APIs take for line boundaries (U+2028, U+2029, U+0085, VT, FF, FS, GS, RS, bare CR / LF).

Two further families of histories have no counterpart in the model (it has no writer that calls back
into the builder and no `disconnect` that raises) and are judged by the oracle alone (`run_special`):
custom writers that answer certain lines by calling the builder API 0-3 times from inside `write()`
(statements written re-entrantly, while another line is being delivered), and writers whose
`disconnect()` fails (a device writer that times out while waiting, a caller's stream whose `flush()`
raises `OSError`) when the caller tears down, catches the error and tears down again.
"""
from __future__ import annotations

import io
import itertools
import logging
import os
import random
import shutil
import sys
import tempfile
import types

from . import core

PROP = "C14"
MODE = "writers"

# harness kind -> model letter
KINDS = {
    "path": "p",  # FileWriter("<tmp>/x.gcode")
    "bytesio": "b",  # FileWriter(io.BytesIO())
    "stringio": "t",  # FileWriter(io.StringIO(newline=''))
    "bufbin": "b",  # FileWriter(<buffered binary stream double>)
    "buftext": "t",  # FileWriter(<buffered text stream double>)
    "filebin": "b",  # FileWriter(open("<tmp>/x.gcode", "wb")): io.BufferedWriter over a real file, opened by the caller
    "filetext": "t",  # FileWriter(open("<tmp>/x.gcode", "w", encoding="utf-8", newline="")): io.TextIOWrapper over the same
    "ttybin": "b!",  # the same, isatty() -> True
    "ttytext": "t!",
    "console": "b!",  # ConsoleWriter() while sys.stdout has a .buffer
    "consoletext": "t!",  # ConsoleWriter() while sys.stdout has no .buffer
    "rec": "c",  # recording BaseWriter (copies what it is handed)
    "keep": "c",  # retaining BaseWriter (keeps the objects it is handed; they are read again later)
}
CUSTOM = ("rec", "keep")
XCUSTOM = ("react", "dev")  # custom writers of the oracle-only families (never sent to the model, never drawn by gen_case)
FLAKY = ("flakybin", "flakytext")  # FileWriter over a caller's stream double whose flush() raises OSError once when armed
DISK = {"path", "filebin", "filetext"}  # observed by reading the path through an independent handle
REALFILE = ("filebin", "filetext")  # caller-opened file objects over a real file
USER_BUFFERED = ("bufbin", "buftext") + REALFILE  # user-supplied objects with their own buffer, no tty
LINE_ENDINGS = ["os", "\\n", "\\r\\n", "\\r", "\n", "\r\n"]
LE_CHARS = {"os": os.linesep, "\\n": "\n", "\\r\\n": "\r\n", "\\r": "\r", "\n": "\n", "\r\n": "\r\n"}  # the oracle's own table


def statement_bytes(statement, le):
    """The one byte string a statement is to be delivered as: its text without trailing blanks, one line
    ending, UTF-8 (None: it cannot be encoded, nothing may be delivered).  Computed without the library."""
    ending = LE_CHARS[le] if le in LE_CHARS else le.encode("utf-8").decode("unicode-escape")
    try:
        return (statement.rstrip() + ending).encode("utf-8")
    except UnicodeEncodeError:
        return None


def run_model_par(lines, jobs=6):
    """`core.run_model` on several driver processes at once (the records do not depend on each other)."""
    if len(lines) < 2000:
        return core.run_model(MODE, lines)
    from concurrent.futures import ThreadPoolExecutor

    size = -(-len(lines) // jobs)
    parts = [lines[a:a + size] for a in range(0, len(lines), size)]
    with ThreadPoolExecutor(len(parts)) as ex:
        outs = list(ex.map(lambda part: core.run_model(MODE, part), parts))
    return [o for part in outs for o in part]


# ------------------------------------------------------------------ stream doubles / writers
class BufBin:
    """A user-supplied binary file object with its own buffer: data is `visible` only after flush()."""

    def __init__(self, tty=False):
        self.visible, self.pending, self.closed, self._tty = b"", b"", False, tty

    def write(self, b):
        if not isinstance(b, (bytes, bytearray)):
            raise TypeError("a bytes-like object is required")
        self.pending += bytes(b)
        return len(b)

    def flush(self):
        self.visible += self.pending
        self.pending = b""

    def isatty(self):
        return self._tty

    def close(self):
        self.flush()
        self.closed = True


class BufText:
    """The text twin (`encoding` attribute, accepts str only)."""

    encoding = "utf-8"

    def __init__(self, tty=False):
        self.visible, self.pending, self.closed, self._tty = "", "", False, tty

    def write(self, s):
        if not isinstance(s, str):
            raise TypeError("write() argument must be str")
        self.pending += s
        return len(s)

    def flush(self):
        self.visible += self.pending
        self.pending = ""

    def isatty(self):
        return self._tty

    def close(self):
        self.flush()
        self.closed = True


def _writer_classes():
    from gscrib.writers import BaseWriter

    class Rec(BaseWriter):
        def __init__(self):
            self.chunks, self.discs, self.connects = [], 0, 0

        def connect(self):
            self.connects += 1
            return self

        def disconnect(self, wait=True):
            self.discs += 1

        def write(self, b):
            self.chunks.append(bytes(b))

    return Rec


def _retaining_class():
    from gscrib.writers import BaseWriter

    class Keep(BaseWriter):
        """A writer that keeps the very objects `write()` hands it (to send them later, in a batch).
        `seen`: their content at the moment of the call; `chunks`: the content of the kept objects *now*."""

        def __init__(self):
            self.kept, self.seen, self.discs, self.connects = [], [], 0, 0

        def connect(self):
            self.connects += 1
            return self

        def disconnect(self, wait=True):
            self.discs += 1

        def write(self, b):
            self.kept.append(b)
            self.seen.append(bytes(b))

        @property
        def chunks(self):
            return [bytes(x) for x in self.kept]

    return Keep


class FlakyBin(BufBin):
    """A caller's buffered stream whose next flush() fails once it is `armed` (disk full, pipe closed): OSError, nothing is lost."""

    armed = False

    def flush(self):
        if self.armed:
            self.armed = False
            raise OSError(28, "No space left on device")
        super().flush()


class FlakyText(BufText):
    armed = False

    def flush(self):
        if self.armed:
            self.armed = False
            raise OSError(28, "No space left on device")
        super().flush()


def _reacting_class():
    from gscrib.writers import BaseWriter

    class React(BaseWriter):
        """A custom writer that records what it is handed and answers certain lines by calling the builder API from
        inside write() (a checkpoint / synchronising writer): `rules` = [[text the line contains, [[call, arg], ...]], ...],
        the first matching rule runs; it does not answer lines written by its own answers beyond `depth` levels."""

        def __init__(self, spec):
            self.rules, self.max_depth = spec.get("rules", []), spec.get("depth", 1)
            self.builder, self.budget = None, [0]
            self.chunks, self.discs, self.connects, self.connected, self.level, self.answers, self.rejected = [], 0, 0, False, 0, 0, []

        def connect(self):
            self.connects += 1
            self.connected = True
            return self

        def disconnect(self, wait=True):
            self.discs += 1
            self.connected = False

        def write(self, b):
            if not self.connected:
                self.connect()
            self.chunks.append(bytes(b))
            if self.level >= self.max_depth or self.builder is None:
                return
            text = bytes(b).decode("utf-8")
            for needle, calls in self.rules:
                if needle in text:
                    self.level += 1
                    try:
                        for what, arg in calls:
                            if self.budget[0] <= 0:
                                break
                            self.budget[0] -= 1
                            self.answers += 1
                            try:
                                do_emit(self.builder, what, arg)
                            except core.Infra:
                                raise
                            except Exception as e:  # the builder rejected the call (wait() with the tool on): nothing was written
                                self.rejected.append(type(e).__name__)
                    finally:
                        self.level -= 1
                    break

    return React


def _device_class():
    from gscrib import excepts
    from gscrib.writers import BaseWriter

    def make(name):
        if name == "OSError":
            return OSError(110, "Connection timed out")
        return getattr(excepts, name)("timeout waiting for the device")

    class Dev(BaseWriter):
        """A stand-in for a serial / socket writer: connects lazily, records what it is handed.  With a `fault`
        ({"mode": "once" | "wait", "exc": class name}) and once `armed`, disconnect() of the connected writer raises: "once" - the
        next call, whatever `wait`; "wait" - every call with wait=True (the device stopped answering; only wait=False gets through)."""

        def __init__(self, fault):
            self.fault = fault
            self.chunks, self.discs, self.connects, self.connected, self.armed, self.raised = [], 0, 0, False, False, 0

        def connect(self):
            self.connects += 1
            self.connected = True
            return self

        def disconnect(self, wait=True):
            self.discs += 1
            if self.armed and self.connected and (self.fault["mode"] == "once" or wait):
                if self.fault["mode"] == "once":
                    self.armed = False
                self.raised += 1
                raise make(self.fault["exc"])
            self.armed = False
            self.connected = False

        def write(self, b):
            if not self.connected:
                self.connect()
            self.chunks.append(bytes(b))

    return Dev


class Slot:
    def __init__(self, idx, kind, tmp, tag, spec=None):
        from gscrib.writers import ConsoleWriter, FileWriter

        self.idx, self.kind, self.letter = idx, kind, KINDS.get(kind, "b" if kind == "flakybin" else "t" if kind == "flakytext" else "c")
        self.path = self.handle = None
        self.last_file = None
        if kind == "path":
            self.path = os.path.join(tmp, f"{tag}_{idx}", "out.gcode")  # parent dir is created by the writer
            self.writer = FileWriter(self.path)
        elif kind == "bytesio":
            self.handle = io.BytesIO()
            self.writer = FileWriter(self.handle)
        elif kind == "stringio":
            self.handle = io.StringIO(newline="")
            self.writer = FileWriter(self.handle)
        elif kind in REALFILE:
            self.path = os.path.join(tmp, f"{tag}_{idx}", "out.gcode")
            os.makedirs(os.path.dirname(self.path), exist_ok=True)  # the caller opens (creates / truncates) the file itself
            if kind == "filebin":
                self.handle = open(self.path, "wb")
            else:
                self.handle = open(self.path, "w", encoding="utf-8", newline="")
            self.writer = FileWriter(self.handle)
        elif kind in ("bufbin", "ttybin"):
            self.handle = BufBin(kind == "ttybin")
            self.writer = FileWriter(self.handle)
        elif kind in ("buftext", "ttytext"):
            self.handle = BufText(kind == "ttytext")
            self.writer = FileWriter(self.handle)
        elif kind in ("console", "consoletext"):
            saved = sys.stdout
            try:
                if kind == "console":
                    self.handle = BufBin(False)
                    sys.stdout = types.SimpleNamespace(buffer=self.handle)
                else:
                    self.handle = BufText(False)
                    sys.stdout = self.handle
                self.writer = ConsoleWriter()
            finally:
                sys.stdout = saved
        elif kind == "rec":
            self.writer = _writer_classes()()
            self.handle = self.writer
        elif kind == "keep":
            self.writer = _retaining_class()()
            self.handle = self.writer
        elif kind == "react":
            self.writer = _reacting_class()(spec or {})
            self.handle = self.writer
        elif kind == "dev":
            self.writer = _device_class()(spec)
            self.handle = self.writer
        elif kind in FLAKY:
            self.handle = FlakyBin() if kind == "flakybin" else FlakyText()
            self.writer = FileWriter(self.handle)
        else:
            raise core.Infra(f"unknown writer kind {kind}")

    # -- observation ---------------------------------------------------------------------
    def is_text(self):
        """the observation is a str (a real text-mode file is observed as the bytes on disk)"""
        return self.letter.startswith("t") and self.kind not in DISK

    def given(self):
        """Everything the underlying object has been given (bytes, or str for a text stream); for a
        path-based file and for a caller-opened real file: the bytes on disk now, read through an
        independent handle (what the object holds in its own buffers cannot be seen from outside)."""
        k = self.kind
        if k in DISK:
            try:
                with open(self.path, "rb") as f:
                    return f.read()
            except FileNotFoundError:
                return b""
        if k in ("bytesio", "stringio"):
            return self.handle.getvalue()
        if k == "rec" or k in XCUSTOM:
            return b"".join(self.handle.chunks)
        if k == "keep":
            return b"".join(self.handle.seen)  # as delivered; the kept objects are read again in `record` / `check_mem`
        return self.handle.visible + self.handle.pending

    def visible(self):
        """What a reader of the output sees now."""
        if self.kind in DISK or self.kind in ("bytesio", "stringio") + CUSTOM + XCUSTOM:
            return self.given()
        return self.handle.visible

    def note(self):
        """remember the file object a path writer has open (to see later whether it was closed)"""
        if self.kind not in CUSTOM + XCUSTOM and self.writer._file is not None:
            self.last_file = self.writer._file

    def record(self):
        w = self.writer
        if self.kind in CUSTOM:
            o, c, d, k = "0", "0", "0", str(w.discs)
            r = ".".join(x.hex() for x in w.chunks)
        else:
            f = w._file
            if f is not None:
                self.last_file = f
            o = "1" if f is not None else "0"
            k, r = "?", "?"
            if self.kind == "path":
                c = "1" if (self.last_file is not None and self.last_file.closed) else "0"
                d = "?"
            else:
                c = "1" if self.handle.closed else "0"
                d = "?" if self.kind in ("bytesio", "stringio") + REALFILE else ("1" if self.handle.pending else "0")
        g = self.given()
        if self.is_text():
            b, t = "", ",".join(format(ord(ch), "x") for ch in g)
        else:
            b, t = g.hex(), ""
        return {"o": o, "d": d, "c": c, "k": k, "B": b, "T": t, "R": r}

    def cleanup(self):
        if self.path:
            if self.kind in REALFILE and not self.handle.closed:
                self.handle.close()
            shutil.rmtree(os.path.dirname(self.path), ignore_errors=True)
        elif self.kind in ("bytesio", "stringio"):
            self.handle.close()


# ------------------------------------------------------------------ write-producing builder calls
def do_emit(g, what, arg):
    if what == "move":
        g.move(x=arg)
    elif what == "rapid":
        g.rapid(x=arg, y=-arg)
    elif what == "comment":
        g.comment(arg)
    elif what == "movec":
        g.move(x=1, comment=arg)
    elif what == "rapidc":
        g.rapid(x=2, comment=arg)
    elif what == "commentargs":
        g.comment(arg[0], *arg[1:])
    elif what == "tool_on":
        g.tool_on("clockwise", 1000)
    elif what == "tool_off":
        g.tool_off()
    elif what == "dist":
        g.set_distance_mode(arg)
    elif what == "raw":
        g.write(arg)
    elif what == "sleep":
        g.sleep(arg)
    elif what == "units":
        g.set_length_units(arg)
    elif what == "nan":
        g.move(x=float("nan"))
    elif what == "wait":
        g.wait()
    elif what == "pause":
        g.pause()
    elif what == "toolchange":
        g.tool_change("manual", arg)
    elif what == "annotate":
        g.annotate(arg[0], arg[1])
    else:
        raise core.Infra(f"unknown emit {what}")


TEXTS = ["héllo ✓", "日本語 \U0001f600", "plain", "é", "tab\tin", "€ 5", "á ß \U0001d11e", ""]


# characters that some text APIs (str.splitlines, readline of a text file, editors) take for a line boundary; the builder's
# comment sanitiser replaces only CR / LF, a raw statement keeps all of them: each is part of the statement's one line
SEPARATORS = ["\u2028", "\u2029", "\x85", "\x0b", "\x0c", "\x1c", "\x1d", "\x1e", "\n", "\r", "\r\n"]
BLANKS = ["", "", " ", "   ", "\t", " \t ", "\x0c", "\u2028", "\xa0", "\u3000 ", "\n", "\r\n"]  # statements that are empty / only blanks
PIECES = ["G1 X1", "M112", "M112 arrêt", "pièce nº 7", "G4 P1", "日本語", "note", "; fin", "(a)", "✓"]


def separated_text(rng):
    """Two to four pieces of text with a boundary-like character between them (sometimes also in front / behind)."""
    parts = [rng.choice(PIECES) for _ in range(rng.randint(2, 4))]
    text = parts[0]
    for p in parts[1:]:
        text += rng.choice(["", " "]) + rng.choice(SEPARATORS) * rng.choice([1, 1, 1, 2]) + rng.choice(["", " "]) + p
    r = rng.random()
    if r < 0.15:
        text = rng.choice(SEPARATORS) + text
    elif r < 0.30:
        text += rng.choice(SEPARATORS)
    return text


def gen_odd_statement(rng):
    """Statements whose text is empty, only blanks, or holds boundary-like characters - through every way a text reaches write()."""
    r = rng.random()
    if r < 0.25:
        return ["emit", "raw", rng.choice(BLANKS)]
    if r < 0.50:
        return ["emit", "raw", separated_text(rng)]
    if r < 0.72:
        return ["emit", "comment", separated_text(rng)]
    if r < 0.78:
        return ["emit", "comment", rng.choice(BLANKS)]
    if r < 0.86:
        return ["emit", "commentargs", [rng.choice(PIECES), separated_text(rng), rng.randint(0, 9)]]
    if r < 0.93:
        return ["emit", rng.choice(["movec", "rapidc"]), separated_text(rng)]
    return ["emit", rng.choice(["movec", "rapidc"]), rng.choice(BLANKS)]


def gen_emit(rng):
    if rng.random() < 0.22:
        return gen_odd_statement(rng)
    r = rng.random()
    if r < 0.30:
        return ["emit", "comment", rng.choice(TEXTS) + (" %d" % rng.randint(0, 99) if rng.random() < 0.5 else "")]
    if r < 0.45:
        return ["emit", "move", rng.randint(-50, 50)]
    if r < 0.52:
        return ["emit", "movec", rng.choice(TEXTS)]
    if r < 0.58:
        return ["emit", "rapid", rng.randint(0, 9)]
    if r < 0.64:
        return ["emit", "tool_on", None]
    if r < 0.70:
        return ["emit", "tool_off", None]
    if r < 0.77:
        return ["emit", "dist", rng.choice(["relative", "absolute"])]
    if r < 0.84:
        return ["emit", "raw", rng.choice(["G4 P1", "M117 été", "G1 X1 ; café", "  G0 Z5   ", "M0"])]
    if r < 0.88:
        return ["emit", "sleep", rng.randint(1, 5)]
    if r < 0.92:
        return ["emit", "units", rng.choice(["millimeters", "inches"])]
    if r < 0.96:  # malformed stream: a line that cannot be encoded / a rejected call
        return ["emit", "comment", "bad \ud800 surrogate"]
    return ["emit", "nan", None]


def gen_case(rng, maxlen=25):
    n = rng.randint(1, 4)
    kinds = [rng.choice(list(KINDS)) for _ in range(n)]
    if rng.random() < 0.5 and "path" not in kinds:
        kinds[rng.randrange(n)] = "path"
    ops = []
    for _ in range(rng.randint(3, maxlen)):
        k = rng.choice(["add", "add", "add", "remove", "emit", "emit", "emit", "emit", "flush", "flush", "teardown", "disc", "bump", "with"])
        if k in ("add", "remove", "disc"):
            if k == "disc" and rng.random() < 0.5:
                continue
            ops.append([k, rng.randrange(n)])
        elif k == "emit":
            ops.append(gen_emit(rng))
        elif k == "teardown":
            ops.append(gen_teardown(rng))
        elif k == "with":
            ops.append(gen_with(rng, n))
        else:
            ops.append([k])
    return {"le": rng.choice(LINE_ENDINGS), "kinds": kinds, "ops": ops}


def gen_teardown(rng):
    """teardown(), teardown(wait=False), teardown(wait=True)"""
    r = rng.random()
    return ["teardown"] if r < 0.5 else ["teardown", False] if r < 0.9 else ["teardown", True]


def gen_with(rng, n):
    """`with builder:` around a few operations of the history (writers added / removed, statements, flush - the last
    operation is more often a statement than not: lines still in a buffer when the block is left), left through an
    exception raised in the block ("raise") or normally ("ok"); either way `__exit__` tears the builder down."""
    body = []
    for _ in range(rng.randint(0, 4)):
        k = rng.choice(["add", "add", "remove", "emit", "emit", "emit", "flush"])
        body.append([k, rng.randrange(n)] if k in ("add", "remove") else gen_emit(rng) if k == "emit" else [k])
    if body and rng.random() < 0.5:
        body.append(gen_emit(rng))
    return ["with", body, "raise" if rng.random() < 0.65 else "ok"]


def flat_ops(ops):
    """the operations of a history, those inside `with` blocks included (for the distribution report)"""
    for op in ops:
        yield op
        if op[0] == "with":
            yield from flat_ops(op[1])


# ------------------------------------------------------------------ one history on the implementation
class Outcome:
    def __init__(self):
        self.tokens = []  # model op tokens
        self.marks = []  # (index of the model record to compare with | None, impl record, op)
        self.problems = []  # oracle messages: (tag, step, text)
        self.lines_to_real = 0
        self.statements = 0
        self.kinds_used = set()
        self.errors = []
        self.notes = []  # distribution counters: which file-content checks ran / were left to the owner


def _quiet():
    lg = logging.getLogger("gscrib")
    lg.setLevel(logging.CRITICAL + 1)
    if not lg.handlers:
        lg.addHandler(logging.NullHandler())


def run_history(case, tmp, tag="h", observe_every=True):
    """Run the history on real objects.  Returns an Outcome holding the model input, the
    implementation's records and the verdicts of the oracle (which never looks at the model)."""
    from gscrib import GCodeBuilder
    from gscrib.formatters import DefaultFormatter

    class HookFormatter(DefaultFormatter):
        __slots__ = ("seen",)

        def line(self, statement):
            r = super().line(statement)
            self.seen.append(r)
            return r

    class SpyBuilder(GCodeBuilder):
        """the real builder; every statement is noted where it enters write() and passed on unchanged"""

        def write(self, statement):
            statements.append(statement)
            super().write(statement)

    statements = []
    _quiet()
    out = Outcome()
    kinds = case["kinds"]
    n = len(kinds)
    tap_id = n
    slots = [Slot(i, k, tmp, tag) for i, k in enumerate(kinds)]
    tap = _retaining_class()()  # judged by its copies (`seen`); the objects it was handed are read once more at the end
    g = SpyBuilder(output=None, print_lines=False, line_endings=case["le"])
    fmt = HookFormatter()
    fmt.seen = []
    fmt.set_line_endings(case["le"])
    g.set_formatter(fmt)
    by_id = {id(s.writer): s.idx for s in slots}
    by_id[id(tap)] = tap_id

    # --- the oracle's own books (property, not model) ---
    registered = []  # ids, in order of registration
    expected = {i: b"" for i in range(n)}  # what writer i's output must contain
    exp_chunks = {i: [] for i in range(n)}  # for recorders: the exact sequence of byte strings
    closed_path = set(range(n))  # path writers whose next write (re)opens and truncates the file
    exp_discs = {i: 0 for i in range(n)}

    def problem(tag, step, text):
        out.problems.append((tag, step, text))

    def impl_reg():
        ids = []
        for i in range(n + 3):
            try:
                w = g.get_writer(i)
            except IndexError:
                break
            ids.append(by_id.get(id(w), -1))
        return ids

    def as_bytes(slot, value):
        return value.encode("utf-8") if isinstance(value, str) else value

    def check_mem(step):
        for s in slots:
            s.note()
        # unbuffered outputs hold exactly what was delivered, at every moment, registered or not
        for s in slots:
            if s.kind in ("bytesio", "stringio", "rec", "keep", "ttybin", "ttytext", "console", "consoletext"):
                got = as_bytes(s, s.visible())
                if got != expected[s.idx]:
                    problem("delivery", step, f"writer {s.idx} ({s.kind}) holds {got!r}, lines written while registered are {expected[s.idx]!r}")
            if s.kind in ("bufbin", "buftext"):
                got = as_bytes(s, s.given())
                if got != expected[s.idx]:
                    problem("delivery", step, f"writer {s.idx} ({s.kind}) was given {got!r}, lines written while registered are {expected[s.idx]!r}")
            if s.kind in REALFILE:
                # what the caller's handle still holds cannot be seen; what has reached the disk must at every
                # moment be a beginning of the lines written while registered (nothing else, nothing out of order)
                got = s.visible()
                if not expected[s.idx].startswith(got):
                    problem("delivery", step, f"the file of writer {s.idx} ({s.kind}), read back from disk, holds {got!r}: not a beginning of the lines written while registered {expected[s.idx]!r}")
            if s.kind == "rec" and s.handle.chunks != exp_chunks[s.idx]:
                problem("same-bytes", step, f"recorder {s.idx} received {s.handle.chunks!r}, expected the byte strings {exp_chunks[s.idx]!r}")
            if s.kind == "keep":
                check_kept(step, f"writer {s.idx} (keep)", s.handle, exp_chunks[s.idx])

    def check_kept(step, who, w, due):
        """a writer that keeps the objects write() handed it: they were the due byte strings when they arrived, and they still are"""
        if w.seen != due:
            problem("same-bytes", step, f"{who} was handed {w.seen!r}, expected the byte strings {due!r}")
        now = w.chunks
        if now != w.seen:
            j = next((j for j, (a, b) in enumerate(zip(now, w.seen)) if a != b), min(len(now), len(w.seen)))
            problem("same-bytes", step, f"{who} kept the objects write() handed it: delivery {j} read {w.seen[j]!r} when it arrived and reads "
                                        f"{now[j]!r} now ({type(w.kept[j]).__name__}); all kept objects now read {now!r}, the lines delivered were {w.seen!r}")

    def check_flushed(step, ids, why, how=None):
        """`why`: flush / teardown; `how`: the way the teardown came about, if not a plain teardown()"""
        for i in ids:
            s = slots[i]
            got = as_bytes(s, s.visible())
            if s.kind in USER_BUFFERED and why == "teardown":
                out.notes.append(f"content-after-teardown:{s.kind}" + (":some" if expected[i] else ":empty"))
            if s.kind in USER_BUFFERED + ("path",) and how:
                out.notes.append(f"content-after-{how}:{s.kind}" + (":some" if expected[i] else ":empty"))
            if s.kind in USER_BUFFERED and why == "flush" and s.writer._file is None:
                out.notes.append(f"content-after-flush-while-detached:{s.kind}" + (":some" if expected[i] else ":empty"))
            if s.kind in USER_BUFFERED:
                out.notes.append(f"content-after-flush:{s.kind}" + (":some" if expected[i] else ":empty"))
            if got != expected[i]:
                problem("file-content", step, f"after {how or why + '()'} output {i} ({s.kind}) contains {got!r}, the lines written so far are {expected[i]!r}")

    def record(op, step, model_index):
        rec = {"reg": impl_reg()}
        for s in slots:
            rec[s.idx] = s.record()
        rec[tap_id] = {"o": "0", "d": "0", "c": "0", "k": str(tap.discs), "B": b"".join(tap.seen).hex(), "T": "", "R": ".".join(x.hex() for x in tap.chunks)}
        out.marks.append((model_index, rec, op))
        return rec

    def tok(t):
        out.tokens.append(t)
        return len(out.tokens) - 1

    def add_tap():
        g.add_writer(tap)
        if tap_id not in registered:
            registered.append(tap_id)
        return tok(f"a{tap_id}")

    class Abort(Exception):
        """raised inside a `with builder:` block by the caller's own code"""

    def torn_down(op, step, was, how=None):
        """the books and the property's clauses after a teardown, however it came about (`how`: None = a plain teardown())"""
        nonlocal mi
        what = how or "teardown()"
        mi = tok("t")
        for i in was:
            exp_discs[i] += 1
            if slots[i].kind == "path":
                closed_path.add(i)
        registered.clear()
        left = impl_reg()
        if left:
            problem("teardown", step, f"writers {left} are still registered after {what}")
        for i in was:
            s = slots[i]
            if s.kind not in CUSTOM and s.writer._file is not None:
                problem("teardown", step, f"writer {i} ({s.kind}) is still connected after {what}")
            if s.kind in CUSTOM and s.handle.discs != exp_discs[i]:
                problem("teardown", step, f"custom writer {i} was disconnected {s.handle.discs} times by the end of {what}, expected {exp_discs[i]}")
            if s.kind not in ("path",) + CUSTOM and s.handle.closed:
                problem("teardown", step, f"{what} closed the user-supplied stream of writer {i}")
        check_flushed(step, was, "teardown", how)
        record(op, step, mi)
        mi = add_tap()  # the tap goes back in (not part of the history proper)
        check_mem(step)

    def play(op, step, last):
        """one operation of the history (`step`: its index, `i.j` inside a with-block; `last`: the history ends here)"""
        nonlocal mi
        kind = op[0]
        out.kinds_used.add(kind)
        if kind == "add":
            g.add_writer(slots[op[1]].writer)
            if op[1] not in registered:
                registered.append(op[1])
            mi = tok(f"a{op[1]}")
        elif kind == "remove":
            g.remove_writer(slots[op[1]].writer)
            if op[1] in registered:
                registered.remove(op[1])
            mi = tok(f"r{op[1]}")
        elif kind == "bump":  # move the tap to the end of the list
            g.remove_writer(tap)
            g.add_writer(tap)
            registered.remove(tap_id)
            registered.append(tap_id)
            tok(f"r{tap_id}")
            mi = tok(f"a{tap_id}")
        elif kind == "disc":
            slots[op[1]].writer.disconnect()
            exp_discs[op[1]] += 1
            if slots[op[1]].kind == "path":
                closed_path.add(op[1])
            mi = tok(f"d{op[1]}")
        elif kind == "emit":
            n_seen, n_tap, n_stmt = len(fmt.seen), len(tap.seen), len(statements)
            try:
                do_emit(g, op[1], op[2])
            except core.Infra:
                raise
            except Exception as e:  # rejected call / unencodable line
                out.errors.append(type(e).__name__)
            lines = fmt.seen[n_seen:]
            chunks = tap.seen[n_tap:]
            for ln in lines:
                mi = tok("w" + ",".join(format(ord(ch), "x") for ch in ln))
            # "the same UTF-8 bytes": what the tap received is the encoding of the formatted lines
            want = []
            for ln in lines:
                try:
                    want.append(ln.encode("utf-8"))
                except UnicodeEncodeError:
                    pass
            if chunks != want:
                problem("same-bytes", step, f"writers received {chunks!r} for the lines {lines!r} (UTF-8: {want!r})")
            # "each statement is delivered exactly once": one delivery per statement that entered write(), and it is
            # that statement's own line (computed here, not by the library): its text + one line ending, UTF-8
            stmts = statements[n_stmt:]
            due = [b for b in (statement_bytes(st, case["le"]) for st in stmts) if b is not None]
            out.statements += len(stmts)
            if len(chunks) != len(due):
                problem("exactly-once", step, f"the {len(stmts)} statement(s) {stmts!r} reached the writers as {len(chunks)} deliveries {chunks!r}; "
                                              f"due: {len(due)} ({due!r})")
            elif chunks != due:
                problem("same-bytes", step, f"the statement(s) {stmts!r} were delivered as {chunks!r}, their lines in UTF-8 are {due!r}")
            for b in due:  # the books are kept from what is due, not from what arrived
                tap_due.append(b)
                for i in registered:
                    if i == tap_id:
                        continue
                    if i in closed_path and slots[i].kind == "path":
                        expected[i] = b""
                        closed_path.discard(i)
                    expected[i] += b
                    exp_chunks[i].append(b)
                    out.lines_to_real += 1
        elif kind == "flush":
            g.flush()
            mi = tok("f")
            check_flushed(step, [i for i in registered if i != tap_id], "flush")
        elif kind == "teardown":
            was = [i for i in registered if i != tap_id]
            if len(op) == 1:
                g.teardown()
                torn_down(op, step, was)
            else:
                g.teardown(wait=op[1])
                torn_down(op, step, was, f"teardown(wait={op[1]})")
            return
        elif kind == "with":
            # the caller's own `with builder:` block around some operations; left normally or through an exception
            # raised by the caller's code - `__exit__` tears the builder down either way
            try:
                with g as entered:
                    if entered is not g:
                        problem("teardown", step, f"`with builder as b`: b is {entered!r}, not the builder")
                    for j, sub in enumerate(op[1]):
                        play(sub, f"{step}.{j}", False)
                    if op[2] == "raise":
                        raise Abort()
            except Abort:
                if op[2] != "raise":
                    raise
            else:
                if op[2] == "raise":
                    problem("teardown", step, "the exception raised inside the with-block did not leave it")
            was = [i for i in registered if i != tap_id]
            torn_down(op, step, was, "a with-block left through an exception" if op[2] == "raise" else "a with-block left normally")
            return
        else:
            raise core.Infra(f"unknown op {op}")
        # common per-step checks (in the exhaustive sub-run every prefix is a case of its own: judged at its end)
        if not observe_every and not last:
            check_mem(step)
            return
        got_reg = impl_reg()
        if len(set(got_reg)) != len(got_reg):
            problem("no-duplicates", step, f"the writer list holds a writer twice: {got_reg}")
        elif got_reg != registered:
            problem("registration", step, f"registered writers are {got_reg}, expected {registered}")
        for s in slots:
            if s.kind in CUSTOM and s.handle.discs != exp_discs[s.idx]:
                problem("teardown", step, f"custom writer {s.idx} was disconnected {s.handle.discs} times, expected {exp_discs[s.idx]}")
        check_mem(step)
        if observe_every or last:
            record(op, step, mi)

    tap_due = []  # the byte strings due to the tap (registered throughout)
    mi = add_tap()
    try:
        for step, op in enumerate(case["ops"]):
            play(op, step, step == len(case["ops"]) - 1)
        # ---- end of the history: teardown, then the owner closes what it owns
        final_step = len(case["ops"])
        was = [i for i in registered if i != tap_id]
        g.teardown()
        mi = tok("t")
        check_flushed(final_step, was, "teardown")
        if impl_reg():
            problem("teardown", final_step, f"writers {impl_reg()} are still registered after the final teardown()")
        record(["teardown"], final_step, mi)
        for s in slots:  # the owner disconnects the writers it still holds, then closes its own streams
            if s.kind not in CUSTOM:
                s.writer.disconnect()
                mi = tok(f"d{s.idx}")
        record(["owner-disconnect"], final_step + 1, mi)
        for s in slots:
            if s.kind not in ("path", "bytesio", "stringio") + CUSTOM:
                s.handle.close()
        for s in slots:
            if s.kind in REALFILE:
                out.notes.append(f"content-after-owner-close:{s.kind}" + (":some" if expected[s.idx] else ":empty"))
            got = as_bytes(s, s.visible())
            if got != expected[s.idx]:
                problem("file-content", final_step + 1, f"after closing, output {s.idx} ({s.kind}) contains {got!r}, its session's lines are {expected[s.idx]!r}")
        # a writer that only now looks at what it was handed (a batch sent at the end): every kept object still reads as delivered
        for s in slots:
            if s.kind == "keep":
                check_kept(final_step + 1, f"writer {s.idx} (keep)", s.handle, exp_chunks[s.idx])
        check_kept(final_step + 1, "the always-registered custom writer", tap, tap_due)
    finally:
        for s in slots:
            try:
                if s.kind not in CUSTOM:
                    s.writer.disconnect()
            except Exception:
                pass
            s.cleanup()
    out.letters = [s.letter for s in slots] + ["c"]
    return out


# ------------------------------------------------------------------ oracle-only families (no counterpart in the model)
# Re-entrant statements and failing disconnects.  A statement is the interval of its write() call: (start, end) on a clock
# that ticks when a call begins and when it returns.  `a` is BEFORE `b` in call order when a's call returned before b's
# began.  A statement written from inside a writer's write() overlaps the statement being delivered: their relative order is
# not judged here (see the distribution counter `reentrant:...later-writer...`); two statements written one after the other
# from inside the same write(), or at top level, are ordered, and every writer must receive them in that order.
SPECIAL_POOL = ["rec", "keep", "bytesio", "stringio", "path", "path", "filebin", "filetext", "bufbin", "buftext", "dev"]
NEEDLES = ["G1 ", "G0 ", "M06", "M03", "M05", "G04", "@sync", "G9", "M400", "; "]
FAULT_EXC = ["DeviceTimeoutError", "DeviceTimeoutError", "DeviceError", "DeviceConnectionError", "OSError"]


def gen_plain_emit(rng, serial):
    """write-producing calls whose text holds no CR / LF (the streams of these families are split into lines at the line ending)"""
    r = rng.random()
    serial[0] += 1
    if r < 0.16:
        return ["emit", "comment", rng.choice(TEXTS[:7]) + " %d" % serial[0]]
    if r < 0.30:
        return ["emit", "move", rng.randint(-50, 50)]
    if r < 0.40:
        return ["emit", "rapid", rng.randint(0, 9)]
    if r < 0.50:
        return ["emit", "toolchange", rng.randint(1, 9)]
    if r < 0.58:
        return ["emit", "comment", "@sync %d" % serial[0]]
    if r < 0.65:
        return ["emit", "tool_on", None]
    if r < 0.71:
        return ["emit", "tool_off", None]
    if r < 0.77:
        return ["emit", "dist", rng.choice(["relative", "absolute"])]
    if r < 0.83:
        return ["emit", "sleep", rng.randint(1, 5)]
    if r < 0.89:
        return ["emit", "wait", None]
    if r < 0.95:
        return ["emit", "raw", rng.choice(["G4 P1", "M117 été", "G1 X1 ; café", "  G0 Z5   ", "M0", ""])]
    return ["emit", "movec", rng.choice(TEXTS[:7])]


def gen_answer(rng, serial):
    """one builder call made from inside a writer's write()"""
    serial[0] += 1
    r = rng.random()
    if r < 0.40:
        return ["comment", rng.choice(["checkpoint", "synchronisé ✓", "réponse"]) + " %d" % serial[0]]
    if r < 0.62:
        return ["wait", None]
    if r < 0.74:
        return ["sleep", rng.randint(1, 3)]
    if r < 0.84:
        return ["raw", rng.choice(["M400", "G4 P0", "M117 prêt"])]
    if r < 0.92:
        return ["annotate", ["k%d" % serial[0], rng.choice(["v", "é", "3.175 mm"])]]
    return ["move", rng.randint(-9, 9)]


def gen_react_spec(rng, serial, depth):
    rules = []
    for needle in rng.sample(NEEDLES, rng.randint(1, 3)):
        rules.append([needle, [gen_answer(rng, serial) for _ in range(rng.choice([0, 1, 2, 2, 3, 3]))]])
    return {"rules": rules, "depth": depth}


def gen_special(rng, maxlen=16):
    """A history with writers that write re-entrantly and / or writers whose disconnect fails when the caller tears down."""
    serial = [0]
    n = rng.randint(1, 4)
    kinds = [rng.choice(SPECIAL_POOL) for _ in range(n)]
    specs = {}
    r = rng.random()
    reentrant, faulty = r < 0.55, r >= 0.45
    if reentrant:
        first = rng.randrange(n)
        kinds[first] = "react"
        specs[str(first)] = gen_react_spec(rng, serial, rng.choice([1, 1, 2]))
        if n >= 3 and rng.random() < 0.3:
            second = rng.choice([i for i in range(n) if i != first])
            kinds[second] = "react"
            specs[str(second)] = gen_react_spec(rng, serial, 1)
    if faulty:
        free = [i for i in range(n) if kinds[i] != "react"] or [rng.randrange(n)]
        for i in rng.sample(free, min(len(free), rng.choice([1, 1, 1, 2]))):
            kinds[i] = rng.choice(["dev", "dev", "dev", "flakybin", "flakytext"])
            specs.pop(str(i), None)
            if kinds[i] == "dev":
                specs[str(i)] = {"mode": rng.choice(["once", "once", "wait"]), "exc": rng.choice(FAULT_EXC)}
    order = list(range(n))
    if rng.random() < 0.6:
        rng.shuffle(order)
    ops = [["add", i] for i in order if rng.random() < 0.9]
    for _ in range(rng.randint(2, maxlen)):
        k = rng.choice(["emit"] * 8 + ["add", "add", "remove", "flush", "flush", "teardown", "teardown", "disc"])
        if k == "emit":
            ops.append(gen_plain_emit(rng, serial))
        elif k in ("add", "remove", "disc"):
            ops.append([k, rng.randrange(n)])
        elif k == "teardown":
            ops.append(["teardown", rng.choice([None, None, True, False, "with", "with-raise"]), rng.choice([False, False, None, True]),
                        faulty and rng.random() < 0.85])
        else:
            ops.append([k])
    if faulty and rng.random() < 0.7:  # the usual shape: the job ends with statements still pending and a failing clean-up
        ops.append(gen_plain_emit(rng, serial))
        ops.append(["teardown", rng.choice([None, None, True, "with", "with-raise"]), rng.choice([False, False, None]), True])
    family = "reentrant+teardown-fault" if reentrant and faulty else "reentrant" if reentrant else "teardown-fault"
    return {"family": family, "le": rng.choice(LINE_ENDINGS), "kinds": kinds, "specs": specs, "ops": ops}


def run_special(case, tmp, tag="x"):
    """One history of the oracle-only families on real objects; returns an Outcome (problems, notes, counters)."""
    from gscrib import GCodeBuilder

    class SpyBuilder(GCodeBuilder):
        """the real builder; every statement is noted (with the interval of its call) where it enters write()"""

        def write(self, statement):
            clock[0] += 1
            rec = {"s": statement, "start": clock[0], "end": None, "b": statement_bytes(statement, case["le"]), "level": level[0]}
            statements.append(rec)
            level[0] += 1
            try:
                super().write(statement)
            finally:
                level[0] -= 1
                clock[0] += 1
                rec["end"] = clock[0]

    _quiet()
    clock, level, statements = [0], [0], []
    out = Outcome()
    kinds, specs = case["kinds"], case.get("specs", {})
    n = len(kinds)
    ending = statement_bytes("", case["le"])
    slots = [Slot(i, k, tmp, tag, specs.get(str(i))) for i, k in enumerate(kinds)]
    g = SpyBuilder(output=None, print_lines=False, line_endings=case["le"])
    budget = [150]
    for s in slots:
        if s.kind == "react":
            s.writer.builder, s.writer.budget = g, budget
    by_id = {id(s.writer): s.idx for s in slots}
    registered = []
    due_for = {i: [] for i in range(n)}  # the statements (records) writer i's output must hold, in the order their calls began
    closed_path = set(range(n))
    seen_notes = set()

    def problem(tag_, step, text):
        out.problems.append((tag_, step, text))

    def note(text):
        if text not in seen_notes:
            seen_notes.add(text)
            out.notes.append(text)

    def impl_reg():
        ids = []
        for i in range(n + 3):
            try:
                w = g.get_writer(i)
            except IndexError:
                break
            ids.append(by_id.get(id(w), -1))
        return ids

    def as_bytes(value):
        return value.encode("utf-8") if isinstance(value, str) else value

    def lines_of(s, value, complete):
        """what an output holds, as lines (a custom writer: the byte strings it was handed, one per call)"""
        if s.kind in ("rec",) + XCUSTOM:
            return list(s.handle.chunks), None
        if s.kind == "keep":
            return list(s.handle.seen), None
        pieces = as_bytes(value).split(ending)
        rest = pieces.pop()
        return [p + ending for p in pieces], (rest if rest and complete else None)

    def judge_output(s, value, step, complete, where):
        """`value` against the statements due to writer s: each exactly once, as its own bytes, ordered statements in call order"""
        lines, rest = lines_of(s, value, complete)
        who = f"output {s.idx} ({s.kind})"
        if rest is not None:
            problem("same-bytes", step, f"{where} {who} ends with {rest!r}, not a whole line")
            return
        due = due_for[s.idx]
        in_start_order = [r["b"] for r in due]
        if lines == in_start_order or (not complete and lines == in_start_order[:len(lines)]):
            return  # the order in which the calls began is always a valid one
        # in general: place every line on a statement not yet placed that has the same bytes and that no unplaced statement precedes
        # (no unplaced call returned before its call began); among those the one whose call returned first (it constrains the rest most)
        by_bytes = {}
        for r in due:
            by_bytes.setdefault(r["b"], []).append(r)
        by_end = sorted(due, key=lambda r: r["end"])
        placed, k = set(), 0
        for j, ln in enumerate(lines):
            cands = by_bytes.get(ln)
            if cands is None:
                problem("same-bytes", step, f"{where} {who} holds {ln!r} (line {j}), which is the line of no statement written while it was registered "
                                            f"({in_start_order!r})")
                return
            free = [r for r in cands if r["start"] not in placed]
            if not free:
                problem("exactly-once", step, f"{where} {who} holds {ln!r} more often than it was written while registered: {lines!r}")
                return
            while by_end[k]["start"] in placed:
                k += 1
            first_to_return = by_end[k]
            ok = [r for r in free if r["start"] < first_to_return["end"]]
            if not ok:
                problem("call-order", step, f"{where} {who} holds {ln!r} (line {j}) before {first_to_return['b']!r}, but the call that wrote the latter "
                                            f"(clock {first_to_return['start']}-{first_to_return['end']}) had returned before the call that wrote the former began "
                                            f"(clock {min(r['start'] for r in free)}); all of it: {lines!r}; statements in call order: {in_start_order!r}")
                return
            rec = min(ok, key=lambda r: r["end"])
            placed.add(rec["start"])
            if rec["level"] > 0 and any(u["start"] < rec["start"] < u["end"] and u["start"] not in placed for u in due):
                note("reentrant:a-later-writer-received-the-nested-line-before-the-line-being-delivered(order-not-judged)")
        missing = [r["b"] for r in due if r["start"] not in placed]
        if complete and missing:
            problem("file-content" if where.startswith("after") else "exactly-once", step,
                    f"{where} {who} lacks {missing!r}: it holds {lines!r}, the statements written while registered are {in_start_order!r}")

    def check_all(step):
        for s in slots:
            s.note()
            if s.kind in DISK:
                judge_output(s, s.visible(), step, False, "at this moment")
            else:
                judge_output(s, s.given(), step, True, "at this moment")
            if s.kind == "keep" and s.handle.chunks != s.handle.seen:
                problem("same-bytes", step, f"writer {s.idx} (keep): the kept objects now read {s.handle.chunks!r}, they were delivered as {s.handle.seen!r}")

    def check_flushed(step, ids, what):
        for i in ids:
            s = slots[i]
            if s.kind in DISK or s.kind in USER_BUFFERED + FLAKY + ("path",):
                out.notes.append(f"special:content-after-{'a-caught-and-repeated-teardown' if 'repeated' in what else what}:{s.kind}" + (":some" if due_for[i] else ":empty"))
            judge_output(s, s.visible(), step, True, f"after {what}")

    def connected(s):
        if s.kind in XCUSTOM:
            return s.handle.connected
        if s.kind in CUSTOM:
            return None
        return s.writer._file is not None

    class Abort(Exception):
        pass

    def tear_down(op, step, final=False):
        """the caller's clean-up: teardown (one of its spellings); if it raises, catch and tear down again (then without waiting)"""
        first, retry, arm = (None, False, False) if final else (op[1], op[2], op[3])
        was = list(registered)
        discs0 = {i: slots[i].handle.discs for i in was if slots[i].kind in CUSTOM + XCUSTOM}
        armed = []
        if arm:
            for i in was:
                s = slots[i]
                if (s.kind == "dev" and s.handle.fault and s.handle.connected) or (s.kind in FLAKY and s.writer._file is not None):
                    s.handle.armed = True
                    armed.append(i)
        attempts = [first, retry] + [False] * (len(armed) + 2)
        raised = []
        for how in attempts:
            try:
                if how in ("with", "with-raise"):
                    with g:
                        if how == "with-raise":
                            raise Abort()
                elif how is None:
                    g.teardown()
                else:
                    g.teardown(wait=how)
            except Abort:
                break
            except core.Infra:
                raise
            except Exception as e:
                raised.append(type(e).__name__)
                continue
            break
        else:
            problem("teardown", step, f"teardown kept raising: {raised}")
        for s in slots:
            if s.kind in ("dev",) + FLAKY:
                s.handle.armed = False
        what = "teardown" if not raised else f"a teardown that raised {'/'.join(raised)}, was caught and repeated"
        out.notes.append(f"special:teardown:{'armed' if armed else 'plain'}:raised-{min(len(raised), 3)}x")
        for e in raised:
            out.notes.append("special:teardown-raised:" + e)
        if armed and not raised:
            out.notes.append("special:teardown:armed-but-nothing-raised")
        registered.clear()
        left = impl_reg()
        if left:
            problem("teardown", step, f"writers {left} are still registered after {what}")
        for i in was:
            s = slots[i]
            if s.kind == "path":
                closed_path.add(i)
            c = connected(s)
            if c:
                problem("teardown", step, f"writer {i} ({s.kind}) is still connected after {what}")
            if i in discs0 and s.handle.discs <= discs0[i]:
                problem("teardown", step, f"custom writer {i} ({s.kind}) was not disconnected by {what}")
            if s.kind not in ("path",) + CUSTOM + XCUSTOM and s.handle.closed:
                problem("teardown", step, f"{what} closed the user-supplied stream of writer {i}")
        check_flushed(step, was, what)

    def play(op, step):
        kind = op[0]
        out.kinds_used.add(kind)
        if kind == "add":
            g.add_writer(slots[op[1]].writer)
            if op[1] not in registered:
                registered.append(op[1])
        elif kind == "remove":
            g.remove_writer(slots[op[1]].writer)
            if op[1] in registered:
                registered.remove(op[1])
        elif kind == "disc":
            slots[op[1]].writer.disconnect()
            if slots[op[1]].kind == "path":
                closed_path.add(op[1])
        elif kind == "emit":
            n_stmt = len(statements)
            try:
                do_emit(g, op[1], op[2])
            except core.Infra:
                raise
            except Exception as e:
                out.errors.append(type(e).__name__)
            new = statements[n_stmt:]
            out.statements += len(new)
            if len(new) > 1:
                note(f"reentrant:statements-per-call:{min(len(new), 5)}{'+' if len(new) >= 5 else ''}")
                note(f"reentrant:nesting-depth:{max(r['level'] for r in new)}")
            for rec in new:
                if rec["b"] is None:
                    continue
                for i in registered:
                    if i in closed_path and slots[i].kind == "path":
                        due_for[i] = []
                        closed_path.discard(i)
                    due_for[i].append(rec)
                    out.lines_to_real += 1
        elif kind == "flush":
            g.flush()
            check_flushed(step, list(registered), "flush()")
        elif kind == "teardown":
            tear_down(op, step)
        else:
            raise core.Infra(f"unknown op {op}")
        got_reg = impl_reg()
        if got_reg != registered:
            problem("registration", step, f"registered writers are {got_reg}, expected {registered}")
        check_all(step)

    try:
        for step, op in enumerate(case["ops"]):
            play(op, step)
        final_step = len(case["ops"])
        tear_down(None, final_step, final=True)
        for s in slots:  # the owner disconnects the writers it still holds, then closes its own streams
            if s.kind not in CUSTOM:
                s.writer.disconnect()
        for s in slots:
            if s.kind not in ("path", "bytesio", "stringio") + CUSTOM + XCUSTOM:
                s.handle.close()
        for s in slots:
            judge_output(s, s.visible(), final_step + 1, True, "after closing,")
    finally:
        for s in slots:
            try:
                if s.kind not in CUSTOM:
                    s.writer.disconnect()
            except Exception:
                pass
            s.cleanup()
    out.answers = sum(s.handle.answers for s in slots if s.kind == "react")
    out.notes.extend("special:call-from-inside-write-rejected:" + e for s in slots if s.kind == "react" for e in s.handle.rejected)
    return out


def special_digest(case):
    return {"family": case["family"], "le": case["le"], "kinds": case["kinds"], "specs": case.get("specs", {}), "ops": case["ops"]}


def judge_special(R, case, out, label):
    R.evaluations += 1
    R.count(label, "special:family:" + case["family"])
    for k in case["kinds"]:
        R.count("special:kind:" + k)
    for op in case["ops"]:
        R.count("special:op:" + op[0] + (f"({op[1]},retry={op[2]},{'armed' if op[3] else 'plain'})" if op[0] == "teardown" else ""))
    R.dist["special:statements-entering-write"] += out.statements
    R.dist["special:statements-written-from-inside-write"] += out.answers
    for e in out.errors:
        R.count("special:emit-raised:" + e)
    for note in out.notes:
        R.count(note)
    for tag, step, text in out.problems[:3]:
        R.fail(special_digest(case), f"step {step}: {text}", tag=tag)


def run_special_batch(R, cases, tmp, label):
    for j, case in enumerate(cases):
        judge_special(R, case, run_special(case, tmp, tag=f"{label[:2]}{j % 50}"), label)


SPECIAL_CORPUS = [
    # a checkpoint writer between a stream and a recorder answers a tool change with a comment and a wait
    {"family": "reentrant", "le": "\\n", "kinds": ["bytesio", "react", "rec", "path"],
     "specs": {"1": {"rules": [["M06", [["comment", "checkpoint: outil changé"], ["wait", None]]]], "depth": 1}},
     "ops": [["add", 0], ["add", 1], ["add", 2], ["add", 3], ["emit", "move", 1], ["emit", "toolchange", 2], ["emit", "move", 2], ["flush"],
             ["emit", "toolchange", 3], ["teardown", None, False, False]]},
    # a device writer that times out while waiting, in front of a path-based file and a caller-opened one; the caller gives up waiting
    {"family": "teardown-fault", "le": "\\r\\n", "kinds": ["rec", "dev", "path", "filetext"],
     "specs": {"1": {"mode": "wait", "exc": "DeviceTimeoutError"}},
     "ops": [["add", 0], ["add", 1], ["add", 2], ["add", 3], ["emit", "move", 1], ["emit", "comment", "fin ✓"], ["teardown", None, False, True],
             ["add", 1], ["add", 2], ["emit", "move", 2], ["teardown", "with", None, True]]},
    # a caller's stream whose flush fails once (disk full), alone and in front of a binary real file
    {"family": "teardown-fault", "le": "\n", "kinds": ["flakytext", "filebin"], "specs": {},
     "ops": [["add", 0], ["add", 1], ["emit", "comment", "pièce nº 1"], ["emit", "rapid", 3], ["teardown", True, None, True]]},
]


# ------------------------------------------------------------------ comparing with the model
def parse_model_record(text):
    parts = text.split(" ")
    rec = {"reg": [int(x) for x in parts[0][4:].split(",") if x != ""]}
    for p in parts[1:]:
        f = p.split(":")
        d = {kv[0]: kv[2:] for kv in f[1:]}
        rec[int(f[0])] = d
    return rec


def compare(impl, model, kinds):
    """First difference between what was observed and the model's record, or None."""
    if impl["reg"] != model["reg"]:
        return f"reg impl={impl['reg']} model={model['reg']}"
    for i, m in model.items():
        if i == "reg":
            continue
        a = impl[i]
        disk = i < len(kinds) and kinds[i] in DISK
        mB = m["B"]
        if disk and kinds[i] == "filetext":
            # the model holds the str the text layer was given; on disk it is that text's UTF-8 encoding
            if m["B"] != "":
                return f"writer {i}: the model of a text stream holds bytes {m['B']}"
            mB = "".join(chr(int(x, 16)) for x in m["T"].split(",") if x).encode("utf-8").hex()
        for key in ("o", "d", "c", "k", "T", "R"):
            if a[key] == "?" or (key == "T" and disk and kinds[i] == "filetext"):
                continue
            if key == "R" and m["R"].startswith("#"):
                continue
            if a[key] != m[key]:
                return f"writer {i} field {key}: impl={a[key]} model={m[key]}"
        if disk and m["d"] == "1":
            if not mB.startswith(a["B"]):
                return f"writer {i}: disk content {a['B']} is not a prefix of the model's data {mB}"
        elif a["B"] != mB:
            return f"writer {i} field B: impl={a['B']} model={mB}"
    return None


def model_line(out, last_only=False):
    pick = ""
    if last_only:  # only the records that were observed
        pick = "pick=" + ",".join(str(mi) for mi, _, _ in out.marks) + " "
    return pick + " ".join(out.letters) + " | " + " ".join(out.tokens)


def case_digest(case):
    return {"le": case["le"], "kinds": case["kinds"], "ops": case["ops"]}


def judge(R, case, out, model_text, label, last_only=False):
    """Book-keeping + correspondence + oracle for one executed history."""
    nontrivial = out.lines_to_real >= 1 and len(out.kinds_used) >= 3
    R.case(case_digest(case), nontrivial=nontrivial)
    R.count(label, "le:" + repr(case["le"]), f"len:{min(len(case['ops']) // 5 * 5, 25)}+")
    for k in case["kinds"]:
        R.count("kind:" + k)
    for op in flat_ops(case["ops"]):
        R.count("op:" + op[0] + (":" + op[1] if op[0] == "emit" else f"(wait={op[1]})" if op[0] == "teardown" and len(op) > 1 else
                                 f":{op[2]}:{min(len(op[1]), 3)}{'+' if len(op[1]) >= 3 else ''}-ops-inside" if op[0] == "with" else ""))
    for op in flat_ops(case["ops"]):  # the distribution of the odd texts (a generator that stopped producing them is visible)
        if op[0] == "emit" and isinstance(op[2], (str, list)):
            text = op[2] if isinstance(op[2], str) else " ".join(str(a) for a in op[2])
            if not text.strip():
                R.count("text:empty" if text == "" else "text:blank-only")
            elif any(ch in text for ch in SEPARATORS[:8]):
                R.count("text:unicode/control-boundary-char-inside")
            elif "\n" in text or "\r" in text:
                R.count("text:cr/lf-inside")
    R.dist["statements-entering-write"] += out.statements
    for e in out.errors:
        R.count("emit-raised:" + e)
    for note in out.notes:
        R.count(note)
    if model_text is not None:
        texts = model_text.split(" ; ")
        if last_only:
            recs = {mi: t for (mi, _, _), t in zip(out.marks, texts)}
        else:
            recs = dict(enumerate(texts))
        for mi, impl, op in out.marks:
            diff = compare(impl, parse_model_record(recs[mi]), case["kinds"])
            if diff:
                R.disagree("writers-history", case_digest(case), diff, recs[mi], step=str(op))
                break
    for tag, step, text in out.problems[:3]:
        R.fail(case_digest(case), f"step {step}: {text}", tag=tag)


def _worker(args):
    """Run a chunk of histories in a forked process (own temporary directory)."""
    chunk, label, last_only, wid = args
    tmp = tempfile.mkdtemp(prefix="gscrib_c14_")
    try:
        return [run_history(case, tmp, tag=f"w{wid}_{j % 50}", observe_every=not last_only) for j, case in enumerate(chunk)]
    finally:
        shutil.rmtree(tmp, ignore_errors=True)


def run_batch(R, cases, tmp, label, last_only=False, procs=1):
    if procs > 1 and len(cases) >= 4000:
        import multiprocessing

        size = 2500
        jobs = [(cases[a:a + size], label, last_only, a // size) for a in range(0, len(cases), size)]
        with multiprocessing.get_context("fork").Pool(procs) as pool:
            outs = [o for part in pool.map(_worker, jobs) for o in part]
    else:
        outs = []
        for j, case in enumerate(cases):
            outs.append(run_history(case, tmp, tag=f"{label[:2]}{j % 50}", observe_every=not last_only))
    model_out = run_model_par([model_line(o, last_only) for o in outs])
    for case, o, mo in zip(cases, outs, model_out):
        judge(R, case, o, mo, label, last_only)


def exhaustive_realfile_cases(maxlen):
    """All histories <= maxlen over two caller-opened real files handed over as file objects (0: text mode,
    1: binary mode; the tap is a third writer) and add 0 / add 1 / remove 0 / owner disconnect 0 / one
    write-producing call / flush / teardown() / teardown(wait=False) / a with-block holding one write-producing call
    that is left through an exception."""
    alphabet = [["add", 0], ["add", 1], ["remove", 0], ["disc", 0], ["emit", "comment", "é✓"], ["flush"], ["teardown"],
                ["teardown", False], ["with", [["emit", "comment", "é✓"]], "raise"]]
    for L in range(maxlen + 1):
        for combo in itertools.product(alphabet, repeat=L):
            yield {"le": "\\r\\n", "kinds": ["filetext", "filebin"], "ops": list(combo)}


def exhaustive_cases(maxlen):
    """All histories <= maxlen over three writers (path file, text stream, recorder; the tap is a fourth,
    always registered) and the operations add/remove of each, one write-producing call, flush, teardown."""
    alphabet = [["add", 0], ["add", 1], ["add", 2], ["remove", 0], ["remove", 1], ["remove", 2],
                ["emit", "comment", "é✓"], ["flush"], ["teardown"]]
    for L in range(maxlen + 1):
        for combo in itertools.product(alphabet, repeat=L):
            yield {"le": "\\n", "kinds": ["path", "stringio", "rec"], "ops": list(combo)}


CORPUS = [
    # the repository's own test_write_after_disconnect, through the builder: the path file is truncated on re-open
    {"le": "\\n", "kinds": ["path"], "ops": [["add", 0], ["emit", "raw", "G1 X10 Y10"], ["disc", 0], ["emit", "raw", "G1 X20 Y20"], ["flush"]]},
    {"le": "\\r\\n", "kinds": ["path", "stringio", "rec"], "ops": [["add", 0], ["add", 1], ["add", 1], ["add", 2], ["emit", "comment", "héllo ✓"], ["remove", 1], ["emit", "move", 3], ["flush"], ["teardown"], ["add", 0], ["emit", "comment", "€"]]},
    {"le": "os", "kinds": ["console", "consoletext", "ttybin", "bufbin"], "ops": [["add", 3], ["add", 0], ["add", 1], ["add", 2], ["emit", "comment", "\U0001f600"], ["flush"], ["emit", "tool_on", None], ["teardown"], ["add", 3], ["flush"]]},
    # caller-opened real files (text and binary mode) next to a path-based one: flush() must make every line written so far
    # readable from the path through another handle, also a second time, when idle, and after a detach / re-attach
    {"le": "\\n", "kinds": ["filetext", "filebin", "path"], "ops": [["add", 0], ["add", 1], ["add", 2], ["emit", "raw", "G21"], ["emit", "comment", "pièce n° 1 – ünïcödé ✓"], ["emit", "move", 1], ["flush"], ["emit", "comment", "日本語 コメント"], ["emit", "raw", "M400"], ["flush"], ["flush"], ["disc", 0], ["emit", "move", 2], ["flush"], ["teardown"], ["add", 0], ["add", 1], ["emit", "comment", "fin"], ["flush"]]},
    {"le": "\\r\\n", "kinds": ["filebin", "filetext"], "ops": [["add", 1], ["emit", "comment", "€ \U0001f600"], ["remove", 1], ["add", 0], ["emit", "tool_on", None], ["flush"], ["add", 1], ["emit", "rapid", 3], ["flush"], ["teardown"], ["add", 1], ["flush"]]},
    # one statement = one delivery = one line, whatever its text: a comment with a typographic line separator pasted in, a blank
    # separator statement, a raw statement with a form feed / a bare LF inside; to a recorder, a path file and text streams
    {"le": "\\r\\n", "kinds": ["rec", "path", "bytesio"], "ops": [["add", 0], ["add", 1], ["add", 2], ["emit", "comment", "section 1"], ["emit", "comment", "côté A\u2028G28 après"], ["emit", "raw", ""], ["emit", "move", 3], ["flush"], ["emit", "movec", "fin\u2029✓"], ["teardown"]]},
    {"le": "\\n", "kinds": ["stringio", "filetext", "ttytext"], "ops": [["add", 0], ["add", 1], ["add", 2], ["emit", "raw", "G1 X1\x0cG1 X2"], ["emit", "raw", "   "], ["emit", "raw", "M117 a\x85b\x1ec"], ["emit", "raw", "G0 X1\nG0 X2"], ["emit", "comment", ""], ["flush"], ["emit", "raw", "\t"], ["flush"]]},
    # a custom writer that keeps the objects it is handed next to a stream: each must still read as its own line after later
    # statements, a flush, a teardown and a second session (bytes are immutable; a queueing writer relies on it)
    {"le": "\n", "kinds": ["keep", "bytesio"], "ops": [["add", 0], ["add", 1], ["emit", "comment", "pièce nº 1"], ["emit", "dist", "absolute"], ["emit", "move", 1], ["flush"], ["emit", "raw", "M400"], ["teardown"], ["add", 0], ["emit", "comment", "✓"], ["emit", "rapid", 5]]},
    # tearing down without waiting, and with-blocks left through an exception / normally: the caller's buffered files (a stream
    # double, text- and binary-mode real files read back from disk) hold every line written so far, the path file is closed
    {"le": "\r\n", "kinds": ["filetext", "bufbin", "path", "keep"], "ops": [["add", 0], ["add", 1], ["add", 2], ["add", 3], ["emit", "comment", "fin de tâche"], ["emit", "move", 3], ["teardown", False], ["add", 0], ["add", 1], ["emit", "tool_off", None], ["teardown", True]]},
    {"le": "\n", "kinds": ["filebin", "buftext", "path"], "ops": [["add", 0], ["with", [["add", 1], ["add", 2], ["emit", "comment", "début"], ["emit", "move", 1], ["emit", "rapid", 5]], "raise"], ["with", [["add", 0], ["add", 1], ["emit", "comment", "reprise ✓"], ["flush"], ["emit", "move", 2]], "ok"], ["add", 1], ["emit", "raw", "M2"], ["with", [], "raise"]]},
    {"le": "\n", "kinds": ["bytesio", "buftext"], "ops": [["add", 0], ["add", 1], ["emit", "comment", "bad \ud800 surrogate"], ["emit", "nan", None], ["bump"], ["emit", "dist", "relative"], ["remove", 0], ["emit", "tool_off", None], ["flush"]]},
]


def run(R: core.Run):
    R.rule = ("histories of add_writer/remove_writer/write-producing builder calls/flush/teardown/owner disconnect over 1-4 "
              "writers of 13 kinds (incl. caller-opened text- and binary-mode real files read back from disk, and custom writers that copy / that "
              "retain the objects write() hands them, re-read after every later operation and at the end) and 6 line-ending settings; teardown as "
              "teardown() / teardown(wait=False) / teardown(wait=True) / a `with builder:` block around 0-5 operations left through an exception or normally; statement texts incl. empty / blank-only ones and ones with boundary-like characters (U+2028/2029/0085, VT, FF, FS-RS, CR, LF) inside raw text and comments; non-trivial = at least one line delivered to a non-tap writer "
              "and >= 3 operation kinds; distinct by hash")
    R.assumptions = [
        "OS / io.Buffered* buffering is not modelled beyond the `dirty` flag: disk content is compared exactly when the model says "
        "nothing is unflushed, as a prefix otherwise",
        "FileWriter.flush() calls flush() on whatever file object it is connected to, its own or the caller's, and disconnect() "
        "(hence teardown() with any `wait`, the end of a `with builder:` block however it is left, and remove-by-owner) flushes a caller's "
        "object before detaching it - the model's teardown has no `wait` parameter and FileWriter.disconnect ignores it, all are the one "
        "operation `teardown` for the model: for the stream doubles and for "
        "caller-opened real files (open(p, 'wb'), open(p, 'w', encoding='utf-8', newline='')) the content after flush() and after "
        "teardown() is what an independent reader sees (the double's visible part / the path read through a new handle), compared exactly",
        "text streams are UTF-8 / str-based (StringIO, stream doubles); a text stream with another encoding is out of scope",
    ]
    tmp = tempfile.mkdtemp(prefix="gscrib_c14_")
    if any(tmp.startswith(p) for p in ("/repo", "/verif")):
        raise core.Infra("temporary directory inside the repositories")
    try:
        run_batch(R, CORPUS, tmp, "corpus")
        cases = [gen_case(R.rng) for _ in range(R.n(800, 20000))]
        run_batch(R, cases, tmp, "random", procs=8)
        if R.thorough:
            ex = list(exhaustive_cases(6))
            for a in range(0, len(ex), 100000):
                run_batch(R, ex[a:a + 100000], tmp, "exhaustive<=6", last_only=True, procs=8)
            R.exhaustive = False
            R.extra["exhaustive_subrun"] = {
                "cases": len(ex), "exhaustive": True,
                "scope": "all histories of length <= 6 over {add,remove} x {path file, text stream, recorder}, one write-producing "
                         "call (non-ASCII comment), flush, teardown; final state compared (every prefix is itself a case)"}
        else:
            ex = list(exhaustive_cases(3))
            run_batch(R, ex, tmp, "exhaustive<=3", last_only=True)
            R.extra["exhaustive_subrun"] = {"cases": len(ex), "exhaustive": True, "scope": "all histories of length <= 3 (same alphabet as the thorough tier)"}
        depth = 5 if R.thorough else 3  # a length, not a sample size: never scaled by R.n (VERIF_SCALE / the 3x boost)
        exr = list(exhaustive_realfile_cases(depth))
        run_batch(R, exr, tmp, f"exhaustive-realfiles<={depth}", last_only=True, procs=8)
        R.extra["exhaustive_subrun_realfiles"] = {
            "cases": len(exr), "exhaustive": True,
            "scope": f"all histories of length <= {depth} over a caller-opened text-mode and a binary-mode real file: add of each, remove / "
                     "owner disconnect of the text one, one write-producing call (non-ASCII comment, CRLF), flush, teardown(), teardown(wait=False), "
                     "a with-block holding one write-producing call and left through an exception; final state "
                     "compared, content read back from disk (every prefix is itself a case)"}
        # oracle-only families (the model has no writer that writes re-entrantly and no disconnect that raises)
        run_special_batch(R, SPECIAL_CORPUS, tmp, "special-corpus")
        run_special_batch(R, [gen_special(R.rng) for _ in range(R.n(300, 6000))], tmp, "special-random")
        R.extra["oracle_only_families"] = (
            "custom writers that call the builder API 0-3 times from inside write() on certain lines (nesting <= 2 per writer), and writers whose "
            "disconnect raises (DeviceTimeoutError / DeviceError / DeviceConnectionError / OSError; a caller's stream whose flush raises OSError) when the caller "
            "tears down, catches the error and tears down again: implementation + oracle only, counted under `special:*`, not sent to the model; "
            "the order of a statement written from inside write() relative to the line being delivered is not judged")
        if R.broken:
            R.search_batches += 1
            for j in range(R.n(1500, 6000)):
                case = gen_case(R.rng, maxlen=30)
                o = run_history(case, tmp, tag=f"s{j % 50}")
                R.evaluations += 1
                for tag, step, text in o.problems[:3]:
                    R.fail(case_digest(case), f"step {step}: {text}", tag=tag)
            run_special_batch(R, [gen_special(R.rng, maxlen=24) for _ in range(R.n(600, 3000))], tmp, "special-search")
    finally:
        shutil.rmtree(tmp, ignore_errors=True)
    return {}, {}


def replay(data):
    core.use_repo()
    fl = data.get("failure") or data.get("first", {})
    case = fl.get("case")
    if not case:
        print("replay: no case recorded (", data.get("no_longer_checks"), ")")
        return 1
    tmp = tempfile.mkdtemp(prefix="gscrib_c14_")
    if case.get("family"):  # an oracle-only family: no model record to compare with
        try:
            o = run_special(case, tmp, tag="replay")
        finally:
            shutil.rmtree(tmp, ignore_errors=True)
        for tag, step, text in o.problems:
            print(f"oracle[{tag}] step {step}: {text}")
        if not o.problems:
            print("oracle: ok")
        return 1 if o.problems else 0
    try:
        o = run_history(case, tmp, tag="replay")
        mo = core.run_model(MODE, [model_line(o)])[0]
    finally:
        shutil.rmtree(tmp, ignore_errors=True)
    recs = dict(enumerate(parse_model_record(x) for x in mo.split(" ; ")))
    diff = None
    for mi, impl, op in o.marks:
        diff = compare(impl, recs[mi], case["kinds"])
        if diff:
            print("first difference at", op, ":", diff)
            break
    print("model ops:", " ".join(o.tokens))
    for tag, step, text in o.problems:
        print(f"oracle[{tag}] step {step}: {text}")
    if not o.problems:
        print("oracle: ok")
    return 1 if (o.problems or diff) else 0

"""Shared helpers of the C08 / C09 checks (formatter and text paths).

* string <-> line-protocol encoding (dot separated hex code points, `~` empty, `-` None);
* an **independent block-grammar lexer** and an **independent comment stripper** (plain Python,
  written without reference to the Lean model or to gscrib's formatter) - the oracles;
* a recording writer and a factory for `GCodeBuilder` under given formatter settings;
* a catalogue of every text-producing builder command together with the statement(s) it is
  documented to assemble (`Stmt`s of the Lean model: cmd / table / pre / tool / bare / text);
* numpy-free shortest-digit generation (the *trusted parameter* of the number model).
"""
from __future__ import annotations

import math
import re
from decimal import Decimal
from fractions import Fraction

from . import core

# ------------------------------------------------------------------ protocol encoding


def enc(s) -> str:
    if s is None:
        return "-"
    if s == "":
        return "~"
    return ".".join(format(ord(c), "x") for c in s)


def dec(t: str):
    if t == "-":
        return None
    if t == "~":
        return ""
    return "".join(chr(int(w, 16)) for w in t.split("."))


def rat(q: Fraction) -> str:
    return str(q.numerator) if q.denominator == 1 else f"{q.numerator}/{q.denominator}"


# ------------------------------------------------------------------ styles (own table, compared with the repo's)

PAIRS = {"(": ")", "[": "]", "{": "}", "<": ">", '"': '"', "'": "'", "/*": "*/"}
EOL_SYMBOLS = [";", "#", "//", "%", ";;", "--", "(*"]
ALL_SYMBOLS = list(PAIRS) + EOL_SYMBOLS


def style_of(symbols: str):
    """(opening, closing or '') for the comment symbols handed to the configuration."""
    s = symbols.strip()
    return s, PAIRS.get(s, "")


def repo_styles_match() -> bool:
    from gscrib.formatters import default_formatter as df

    return dict(zip(df.COMMENT_OPENINGS, df.COMMENT_ENDINGS)) == PAIRS


# ------------------------------------------------------------------ independent readers (oracles)

NUM = re.compile(r"-?[0-9]+(?:\.[0-9]+)?\Z")
BREAKS = ("\r", "\n")


class LexError(Exception):
    pass


def split_eol(raw: str, eol: str) -> str:
    """One complete line: ends with the configured ending, no other CR/LF anywhere."""
    if not eol or not raw.endswith(eol):
        raise LexError("line does not end with the configured line ending")
    body = raw[: len(raw) - len(eol)]
    if any(b in body for b in BREAKS):
        raise LexError("line break inside the line")
    return body


def split_comment(body: str, opening: str, closing: str):
    """code part and the (at most one, final) comment of a line body."""
    k = body.find(opening)
    if k < 0:
        return body, None
    code, rest = body[:k], body[k + len(opening):]
    if not closing:
        return code, rest.strip()
    j = rest.find(closing)
    if j < 0:
        raise LexError("unterminated comment")
    if rest[j + len(closing):] != "":
        raise LexError("text after the comment")
    return code, rest[:j].strip()


def lex_word(w: str):
    i = 0
    while i < len(w) and not (w[i].isdigit() and w[i].isascii() or w[i] in "-." or w[i].isspace()):
        i += 1
    label, num = w[:i], w[i:]
    if not label or not NUM.match(num):
        raise LexError(f"word {w!r} is not <letters><plain decimal>")
    return label, num


def lex_line(raw: str, opening: str, closing: str, eol: str):
    """Block grammar: `word* comment? eol`.  Returns ([(label, numtext)], comment|None)."""
    body = split_eol(raw, eol)
    code, cm = split_comment(body, opening, closing)
    toks = [lex_word(w) for w in code.split(" ") if w != ""]
    return toks, cm


def strip_comments(text: str, opening: str, closing: str):
    """Executable words per physical line (lines split at every CR / LF), comments removed;
    lines with nothing executable are dropped."""
    out = []
    for ln in re.split(r"[\r\n]", text):
        res, i = [], 0
        while i < len(ln):
            if ln.startswith(opening, i):
                if not closing:
                    break
                j = ln.find(closing, i + len(opening))
                if j < 0:
                    break
                i = j + len(closing)
            else:
                res.append(ln[i])
                i += 1
        ws = [w for w in "".join(res).split(" ") if w != ""]
        if ws:
            out.append(ws)
    return out


def break_count(text: str) -> int:
    return text.count("\r") + text.count("\n")


def show_exec(lines) -> str:
    return "|".join(",".join(enc(w) for w in ws) for ws in lines) if lines else "~"


def show_lex(toks, cm) -> str:
    return ",".join(f"{enc(a)}:{enc(b)}" for a, b in toks) + ";" + enc(cm)


# ------------------------------------------------------------------ adversarial comment texts (shared by C08 / C09)
#
# Two families of text that a comment sanitiser + a later text-processing step can get wrong although every
# "ordinary" delimiter / line break is handled:
#  (a) *compatibility look-alikes*: code points that Unicode normalisation (NFKC / NFKD), case folding or case
#      mapping turn into a comment delimiter (full-width, small-form, super/subscript, enclosed forms ...), and the
#      code points Python's own text functions treat as line boundaries (str.splitlines: NEL, LS, PS, FS ...).  The
#      tables are *derived* from `unicodedata` / `str`, not written down.
#  (b) *self-nested / overlapping closers*: the closing symbol inserted into itself, repeated, overlapped or split
#      by something a sanitiser removes (a line break, a zero-width / ignorable character), so that deleting one
#      occurrence - or the separator - creates another one.
# Every text puts executable-looking words after the dangerous part.

PAYLOADS = ["G1 X9", "M3 S1000", "G0 Z-5", "M112", "G28", "T2 M6"]
IGNORABLE = ["\u200b", "\u200d", "\ufeff", "\u00ad", "\u2060", "\x00", "\x7f", "\u0301"]
_LOOKALIKES = None


def lookalikes():
    """{ASCII delimiter character: (exact, containing)}: code points other than the character itself that some
    normalisation form / case mapping maps exactly onto it, resp. onto a string containing it"""
    global _LOOKALIKES
    if _LOOKALIKES is None:
        import unicodedata as U

        targets = set("".join(ALL_SYMBOLS) + "".join(PAIRS.values()) + " ")
        exact_, cont = {t: [] for t in targets}, {t: [] for t in targets}
        for cp in range(0x80, 0x20000):
            if 0xD800 <= cp < 0xE000:
                continue
            c = chr(cp)
            forms = {U.normalize("NFKC", c), U.normalize("NFKD", c), c.casefold(), c.lower(), c.upper()} - {c}
            if not forms:
                continue
            for t in targets.intersection("".join(forms)):
                if t in forms:
                    exact_[t].append(c)
                elif any(t in f for f in forms):
                    cont[t].append(c)
        _LOOKALIKES = {t: (exact_[t], cont[t]) for t in sorted(targets)}
    return _LOOKALIKES


_LINE_BOUNDARIES = None


def line_boundaries():
    """characters other than CR / LF at which `str.splitlines` breaks a text (what a step that re-splits or
    re-joins lines would treat as a line break)"""
    global _LINE_BOUNDARIES
    if _LINE_BOUNDARIES is None:
        _LINE_BOUNDARIES = [chr(c) for c in range(0x3000) if chr(c) not in "\r\n" and len(f"a{chr(c)}b".splitlines()) > 1]
    return _LINE_BOUNDARIES


def disguise(rng, symbol: str, all_chars=False) -> str:
    """the symbol with one (or every) character replaced by a look-alike code point; '' when it has none"""
    tab = lookalikes()
    idx = [i for i, ch in enumerate(symbol) if tab.get(ch, ([], []))[0] or tab.get(ch, ([], []))[1]]
    if not idx:
        return ""
    chosen = idx if all_chars else [rng.choice(idx)]
    out = list(symbol)
    for i in chosen:
        ex, co = tab[symbol[i]]
        pool = ex if ex and (not co or rng.random() < 0.7) else co
        out[i] = rng.choice(pool)
    return "".join(out)


def nestings(closing: str):
    """the closing symbol nested in itself / overlapping itself (deleting one occurrence leaves another)"""
    c = closing
    out = []
    for k in range(1, max(len(c), 2)):
        k = min(k, len(c))
        one = c[:k] + c + c[k:]
        out += [one, c[:k] + one + c[k:], c[:k] * 3 + c + c[k:] * 3]
    out += [c + c, c * 3, c[0] + c, c + c[-1], c + " " + c]
    return out


def splits(rng, closing: str):
    """the closing symbol with something removable between / around its characters"""
    c = closing
    sep = rng.choice(IGNORABLE + ["\r", "\n", "\r\n", "\n\n"] + line_boundaries())
    if len(c) > 1:
        k = rng.randrange(1, len(c))
        return c[:k] + sep + c[k:]
    return rng.choice([sep + c, c + sep, c + sep + c])


def adversarial_text(rng, opening: str, closing: str) -> str:
    """one text of the families above, for the comment style (opening, closing or '') in force"""
    pay = rng.choice(PAYLOADS)
    lead = rng.choice(["", "", "a ", "see ", "注 ", "é", " "])
    tail = rng.choice(["", "", " ", " " + opening + " b", " " + closing if closing else " end"])
    r = rng.random()
    danger = ""
    if closing and r < 0.34:
        pool = nestings(closing)
        k = 3 * max(len(closing) - 1, 1)  # the first k are the closer inserted into itself (1, 2, 3 levels deep)
        danger = rng.choice(pool[:k]) if rng.random() < 0.6 else rng.choice(pool[k:])
    elif closing and r < 0.44:
        danger = splits(rng, closing)
    elif r < 0.80:
        # look-alike of the closing symbol (mostly), of the opening one or of any other delimiter
        q = rng.random()
        sym = closing if closing and q < 0.7 else opening if q < 0.85 else rng.choice(ALL_SYMBOLS + list(PAIRS.values()))
        danger = disguise(rng, sym, all_chars=rng.random() < 0.5)
        if danger and closing and rng.random() < 0.25:
            danger = rng.choice([closing + " " + danger, danger + closing, danger * 2])
    if not danger:
        # look-alikes of a line break, in front of the payload
        danger = rng.choice(line_boundaries()) * rng.choice([1, 1, 2])
        if rng.random() < 0.3:
            danger = rng.choice(["\r", "\n"]) + danger
    glue = rng.choice([" ", " ", "", "  ", rng.choice(lookalikes()[" "][0])])
    return f"{lead}{danger}{glue}{pay}{tail}"


_REVERSE = None


def text_features(text: str, closing: str):
    """labels for the distribution report"""
    global _REVERSE
    out = []
    if not text.isascii():
        if _REVERSE is None:
            _REVERSE = {}
            for t, (ex, co) in lookalikes().items():
                for ch in ex + co:
                    _REVERSE.setdefault(ch, set()).add(t)
        if closing and any(_REVERSE.get(ch, set()) & set(closing) for ch in text):
            out.append("look-alike-of-closing")
        elif any(_REVERSE.get(ch, set()) - {" "} for ch in text):
            out.append("look-alike-of-other-delimiter")
    if any(ch in text for ch in line_boundaries()):
        out.append("line-boundary-other-than-CR/LF")
    if closing and any(n in text for n in nestings(closing)[:3 * max(len(closing) - 1, 1)]):
        out.append("closing-nested-in-itself")
    return out


# ------------------------------------------------------------------ numbers: exact values, trusted shortest digits


def scalar_kind(x) -> str:
    import numpy as np

    if isinstance(x, bool):
        return "bool"
    if isinstance(x, (np.float32, np.float16)):
        return "f32"          # "narrow" binary floats: numpy prints them with the digits that identify them at their own width
    if isinstance(x, (np.floating, float)):
        return "f64"
    if isinstance(x, (int, np.integer)):
        return "int"
    return type(x).__name__


def exact(x) -> Fraction:
    """the exact rational of a finite scalar"""
    k = scalar_kind(x)
    if k in ("int", "bool"):
        return Fraction(int(x))
    return Fraction(float(x))  # float32 -> float64 is exact


def ulp_of(x) -> Fraction:
    """unit in the last place of the binary value numpy formats"""
    import numpy as np

    k = scalar_kind(x)
    if k == "f32":
        return Fraction(float(np.spacing(np.abs(x))))
    return Fraction(math.ulp(float(x)))


def reads_back(text: str, x) -> bool:
    """the decimal text identifies the very scalar requested (at the scalar's own precision)"""
    import numpy as np

    if scalar_kind(x) == "f32":
        with np.errstate(all="ignore"):
            return bool(type(x)(text) == x)
    return float(text) == float(x)


def positional(d: Decimal) -> str:
    s = format(d, "f")
    if "." in s:
        s = s.rstrip("0").rstrip(".")
    return s if s not in ("", "-") else s + "0"


def _short_f32(x) -> str:
    """shortest decimal that the scalar's own type (np.float32 / np.float16) reads back to x (both p-digit neighbours
    tried, nearest wins)"""
    import numpy as np

    a = abs(Fraction(float(x)))
    e = 0
    while Fraction(10) ** (e + 1) <= a:
        e += 1
    while Fraction(10) ** e > a:
        e -= 1
    for p in range(1, 12):
        scale = Fraction(10) ** (p - 1 - e)
        s = a * scale
        lo = s.numerator // s.denominator
        cands = []
        for c in (lo, lo + 1):
            if c == 0:
                continue
            val = Fraction(c) / scale
            txt = positional(Decimal(val.numerator) / Decimal(val.denominator))
            if type(x)(txt) == np.abs(x):
                cands.append((abs(val - a), c % 2, txt))
        if cands:
            cands.sort()
            return ("-" if x < 0 else "") + cands[0][2]
    raise core.Infra(f"no shortest digits for float32 {x!r}")


def shortest(x) -> str:
    """Shortest positional decimal identifying the scalar numpy formats - computed WITHOUT numpy's
    formatter (CPython's repr for binary64, a direct search for binary32).  This is the trusted
    parameter of the number model (`fmtNumberU`)."""
    k = scalar_kind(x)
    if k == "f32":
        return _short_f32(x)
    # Decimal(str) and format(.., "f") are exact whatever the context precision
    return positional(Decimal(repr(float(x))))


def frac_len(text: str) -> int:
    return len(text.split(".")[1]) if "." in text else 0


# ------------------------------------------------------------------ builder under test


def make_builder(dp, symbols, le_arg, labels=("X", "Y", "Z")):
    from gscrib import GCodeBuilder
    from gscrib.writers import BaseWriter

    class Rec(BaseWriter):
        def __init__(self):
            self.raw = []

        def connect(self):
            return self

        def disconnect(self, wait=True):
            pass

        def write(self, b):
            self.raw.append(bytes(b))

        def flush(self):
            pass

    g = GCodeBuilder(
        output=None, decimal_places=dp, comment_symbols=symbols, line_endings=le_arg,
        x_axis=labels[0], y_axis=labels[1], z_axis=labels[2],
    )
    r = Rec()
    g.add_writer(r)
    return g, r


# line_endings argument -> the ending it configures
import os as _os

LINE_ENDINGS = {"\\n": "\n", "\\r\\n": "\r\n", "\n": "\n", "\r\n": "\r\n", "\\r": "\r", "os": _os.linesep}


def cfg_fields(dp, symbols, eol, labels) -> str:
    return f"dp={dp} sym={enc(symbols)} eol={enc(eol)} lx={enc(labels[0])} ly={enc(labels[1])} lz={enc(labels[2])}"


# ------------------------------------------------------------------ statements (the Lean `Stmt`)


def pval(v) -> str:
    """one parameter value in protocol form"""
    import numpy as np

    if v is None:
        return "N"
    if isinstance(v, str):
        return "s" + enc(v)
    if isinstance(v, (float, np.floating)):
        f = float(v)
        if math.isnan(f):
            return "nan"
        if math.isinf(f):
            return "inf" if f > 0 else "-inf"
    return "q" + rat(exact(v))


def params_field(params) -> str:
    if params is None:
        return "-"
    if not params:
        return "~"
    return ",".join(f"{enc(k)}:{pval(v)}" for k, v in params)


def stmt_line(cfg: str, st: dict) -> str:
    k = st["kind"]
    f = [f"stmt {cfg} kind={k}"]
    if "code" in st:
        f.append(f"code={enc(st['code'])}")
    if k in ("cmd", "table", "pre", "bare"):
        f.append(f"params={params_field(st.get('params'))}")
    if k in ("cmd", "table", "text"):
        f.append(f"c={enc(st.get('c'))}")
    if k in ("table", "pre", "tool"):
        f.append(f"desc={enc(st['desc'])}")
    if k == "tool":
        f.append(f"n={st['n']}")
    return " ".join(f)


def table(enum_value):
    """(instruction, description) of the codes table for an enum member (data of the repository)"""
    from gscrib.codes import gcode_table

    e = gcode_table.get_entry(enum_value)
    return e.instruction, e.description


def move_params(kwargs: dict):
    """the dict `format.command` receives for a move-like call: keyword order, upper-cased, then X Y Z;
    axes not mentioned are None"""
    d = {}
    for k, v in kwargs.items():
        if k == "comment":
            continue
        d[k.upper()] = v
    for a in "XYZ":
        d.setdefault(a, None)
    return list(d.items())


def expected_words(stmts, labels):
    """What the statements must lex to: [(label, literal text | scalar)] per statement, in the order
    documented for `parameters` (axes X, Y, Z first under their labels, then the rest)."""
    lab = {a: l.strip().upper() for a, l in zip("XYZ", labels)}
    out = []
    for st in stmts:
        ws = []

        def plist(ps):
            res = []
            up = {}
            for k, v in ps or []:
                up[k.upper()] = v
            for a in "XYZ":
                if a in up and _is_number(up[a]):
                    res.append((lab[a], up[a]))
            for k, v in up.items():
                if k not in "XYZ" or len(k) != 1:
                    res.append((k, v))
            return res

        def code(c):
            i = 0
            while i < len(c) and not (c[i].isdigit() or c[i] in "-."):
                i += 1
            return (c[:i], ("lit", c[i:]))

        k = st["kind"]
        if k in ("cmd", "table"):
            ws.append(code(st["code"]))
            ws += plist(st.get("params"))
        elif k == "pre":
            ws += plist(st["params"])
            ws.append(code(st["code"]))
        elif k == "tool":
            n = st["n"]
            digits = len(str(n))
            width = 1
            while width < digits:
                width *= 2
            ws.append(("T", ("lit", str(n).rjust(width, "0"))))
            ws.append(code(st["code"]))
        elif k == "bare":
            ws += plist(st["params"])
        out.append(ws)
    return out


def _is_number(v) -> bool:
    from numbers import Number

    return isinstance(v, Number)

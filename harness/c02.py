"""C02 - interlocks: no unsafe tool/coolant/halt sequence is ever emitted.

Model: lean/GscribModel/Model/Builder.lean + Machine.lean (Flags); theorems: Props/C02.lean.
Oracle: an independent 2-flag interpreter over the *bytes the real builder wrote*."""
from __future__ import annotations

import itertools
from fractions import Fraction

from . import builder_common as bc
from . import core
from .builder_impl import parse_record

PROP = "C02"
KEYS = ["out", "stmts", "tool", "coola", "spin", "pmode", "cool", "power", "tnum", "swap"]
W = dict(move=10, moveabs=2, dist=2, feed=2, power=2, toolon=10, tooloff=6, poweron=8, poweroff=5, coolon=8, cooloff=5,
         toolchange=6, halt=10, ehalt=2, temp=3, misc=3, bounds=3)
HALT = {"M00", "M01", "M02", "M30", "M60", "M109", "M190", "M191", "M400"}
ALPHABET = ["toolon clockwise 100", "toolon counter 5", "tooloff", "poweron constant 10", "poweron dynamic 7", "poweroff",
            "coolon mist", "coolon flood", "cooloff", "toolchange manual 1", "halt pause", "halt wait-for-bed S:60",
            "halt wait-for-motion", "halt end-with-reset", "ehalt 0", "move x=1 S:5"]


def codes_of(stmts: str):
    if stmts == "-":
        return []
    return [[t for t in s.split(",") if t[0] in "GM" and ":" not in t] for s in stmts.split(";")]


def finite_ok(val: str, lo_hi=None):
    try:
        q = Fraction(val)
    except ValueError:
        return False
    if q < 0:
        return False
    return lo_hi is None or lo_hi[0] <= q <= lo_hi[1]


def oracle(lines, recs, im):
    """2-flag interpreter on emitted codes + 'rejected only for a documented reason' for the interlock API."""
    tool = cool = False
    bounds = {}
    out = []
    for i, (ln, rec) in enumerate(zip(lines, recs)):
        r = parse_record(rec)
        ws = ln.split()
        for cs in codes_of(r["stmts"]):
            s = set(cs)
            if s & {"M03", "M04"} and tool:
                out.append((i, f"tool start {cs} emitted while the tool is running", "unsafe-emit"))
            if s & {"M07", "M08"} and cool:
                out.append((i, f"coolant start {cs} emitted while coolant is on", "unsafe-emit"))
            if (("M06" in s) or (s & HALT)) and (tool or cool):
                out.append((i, f"{cs} emitted while tool={tool} coolant={cool}", "unsafe-emit"))
            if s & {"M03", "M04"}:
                tool = True
            if "M05" in s:
                tool = False
            if s & {"M07", "M08"}:
                cool = True
            if "M09" in s:
                cool = False
        if (r["tool"] == "1") != tool or (r["coola"] == "1") != cool:
            out.append((i, f"reported flags tool={r['tool']} coolant={r['coola']} differ from emitted codes ({tool},{cool})", "flags"))
        o = r["out"]
        if o == "ToolStateError" and not tool:
            out.append((i, "ToolStateError raised while no tool is running", "undocumented-reject"))
        if o == "CoolantStateError" and not cool:
            out.append((i, "CoolantStateError raised while coolant is off", "undocumented-reject"))
        # documented acceptance for the interlock API (argument rules evaluated by the oracle itself)
        op = ws[0]
        if op == "bounds" and o == "ok":
            bounds[ws[1]] = (Fraction(ws[2]), Fraction(ws[3]))
        exp = None
        if op in ("tooloff", "poweroff", "cooloff", "ehalt"):
            exp = "ok"
        elif op in ("toolon", "poweron"):
            valid = ws[1] in ("clockwise", "counter", "constant", "dynamic")
            if not valid:
                exp = "ValueError"
            elif tool_before(recs, i):
                exp = "ToolStateError"
            elif finite_ok(ws[2], bounds.get("tool-power")):
                exp = "ok"
            else:
                exp = "ValueError"
        elif op == "coolon":
            exp = "ValueError" if ws[1] not in ("mist", "flood") else ("CoolantStateError" if cool_before(recs, i) else "ok")
        elif op == "toolchange":
            n = int(ws[2])
            b = bounds.get("tool-number")
            if ws[1] not in ("automatic", "manual") or (b and not b[0] <= n <= b[1]) or n < 1:
                exp = "ValueError"
            elif tool_before(recs, i):
                exp = "ToolStateError"
            elif cool_before(recs, i):
                exp = "CoolantStateError"
            else:
                exp = "ok"
        if exp is not None and o != exp:
            out.append((i, f"`{ln}` gave {o}, the documented outcome is {exp}", "undocumented-reject" if o != "ok" else "unsafe-accept"))
    return out


def tool_before(recs, i):
    return i > 0 and parse_record(recs[i - 1])["tool"] == "1"


def cool_before(recs, i):
    return i > 0 and parse_record(recs[i - 1])["coola"] == "1"


def histories(R, n):
    hs = []
    for _ in range(n):
        g = bc.Gen(R.rng, W, malformed=0.1)
        hs.append(g.history(R.rng.randint(5, 40)))
    return hs


def fault_cases(R, n):
    """oracle-only: two writers, the second one fails once - on the k-th statement - after the first has already received the
    line; the caller catches the device error, drops the broken writer and carries on.  The interlocks must still be
    judged on what was actually emitted (writer 1)."""
    from gscrib import GCodeBuilder
    from gscrib.excepts import DeviceError
    from gscrib.writers import BaseWriter
    from .builder_impl import canon_stmt

    calls = [("tool_on", lambda g: g.tool_on("clockwise", 1000)), ("power_on", lambda g: g.power_on("constant", 50)),
             ("coolant_on", lambda g: g.coolant_on("flood")), ("coolant_mist", lambda g: g.coolant_on("mist")),
             ("tool_off", lambda g: g.tool_off()), ("coolant_off", lambda g: g.coolant_off()), ("pause", lambda g: g.pause()),
             ("tool_change", lambda g: g.tool_change("manual", 2)), ("stop", lambda g: g.stop()), ("wait", lambda g: g.wait()),
             ("move", lambda g: g.move(x=1))]
    for _ in range(n):
        r = R.rng
        k = r.randint(1, 4)

        class Rec(BaseWriter):
            def __init__(self, flaky):
                self.lines, self.flaky, self.count = [], flaky, 0
            def connect(self):
                return self
            def disconnect(self, wait=True):
                pass
            def flush(self):
                pass
            def write(self, b):
                if self.flaky:
                    self.count += 1
                    if self.count == k:
                        raise DeviceError("link glitch injected by the harness")
                self.lines.append(bytes(b).decode("utf-8"))

        g = GCodeBuilder(output=None, print_lines=False, line_endings="\n")
        w1, w2 = Rec(False), Rec(True)
        g.add_writer(w1)
        g.add_writer(w2)
        seq = [r.choice(calls) for _ in range(r.randint(3, 9))]
        flags = {"tool": False, "cool": False}
        names = []
        R.evaluations += 1
        R.count("fault-injection")
        for name, fn in seq:
            names.append(name)
            n0 = len(w1.lines)
            try:
                fn(g)
            except DeviceError:
                g.remove_writer(w2)
            except Exception:  # noqa  (interlock and validation errors are the API's business)
                pass
            for ln in w1.lines[n0:]:
                codes = canon_stmt(ln.rstrip("\n")).split(",")
                starts_tool, starts_cool = bool({"M03", "M04"} & set(codes)), bool({"M07", "M08"} & set(codes))
                idle = bool({"M06", "M00", "M01", "M02", "M30", "M60", "M109", "M190", "M191", "M400"} & set(codes))
                if (starts_tool and flags["tool"]) or (starts_cool and flags["cool"]) or (idle and (flags["tool"] or flags["cool"])):
                    R.fail({"calls": names, "fault_at_statement": k}, f"`{ln.strip()}` emitted with tool={flags['tool']} coolant={flags['cool']} "
                           "(a writer had failed earlier on a line the other writer received)", tag="unsafe")
                if starts_tool:
                    flags["tool"] = True
                if "M05" in codes:
                    flags["tool"] = False
                if starts_cool:
                    flags["cool"] = True
                if "M09" in codes:
                    flags["cool"] = False


def hook_cases(R, n):
    """oracle-only: move hooks that switch devices through the API themselves, veto the move, or return parameters the move is
    refused for (builder_common.hook_sessions); the emitted program as a whole must stay safe for the controller"""
    for case, events, _specs in bc.hook_sessions(R.rng, n):
        R.evaluations += 1
        R.count("hook-sessions", "hook-sessions:nested-calls=%d" % min(3, sum(len(e["nested"]) for e in events)))
        bad = bc.unsafe_lines([ln for e in events for ln in e["lines"]])
        if bad:
            R.fail(case, f"`{bad[0]}` emitted with tool={bad[1]} coolant={bad[2]} (hooks that call the API / veto the move)", tag="unsafe")


def styled_cases(R, n):
    """oracle-only: every comment style the formatter supports; comments passed through the tracked API mention stop / start codes.
    Comment text is not code: the interlocks must be judged on what is executable."""
    from . import fmt_common as fc
    from .builder_impl import canon_stmt

    texts = ["finishing pass, M5 and M9 follow", "M05 M09", "stop (M5) coolant (M9)", "m5 m9", "after M09", "M3 S100", "M8", "spindle M05 done; M09"]
    for _ in range(n):
        r = R.rng
        symbols = r.choice(fc.ALL_SYMBOLS)
        opening, closing = fc.style_of(symbols)
        g, w = fc.make_builder(5, symbols, "\n")
        calls = []
        R.evaluations += 1
        R.count("styled:" + ("pair" if closing else "eol"))
        ops = [("tool_on", lambda: g.tool_on("clockwise", 1000)), ("coolant_on", lambda: g.coolant_on("flood")),
               ("comment", lambda: g.comment(r.choice(texts))), ("move+comment", lambda: g.move(x=r.randint(0, 40), comment=r.choice(texts))),
               ("rapid+comment", lambda: g.rapid(z=r.randint(0, 9), comment=r.choice(texts))),
               ("pause", lambda: g.pause()), ("wait", lambda: g.wait()), ("stop", lambda: g.stop()), ("tool_change", lambda: g.tool_change("manual", 3)),
               ("tool_on again", lambda: g.tool_on("counter", 500)), ("coolant_on again", lambda: g.coolant_on("mist")),
               ("tool_off", lambda: g.tool_off()), ("coolant_off", lambda: g.coolant_off())]
        seq = [ops[0], ops[1]] if r.random() < 0.7 else []
        seq += [r.choice(ops) for _ in range(r.randint(3, 9))]
        for name, fn in seq:
            try:
                fn()
                calls.append(name)
            except Exception as e:  # noqa
                calls.append(f"{name} -> {type(e).__name__}")
        out = b"".join(w.raw).decode("utf-8")
        exe = [",".join(canon_stmt(" ".join(ws)).split(",")) for ws in fc.strip_comments(out, opening, closing)]
        bad = bc.unsafe_lines(exe)
        if bad:
            R.fail({"comment_symbols": symbols, "calls": calls}, f"`{bad[0]}` is executable with tool={bad[1]} coolant={bad[2]} "
                   f"(comment style {symbols!r}; raw output {out!r})", tag="unsafe")


def run(R: core.Run):
    R.rule = ("random call histories (5-40 calls) over the interlock API interleaved with moves, modes, temperatures and "
              "bounds, ~10% malformed arguments; non-trivial = at least two emitting calls; distinct by hash of the history")
    R.assumptions = ["exact arithmetic on the dyadic grid (multiples of 1/32)", "typeguard type errors are outside the model"]
    corpus = [["bounds tool-power 100 1000", "toolon clockwise 500", "tooloff", "poweron constant 200", "poweroff", "ehalt 0"],
              ["toolon clockwise 100", "coolon mist", "halt pause", "toolchange manual 1", "tooloff", "halt pause", "cooloff", "halt pause"]]
    bc.correspond(R, corpus, KEYS, True, "corpus", oracle)
    bc.correspond(R, histories(R, R.n(1500, 20000)), KEYS, True, "random", oracle)
    if R.thorough:
        ex = [list(t) for k in range(1, 5) for t in itertools.product(ALPHABET, repeat=k)]
        bc.correspond(R, ex, KEYS, True, "exhaustive<=4", oracle)
        R.extra["exhaustive_subrun"] = {"cases": len(ex), "scope": f"all sequences of length <= 4 over {len(ALPHABET)} interlock calls", "exhaustive": True}
    fault_cases(R, R.n(300, 3000))
    hook_cases(R, R.n(200, 2500))
    styled_cases(R, R.n(200, 2500))
    if R.broken:
        R.search_batches += 1
        for h in histories(R, R.n(1500, 5000)):
            lines, recs, im = bc.run_impl(h)
            R.evaluations += 1
            for step, msg, tag in oracle(lines, recs, im):
                R.fail({"history": lines[: step + 1]}, msg, tag=tag, step=step)
    return {}, {}


def replay(data):
    return bc.replay(data, KEYS, oracle)

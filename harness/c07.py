"""C07 - the reported machine state mirrors the emitted program.

Model: Model/Builder.lean + Machine.lean (ModalSt); theorems: Props/C07.lean.  Oracle: a Python modal interpreter
reads the bytes the real builder wrote and is compared with every public property of `g.state` and
`get_parameter` after every call."""
from __future__ import annotations

from fractions import Fraction

from . import builder_common as bc
from . import core
from .builder_impl import parse_record, show

PROP = "C07"
KEYS = [k for k in bc.ALL_KEYS if k not in ("nhook", "lasthook")]
W = dict(move=22, moveabs=6, setaxis=5, home=3, probe=5, dist=5, enter=2, exit=2, feed=5, power=5, toolon=6, tooloff=4,
         poweron=6, poweroff=4, coolon=5, cooloff=4, toolchange=4, halt=8, ehalt=1, temp=6, misc=10, bounds=2, hook=3)
MOTION = {"G0", "G1", "G38.2", "G38.3", "G38.4", "G38.5"}
SPIN = {"clockwise": "M03", "counter": "M04"}
PMODE = {"constant": "M03", "dynamic": "M04"}
COOL = {"mist": "M07", "flood": "M08"}


def oracle(lines, recs, im):
    out = []
    m = dict(tool=False, start=None, S=Fraction(0), cool=None, T=Fraction(0), F=Fraction(0), rel=False, erel=False, fmode=1,
             inches=False, plane=0, bed=None, hot=None, ch=None, params={})
    for i, (ln, rec) in enumerate(zip(lines, recs)):
        r = parse_record(rec)
        for s in ([] if r["stmts"] == "-" else r["stmts"].split(";")):
            toks = [] if s == "_" else s.split(",")
            codes = [t for t in toks if ":" not in t]
            words = [(t.split(":")[0], Fraction(t.split(":")[1])) for t in toks if ":" in t]
            wd = dict(words)
            c = codes[0] if len(codes) == 1 else None
            if not codes or c in MOTION or c in ("M03", "M04"):
                if "F" in wd and c not in ("M03", "M04"):
                    m["F"] = wd["F"]
                if "S" in wd:
                    m["S"] = wd["S"]
            if c in MOTION or c in ("G92", "G28"):
                for k, v in words:
                    if k not in "XYZ":
                        m["params"][k] = v
            if c in ("M03", "M04"):
                m["tool"], m["start"] = True, c
            elif c == "M05":
                m["tool"] = False
            elif c in ("M07", "M08"):
                m["cool"] = c
            elif c == "M09":
                m["cool"] = None
            elif c == "M06" and "T" in wd:
                m["T"] = wd["T"]
            elif c in ("G90", "G91"):
                m["rel"] = c == "G91"
            elif c in ("M82", "M83"):
                m["erel"] = c == "M83"
            elif c in ("G93", "G94", "G95"):
                m["fmode"] = ["G93", "G94", "G95"].index(c)
            elif c in ("G20", "G21"):
                m["inches"] = c == "G20"
            elif c in ("G17", "G19", "G18"):
                m["plane"] = ["G17", "G19", "G18"].index(c)
            elif c in ("M140", "M190", "M104", "M109", "M141", "M191"):
                t = wd.get("S", wd.get("R"))
                if t is not None:
                    m[{"M140": "bed", "M190": "bed", "M104": "hot", "M109": "hot", "M141": "ch", "M191": "ch"}[c]] = t

        def bad(what, got, exp):
            out.append((i, f"after `{ln}`: state reports {what}={got}, the emitted program implies {exp}", what))

        if (r["tool"] == "1") != m["tool"]:
            bad("tool", r["tool"], m["tool"])
        if m["tool"]:
            if m["start"] not in (SPIN.get(r["spin"]), PMODE.get(r["pmode"])):
                bad("start-code", (r["spin"], r["pmode"]), m["start"])
            if Fraction(r["power"]) != m["S"]:
                bad("power", r["power"], show(m["S"]))
        if (r["coola"] == "1") != (m["cool"] is not None) or (m["cool"] and COOL.get(r["cool"]) != m["cool"]):
            bad("coolant", (r["coola"], r["cool"]), m["cool"])
        for key, exp in (("tnum", m["T"]), ("feed", m["F"])):
            if Fraction(r[key]) != exp:
                bad(key, r[key], show(exp))
        for key, exp in (("rel", m["rel"]), ("srel", m["rel"]), ("erel", m["erel"]), ("inches", m["inches"])):
            if (r[key] == "1") != exp:
                bad(key, r[key], exp)
        for key, exp in (("fmode", m["fmode"]), ("plane", m["plane"])):
            if int(r[key]) != exp:
                bad(key, r[key], exp)
        for key in ("bed", "hot", "ch"):
            got = None if r[key] == "~" else Fraction(r[key])
            if got != m[key]:
                bad(key, r[key], m[key])
        got = {} if r["params"] == "-" else {e.split(":")[0]: e.split(":")[1] for e in r["params"].split(",")}
        for k in set(got) | set(m["params"]):
            if k in "XYZ":
                continue
            if "MISMATCH" in got.get(k, "") or (Fraction(got[k]) if k in got else None) != m["params"].get(k):
                bad("param-" + k, got.get(k), m["params"].get(k))
    return out


def histories(R, n, offgrid=False):
    hs = []
    for _ in range(n):
        g = bc.Gen(R.rng, W, malformed=0.08, offgrid=offgrid)
        hs.append(g.history(R.rng.randint(5, 40)))
    return hs


def run(R: core.Run):
    R.rule = ("random call histories (5-40 calls) over the full builder API, numeric arguments from the dyadic grid plus a stream "
              "of random doubles; every public property of g.state and get_parameter compared after every call; non-trivial = at "
              "least two emitting calls; distinct by hash")
    R.assumptions = ["F and S are modal on motion, probe, tool-start and bare-word statements (not on G92/G28)",
                     "state.resolution is compared within 1e-9 (the unit switch recomputes it in floats)"]
    corpus = [["toolon clockwise 1000", "poweroff", "poweron dynamic 40", "move x=1 F:300 S:50 E:2", "tooloff", "halt wait-for-bed R:60",
               "dist rel", "rapidabs y=2 F:900", "setaxis E:0", "toolchange manual 7", "coolon flood", "units in", "units mm"],
              ["halt wait-for-hotend S:200 R:210", "hotend 100", "probe towards z=-1 F:50", "setaxis x=0 F:77", "home F:5"]]
    bc.correspond(R, corpus, KEYS, True, "corpus", oracle)
    bc.correspond(R, histories(R, R.n(1200, 20000)), KEYS, True, "grid", oracle)
    bc.correspond(R, histories(R, R.n(300, 5000), offgrid=True), KEYS, False, "offgrid")
    # the same API with the parameter names in lower case and / or the numbers as numpy scalars (names are case-insensitive by contract)
    spelled = [["cfg " + R.rng.choice(["lower=1", "lower=1", "np=1", "lower=1 np=1"])] + h for h in histories(R, R.n(300, 5000))]
    spelled.append(["cfg lower=1", "hotend 180", "halt wait-for-hotend S:210", "halt wait-for-chamber R:45", "bed 50", "halt wait-for-bed R:60 S:65"])
    bc.correspond(R, spelled, KEYS, True, "lower-case-names/numpy-scalars", oracle)
    if R.broken:
        R.search_batches += 1
        for h in histories(R, R.n(1500, 5000)):
            lines, recs, im = bc.run_impl(h)
            R.evaluations += 1
            for step, msg, tag in oracle(lines, recs, im):
                R.fail({"history": lines[: step + 1]}, msg, tag=tag, step=step)
    return {}, {}


def replay(data):
    return bc.replay(data, KEYS, oracle)

"""Simulated serial link for the checks on the bundled Printrun sender (C15; reusable for C16).

Three independent pieces, all trusted harness code (DESIGN.md section 6-4):

* `FirmwareTwin`  - pure Marlin-style line-number/checksum firmware: `rx(line) -> [reply lines]`.
* `StepSerial`    - a fake `serial.Serial`.  Everything the code under test writes is logged line by
                    line; `readline()` blocks on a queue the harness feeds, and `feed(line)` returns
                    only after the reader thread has *processed* the line (it is back in `readline()`),
                    so replies can be released one at a time without settle timers.  Like pyserial it
                    honours a read time-out: nothing arriving within `poll` seconds makes `readline()`
                    return b"" (counted in `timeouts`); `wait_timeouts(k)` lets the reader run into k
                    consecutive time-outs - a device that takes long to answer.
* `SleepGate`     - replaces `time.sleep` inside `gscrib.printrun.printcore` for the named threads:
                    the 1 ms poll `while ... not self.clear: time.sleep(0.001)` parks on the gate and
                    re-checks `clear` only when the harness calls `wake()`.  This realises the model's
                    schedules at the granularity of the two atomic sender steps with the real threads.
                    `free=True` turns the gate into the real `time.sleep` (timed, free-running mode).

`PrintcoreSession` wires them to a real `printcore` (no source hooks: `serial.Serial`,
`Device._disable_ttyhup` and the module attribute `printcore.time` are replaced for the duration).
"""
from __future__ import annotations

import logging
import queue
import re
import threading
import time as _time
from contextlib import contextmanager
from functools import reduce
from unittest import mock


class StepTimeout(Exception):
    """A thread of the code under test did not reach the expected blocking point in time."""


def xor_bytes(s: str) -> int:
    return reduce(lambda a, b: a ^ b, s.encode("latin-1"), 0)


# --------------------------------------------------------------------------- firmware
FRAME_RE = re.compile(r"^N(-?\d+) (.*)\*(\d+)$", re.S)
M110_RE = re.compile(r"M110 N(-?\d+)")


class FirmwareTwin:
    """Marlin-style receiver: expects line `expected`, verifies `*checksum`, `M110 N<n>` sets
    `expected = n+1` and is exempt from the sequence check; on any error answers
    `Error:...`, `Resend: <expected>`, `ok`.  Transmission indices in `corrupt` arrive damaged
    (detected as a checksum mismatch).  Index 0 is the first line received by this object."""

    def __init__(self, e0: int = 0, corrupt=()):
        self.expected = e0
        self.corrupt = set(corrupt)
        self.idx = 0
        self.accepted: list[tuple[int, str]] = []
        self.raw: list[str] = []
        self.rxlog: list[str] = []

    def _error(self, what: str) -> list[str]:
        return [f"Error:{what}, Last Line: {self.expected - 1}", f"Resend: {self.expected}", "ok"]

    def rx(self, line: str) -> list[str]:
        i = self.idx
        self.idx += 1
        self.rxlog.append(line)
        m = FRAME_RE.match(line)
        if not m:
            self.raw.append(line)  # unnumbered command: executed and acknowledged
            return ["ok"]
        n, cmd, cs = int(m.group(1)), m.group(2), int(m.group(3))
        pre = line[: line.rindex("*")]
        if i in self.corrupt or xor_bytes(pre) != cs:
            return self._error("checksum mismatch")
        r = M110_RE.fullmatch(cmd)
        if r:
            self.expected = int(r.group(1)) + 1
            return ["ok"]
        if n != self.expected:
            return self._error("Line Number is not Last Line Number+1")
        self.expected += 1
        self.accepted.append((n, cmd))
        return ["ok"]


def reply_token(line: str) -> str:
    """canonical form of a firmware reply: o | e | r<n>"""
    if line.startswith("ok"):
        return "o"
    if line.startswith("Resend:"):
        return "r" + line.split(":")[1].strip()
    if line.startswith("Error"):
        return "e"
    return "?" + line


# --------------------------------------------------------------------------- serial port
class StepSerial:
    """Fake `serial.Serial`; the most recent instance is `StepSerial.last`."""

    last: "StepSerial | None" = None
    poll = 0.05  # readline() time-out: how long the reader thread takes to notice `stop_read_thread`

    def __init__(self, *a, **k):
        self.is_open = False
        self.port = k.get("port")
        self.baudrate = k.get("baudrate")
        self.timeout = k.get("timeout")
        self.parity = k.get("parity")
        self.dtr = None
        self.rxq: queue.Queue = queue.Queue()
        self.tx: list[str] = []
        self.writes: list[bytes] = []  # the exact byte strings passed to write()
        self.cv = threading.Condition()
        self.entered = 0  # readline() calls started
        self.delivered = 0  # lines handed to the reader
        self.entered_at_delivery = 0
        self.timeouts = 0  # readline() calls that returned b"" because nothing arrived within `poll`
        self.entered_at_timeout = 0
        self.reader = None  # ident of the thread that called readline() last
        self.on_write = None  # callable(line) run in the writer's thread (timed mode: the firmware)
        self.events: list[tuple] = []  # ("w", line) / ("r", line), in real order
        StepSerial.last = self

    # pyserial surface used by gscrib.printrun.device
    def open(self):
        self.is_open = True

    def close(self):
        self.is_open = False
        self.rxq.put(None)

    def write(self, data: bytes):
        self.writes.append(bytes(data))
        for ln in data.decode("latin-1").split("\n"):
            if ln:
                with self.cv:
                    self.tx.append(ln)
                    self.events.append(("w", ln))
                    self.cv.notify_all()
                if self.on_write:
                    self.on_write(ln)
        return len(data)

    def readline(self) -> bytes:
        with self.cv:
            self.entered += 1
            self.reader = threading.get_ident()
            self.cv.notify_all()
        try:
            item = self.rxq.get(timeout=self.poll)
        except queue.Empty:
            with self.cv:
                self.timeouts += 1
                self.entered_at_timeout = self.entered
                self.cv.notify_all()
            return b""
        if item is None:
            return b""
        with self.cv:
            self.delivered += 1
            self.entered_at_delivery = self.entered
            self.events.append(("r", item.decode("latin-1").rstrip("\n")))
            self.cv.notify_all()
        return item

    # harness side
    def push(self, line: str):
        """queue a reply without waiting (timed mode)"""
        self.rxq.put((line + "\n").encode("latin-1"))

    def feed(self, line: str, timeout: float = 5.0):
        """hand one reply line to the reader thread and wait until it has been processed"""
        with self.cv:
            target = self.delivered + 1
        self.push(line)
        with self.cv:
            if not self.cv.wait_for(
                lambda: self.delivered >= target and self.entered > self.entered_at_delivery, timeout
            ):
                raise StepTimeout(f"reader thread did not process {line!r} within {timeout}s")

    def wait_timeouts(self, k: int, timeout: float | None = None):
        """nothing arrives for k read time-outs: returns when the reader thread has run into k further
        (hence consecutive) time-outs and has come back to readline() after the last of them"""
        timeout = timeout if timeout is not None else 5.0 + 3 * k * self.poll
        with self.cv:
            target = self.timeouts + k
            if not self.cv.wait_for(
                lambda: self.timeouts >= target and self.entered > self.entered_at_timeout, timeout
            ):
                raise StepTimeout(f"reader thread did not run into {k} read time-outs within {timeout}s")

    def wait_writes(self, n: int, timeout: float = 5.0):
        with self.cv:
            if not self.cv.wait_for(lambda: len(self.tx) >= n, timeout):
                raise StepTimeout(f"expected {n} lines written, got {len(self.tx)}")


# --------------------------------------------------------------------------- sleep gate
class SleepGate:
    def __init__(self, thread_names=("print thread",)):
        self.names = set(thread_names)
        self.cv = threading.Condition()
        self.parked = 0
        self.released = 0
        self.free = True

    def arm(self):
        with self.cv:
            self.free = False

    def release_all(self):
        with self.cv:
            self.free = True
            self.cv.notify_all()

    def sleep(self, dt):
        if self.free or threading.current_thread().name not in self.names:
            return _time.sleep(dt)
        with self.cv:
            self.parked += 1
            me = self.parked
            self.cv.notify_all()
            while self.released < me and not self.free:
                self.cv.wait(0.25)

    def _wait(self, alive, timeout):
        """until the gated thread is parked (True) or gone (False)"""
        end = _time.monotonic() + timeout
        while True:
            if self.parked > self.released:
                return True
            if not alive():
                # the thread may have parked just before `alive` turned false: re-check once
                return self.parked > self.released
            if _time.monotonic() > end:
                raise StepTimeout("gated thread neither blocked in its poll nor finished")
            self.cv.wait(0.001)

    def settle(self, alive, timeout: float = 5.0) -> bool:
        with self.cv:
            return self._wait(alive, timeout)

    def wake(self, alive, timeout: float = 5.0) -> bool:
        """let the parked thread re-check its condition once and run until it parks again or ends.
        Returns False when there was no thread to wake."""
        with self.cv:
            if not self._wait(alive, timeout):
                return False
            self.released = self.parked
            self.cv.notify_all()
            self._wait(alive, timeout)
            return True


class _TimeShim:
    """stands in for the `time` module inside printcore: only `sleep` is redirected"""

    def __init__(self, gate: SleepGate):
        self._gate = gate
        self.sleep = gate.sleep

    def __getattr__(self, name):
        return getattr(_time, name)


# --------------------------------------------------------------------------- connection options
DEFAULT_CONN = dict(port="/dev/fake", baud=115200, dtr=None, how="connect")
CONN_HOWS = ("connect", "ctor", "split", "reconnect")


def open_connection(pc_mod, conn=None, cls=None):
    """Build a printcore (or `cls`) and connect it to a serial port the way `conn` says - everything
    `printcore.connect(port, baud, dtr)` / `printcore(port, baud, dtr)` accept:

      port, baud   any serial port name and rate
      dtr          None (argument not given) / False / True
      how          connect    printcore(); connect(port, baud[, dtr])
                   ctor       printcore(port, baud[, dtr])            (the constructor connects)
                   split      printcore(); connect(port); connect(baud=baud[, dtr])
                   reconnect  connect(port, baud[, first_dtr]); disconnect(); connect([dtr])
    """
    c = dict(DEFAULT_CONN, **(conn or {}))
    cls = cls or pc_mod.printcore
    port, baud, dtr, how = c["port"], c["baud"], c["dtr"], c["how"]
    kw = {} if dtr is None else {"dtr": dtr}
    if how == "connect":
        core = cls()
        core.connect(port, baud, **kw)
    elif how == "ctor":
        core = cls(port, baud, **kw)
    elif how == "split":
        core = cls()
        core.connect(port)
        core.connect(baud=baud, **kw)
    elif how == "reconnect":
        core = cls()
        first = c.get("first_dtr")
        core.connect(port, baud, **({} if first is None else {"dtr": first}))
        core.disconnect()
        core.connect(**kw)
    else:
        raise ValueError(f"unknown way to connect: {how!r}")
    return core


# --------------------------------------------------------------------------- session
class PrintcoreSession:
    def __init__(self, core, ser: StepSerial, gate: SleepGate):
        self.core, self.ser, self.gate = core, ser, gate

    def print_alive(self) -> bool:
        t = self.core.print_thread
        return t is not None and t.is_alive()


@contextmanager
def printcore_session(gate_threads=("print thread",), factory=None, handshake_reply="ok", conn=None,
                      read_timeout=None):
    """A connected, online `printcore` (or whatever `factory(printcore_module)` builds and connects)
    on a `StepSerial`.  The gate is created un-armed; call `ses.gate.arm()` to start stepping.
    `conn`: connection options, see `open_connection`.  `read_timeout`: the fake port's read time-out
    in seconds for this session (the scaled-down image of the 0.25 s `Device` asks pyserial for)."""
    import importlib

    pc_mod = importlib.import_module("gscrib.printrun.printcore")  # the module, not the re-exported class

    logging.getLogger(pc_mod.__name__).disabled = True
    gate = SleepGate(gate_threads)
    core = None
    old_poll = StepSerial.poll
    if read_timeout is not None:
        StepSerial.poll = read_timeout
    with mock.patch("serial.Serial", StepSerial), mock.patch(
        "gscrib.printrun.device.Device._disable_ttyhup", lambda self: None
    ), mock.patch.object(pc_mod, "time", _TimeShim(gate)):
        try:
            if factory:
                core = factory(pc_mod)
            else:
                core = open_connection(pc_mod, conn)
            ser = StepSerial.last
            if ser is None or core.printer is None:
                raise StepTimeout("the code under test did not open the serial port")
            ser.wait_writes(1)
            ser.feed(handshake_reply)
            end = _time.monotonic() + 5
            while not core.online:
                if _time.monotonic() > end:
                    raise StepTimeout("printcore did not come online")
                _time.sleep(0.001)
            yield PrintcoreSession(core, ser, gate)
        finally:
            gate.release_all()
            if core is not None:
                try:
                    core.disconnect()
                except Exception:
                    pass
            StepSerial.last = None
            StepSerial.poll = old_poll

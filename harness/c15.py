"""C15 - streamed print jobs arrive complete, in order and checksummed (bundled Printrun sender).

Model: lean/GscribModel/Model/Sender.lean (driver mode `sender`); theorems: Props/C15.lean.
Implementation: the real, threaded `gscrib.printrun.printcore.printcore` streaming a job through
`startprint` over a fake `serial.Serial` (harness/sim_serial.py).  The harness owns the schedule:

  F  the firmware twin consumes the oldest line written to the port and queues its replies,
  L  one reply line is released to the read thread and the harness waits until `_listen` has
     processed it,
  S  the print thread, parked in the 1 ms poll of `_sendnext`, is woken once and runs until it
     blocks again or the job ends.

The recorded (job, fault set, e0, schedule) is replayed on the Lean model; compared: the exact
sequence of lines written to the port, the firmware's accepted log and reply stream, the sender's
final state and the SplitTriple monitor.  A free-running sub-run (real `time.sleep`, a firmware
thread with wall-clock latencies) is judged by the oracle only.
"""
from __future__ import annotations

import itertools
import logging
import multiprocessing as mp
import os
import random
import threading
import time

from . import core
from . import sim_serial as sim

PROP = "C15"
BUDGET = 900  # schedule actions per case
RESET = "M110 N-1"


# ------------------------------------------------------------------ what "the job's non-comment lines" means
def strip_comments(s: str) -> str:
    """independent scanner: `;` to end of line, `( ... )` groups without nested parentheses"""
    out, i, n = [], 0, len(s)
    while i < n:
        c = s[i]
        if c == ";":
            break
        if c == "(":
            j = i + 1
            while j < n and s[j] not in "()":
                j += 1
            if j < n and s[j] == ")":
                i = j + 1
                continue
        out.append(c)
        i += 1
    return "".join(out)


def job_commands(job: list[str]) -> list[str]:
    want = []
    for raw in job:
        s = raw.strip()
        if not s or s.startswith(";@"):
            continue
        t = strip_comments(s).strip()
        if t:
            want.append(t)
    return want


# ------------------------------------------------------------------ implementation adapter (step mode)
ORDERS = {"eager": "SLF", "burst": "LSF", "fwfirst": "FLS", "lagfw": "LFS"}


def choose(policy: str, acts: list[str], rnd: random.Random) -> str:
    if policy == "random":
        return rnd.choice(acts)
    if policy == "mixed":
        order = rnd.choice(["SLF", "LSF", "FLS", "LFS", "SFL", "FSL"])
    elif policy == "bursty":  # mostly whole replies, sometimes a sender step in between
        order = "SLF" if rnd.random() < 0.25 else "LSF"
    else:
        order = ORDERS[policy]
    for a in order:
        if a in acts:
            return a
    raise AssertionError


def b01(b) -> str:
    return "1" if b else "0"


def hexs(s: str) -> str:
    return s.encode("latin-1").hex()


def stream_job(ses, job, e0, faults, policy, rnd, fixed=None) -> dict:
    """`startprint(job)` on the session's printcore and drive it to quiescence (or out of budget)."""
    from gscrib.printrun import gcoder

    pc, ser, gate = ses.core, ses.ser, ses.gate
    res: dict = {"error": None}
    base, ev_base, wr_base = len(ser.tx), len(ser.events), len(ser.writes)
    fw = sim.FirmwareTwin(e0, faults)
    # a previous job is over only when its print thread has restarted the send thread (startprint
    # racing with that hand-over dies in _stop_sender: "cannot join thread before it is started")
    end = time.monotonic() + 5
    while pc.print_thread is not None or pc.send_thread is None or not pc.send_thread.is_alive():
        if time.monotonic() > end:
            raise sim.StepTimeout("previous job's print thread did not hand over to the send thread")
        time.sleep(0.001)
    if not pc.startprint(gcoder.GCode(list(job))):
        raise core.Infra("startprint refused (not online, or still printing)")
    gate.settle(ses.print_alive)
    pending: list[str] = []
    rep: list[str] = []
    consumed, dirty, after_resend, split, budget = 0, False, False, False, True
    trace: list[str] = []
    for stepno in range(BUDGET):
        acts = []
        if len(ser.tx) - base > consumed:
            acts.append("F")
        if pending:
            acts.append("L")
        if dirty:
            acts.append("S")
        if fixed is not None:
            if stepno >= len(fixed):
                budget = bool(acts)
                break
            a = fixed[stepno]
            if a != "S" and a not in acts:
                res["error"] = f"schedule action {a} at {stepno} not enabled"
                break
        elif not acts:
            budget = False
            break
        else:
            a = choose(policy, acts, rnd)
        if a == "F":
            out = fw.rx(ser.tx[base + consumed])
            consumed += 1
            pending += out
            rep += [sim.reply_token(x) for x in out]
        elif a == "L":
            line = pending.pop(0)
            ser.feed(line)
            dirty = True
            after_resend = line.startswith("Resend")
        else:
            if after_resend and pc.printing and ses.print_alive():
                split = True
            gate.wake(ses.print_alive)
            dirty = False
        trace.append(a)
    res.update(
        tx=list(ser.tx[base:]),
        bytes_ok=b"".join(ser.writes[wr_base:]) == "".join(t + "\n" for t in ser.tx[base:]).encode("latin-1"),
        acc=[c for _, c in fw.accepted],
        acc_n=[n for n, _ in fw.accepted],
        raw=list(fw.raw),
        rep=rep,
        trace="".join(trace),
        events=[list(e) for e in ser.events[ev_base:]],
        split=split,
        budget=budget,
        finished=(not pc.printing) and not ses.print_alive(),
        state=dict(
            printing=b01(pc.printing), clear=b01(pc.clear), lineno=pc.lineno, qi=pc.queueindex,
            rf=pc.resendfrom, exp=fw.expected,
        ),
        pend=(len(ser.tx) - base - consumed, len(pending)),
    )
    return res


def impl_run(case: dict) -> dict:
    """Drive the real printcore through the case's job under its policy (after the optional warm-up job
    on the same instance); returns the canonical record, the recorded schedule and what the oracle
    needs.  Never raises for a misbehaving sender."""
    logging.disable(logging.CRITICAL)
    rnd = random.Random(case["seed"])
    errs: list[str] = []
    res: dict = {"error": None}
    try:
        with sim.printcore_session() as ses:
            ses.core.errorcb = lambda e: errs.append(str(e))
            ses.gate.arm()
            if case.get("warmup"):
                w = stream_job(ses, case["warmup"], 1, [], "burst", rnd)
                if w.get("error") or w["budget"] or w["acc"] != job_commands(case["warmup"]):
                    res["error"] = "warm-up job on the same printcore did not complete: " + str(w.get("error") or w["acc"])
                    res["errors"] = []
                    return res
            res = stream_job(ses, case["job"], case["e0"], case["faults"], case["policy"], rnd, case.get("sched"))
    except sim.StepTimeout as e:
        res["error"] = f"hang: {e}"
    res["errors"] = [e for e in errs if "died" in e or "Can't" in e or "rubbish" in e]
    return res


def impl_record(r: dict) -> str:
    if r.get("error"):
        return "error " + r["error"]
    st = r["state"]
    return (
        f"tx={','.join(hexs(t) for t in r['tx'])} | acc={','.join(hexs(t) for t in r['acc'])} | "
        f"rep={','.join(r['rep'])} | "
        f"printing={st['printing']} clear={st['clear']} lineno={st['lineno']} qi={st['qi']} rf={st['rf']} exp={st['exp']} | "
        f"split={b01(r['split'])} | pend={r['pend'][0]},{r['pend'][1]} | quiet={b01(not r['budget'])} | stuck=-"
    )


def model_line(case: dict, trace: str) -> str:
    job = ";".join(hexs(l) for l in case["job"]) if case["job"] else "-"
    if case["job"] and job == "":
        job = "-"  # a single blank line: dropped by GCode.prepare anyway
    faults = ",".join(str(i) for i in sorted(case["faults"])) or "-"
    return f"e0={case['e0']} faults={faults} job={job} sched={trace or '-'}"


# ------------------------------------------------------------------ oracle (independent of the Lean model)
def oracle(case: dict, r: dict) -> list[tuple[str, str, dict]]:
    """C15 evaluated on what the implementation wrote and what the firmware accepted.
    Returns [(tag, message, info)]."""
    out = []
    if r.get("error"):
        return [("hang" if str(r["error"]).startswith("hang") else "harness", r["error"], {})]
    if r["errors"]:
        out.append(("crash", "printcore reported: " + r["errors"][0][:300], {}))
    want = job_commands(case["job"])
    tx = r["tx"]
    if not r.get("bytes_ok", True):
        out.append(("frame", "the bytes written are not exactly the transmitted lines, each terminated by one \\n", {}))
    # (1) every transmission is a well-formed frame; numbering consecutive from 0 after `M110 N-1`
    nxt, seen = 0, {}
    for i, t in enumerate(tx):
        m = sim.FRAME_RE.match(t)
        if not m:
            out.append(("frame", f"transmission {i} {t!r} is not N<k> <cmd>*<checksum>", {}))
            break
        n, cmd, cs = int(m.group(1)), m.group(2), int(m.group(3))
        pre = t[: t.rindex("*")]
        if pre != f"N{n} {cmd}":
            out.append(("frame", f"transmission {i} {t!r}: non-canonical line number", {}))
            break
        if sim.xor_bytes(pre) != cs:
            out.append(("frame", f"transmission {i} {t!r}: checksum {cs} is not the XOR of {pre!r} ({sim.xor_bytes(pre)})", {}))
            break
        if cmd == RESET:
            if n != -1:
                out.append(("frame", f"transmission {i} {t!r}: reset not numbered -1", {}))
                break
            if i != 0 and not (i == len(tx) - 1 and r["finished"]):
                out.append(("frame", f"line-number reset written in the middle of the job (transmission {i})", {}))
                break
            continue
        if i == 0:
            out.append(("frame", f"the job does not start with the M110 N-1 reset but with {t!r}", {}))
            break
        if n == nxt:
            if nxt >= len(want) or cmd != want[nxt]:
                exp = want[nxt] if nxt < len(want) else None
                out.append(("frame", f"line number {n} carries {cmd!r}, the job's command {n} is {exp!r}", {}))
                break
            seen[n] = t
            nxt += 1
        elif 0 <= n < nxt:
            if t != seen[n]:
                out.append(("frame", f"retransmission of line {n} is {t!r}, originally {seen[n]!r}", {}))
                break
        else:
            out.append(("frame", f"transmission {i} numbered {n}, expected a number <= {nxt}", {}))
            break
    # (2) a resend request makes transmission restart from the requested line
    if not any(tag == "frame" for tag, _, _ in out):
        sent_new, pending_rs, last = 0, None, None
        for kind, line in r["events"]:
            if kind == "r":
                if line.startswith("Resend:"):
                    # the request overrides a resend run in progress; a line not yet sent (or a
                    # negative number) means: carry on with the next new line
                    n = int(line.split(":")[1])
                    pending_rs = n if 0 <= n < sent_new else sent_new
            else:
                m = sim.FRAME_RE.match(line)
                n, cmd = int(m.group(1)), m.group(2)
                if cmd == RESET:
                    last, pending_rs = None, None
                    continue
                if pending_rs is not None:
                    if n != pending_rs:
                        out.append(("resend", f"after a resend request the next transmission is line {n}, not line {pending_rs}", {}))
                        break
                    pending_rs = None
                elif last is not None and n != last + 1:
                    out.append(("resend", f"line {n} transmitted right after line {last} without a resend request", {}))
                    break
                last = n
                sent_new = max(sent_new, n + 1)
    # (3) accepted log: safety always, completeness once nothing more can happen
    acc = r["acc"]
    info = dict(split=r["split"], finished=r["finished"], acc=acc, want=want)
    if r["raw"]:
        out.append(("frame", f"the firmware received unnumbered lines {r['raw'][:3]!r} during the job", {}))
    if r["budget"]:
        out.append(("budget", f"no quiescent state within {BUDGET} schedule actions", info))
    elif acc != want:
        pre = acc == want[: len(acc)]
        info["lost"] = "suffix" if pre and len(acc) < len(want) else "other"
        # by line number, not by text: the job may contain the same command twice
        info["first_skipped"] = bool(want) and 0 not in r["acc_n"]
        what = (
            f"lines {len(acc)}..{len(want) - 1} never accepted" if pre
            else f"accepted {acc!r}"
        )
        out.append(("complete", f"firmware accepted {len(acc)} of {len(want)} commands: {what}; expected {want!r}", info))
    return out


# ------------------------------------------------------------------ known findings
def pred_reset_corrupted(fl: dict) -> bool:
    """fault set contains the reset's transmission index, e0 != 0, line N0 never accepted"""
    c = fl.get("case") or {}
    return (
        fl.get("tag") == "complete"
        and 0 in c.get("faults", [])
        and c.get("e0", 0) != 0
        and bool(fl.get("first_skipped"))
    )


def pred_tail_loss(fl: dict) -> bool:
    """SplitTriple occurred in the schedule, the sender ended the job normally, lost lines = a suffix"""
    return (
        fl.get("tag") == "complete"
        and bool(fl.get("split"))
        and bool(fl.get("finished"))
        and fl.get("lost") == "suffix"
    )


FINDING_PREDICATES = {"C15-reset-corrupted": pred_reset_corrupted, "C15-tail-loss-split-triple": pred_tail_loss}

# the Lean counter-examples of Props/C15.lean (same job, fault set, e0 and schedule)
W_TAIL = dict(job=["G1 X0", "G1 X1", "G1 X2"], faults=[3, 4], e0=1, policy="eager", seed=0,
              sched="FLSFLSFLSFLSLSLSFLSLSLSFLS")
W_RESET = dict(job=["G1 X0", "G1 X1", "G1 X2"], faults=[0], e0=1, policy="burst", seed=0,
               sched="FLLLSFLLLSFLSFLSFLS")


def _witness(case, pred):
    def w():
        last = ""
        for _ in range(3):
            r = impl_run(case)
            fails = [
                dict(case=case_repr(case), tag=tag, message=msg, **info)
                for tag, msg, info in oracle(case, r)
            ]
            hit = [f for f in fails if pred(f)]
            if hit:
                return True, hit[0]["message"]
            last = "; ".join(f["message"] for f in fails) or "oracle satisfied"
        return False, last

    return w


WITNESSES = {
    "C15-reset-corrupted": _witness(W_RESET, pred_reset_corrupted),
    "C15-tail-loss-split-triple": _witness(W_TAIL, pred_tail_loss),
}


# ------------------------------------------------------------------ generation
def gen_line(rng: random.Random, k: int) -> str:
    a, b = rng.randint(0, 40), rng.randint(0, 40)
    kind = rng.random()
    if kind < 0.55:
        cmd = rng.choice([
            f"G1 X{a} Y{b}", f"G1 X{a} Y{b} E{k}.5", f"G1 X{a}", f"G0 Z0.{1 + k % 8}", "M105", "G28",
            "G92 E0", f"M104 S{180 + a}", f"G4 P{a}", "M82", f"g1 x{a} y{b}", f"G1 X{a} Y{b} F1200",
            f"T{k % 2}", "M117 a*b", f"G1 X{a} /2", f"G1 X{a} )", f"G1 (x) X{a} (y) Y{b}", f"G1 X{a} (open",
            f"G1 X{a}  Y{b}", "M114",
        ])
        r = rng.random()
        if r < 0.25:
            cmd += rng.choice([" ; comment", ";c", " (inline)", " ; has (parens) and ;", " ; M110 N7", "\t; tab"])
        if rng.random() < 0.2:
            cmd = rng.choice([" ", "  ", "\t"]) + cmd + rng.choice(["", " ", "\t "])
        return cmd
    if kind < 0.75:
        return rng.choice(["; only a comment", "(only)", ";", " ; indented", "( a ) ; b", "; M110 N5", "(M110 N3)", "()", ";;"])
    if kind < 0.85:
        return rng.choice([";@home", "  ;@wait", ";@", ";@beep now"])
    if kind < 0.93:
        return rng.choice(["", " ", "\t", "   "])
    return rng.choice(["G1 X1", "G1 X1", "M105"])  # exact duplicates: "each once" is positional


def gen_case(rng: random.Random, policies=None) -> dict:
    L = rng.choice([0, 1, 2, 3, 3, 4, 5, 6, 8, 10, 12])
    job = [gen_line(rng, k) for k in range(L)]
    ncmd = len(job_commands(job))
    span = ncmd + 7
    k = rng.choice([0, 0, 1, 1, 1, 2, 2, 2, 3, 3, 4])
    faults: set[int] = set()
    style = rng.random()
    while len(faults) < k:
        if style < 0.4:  # a run of consecutive indices: a line corrupted again when it is resent
            s = rng.randint(1, max(1, span - 1))
            faults.update(range(s, min(span, s + k)))
        elif style < 0.65:  # around the end of the job
            faults.add(rng.randint(max(1, ncmd - 1), ncmd + 4))
        else:
            faults.add(rng.randint(1, span))
        while len(faults) > k:
            faults.pop()
    if rng.random() < 0.08:
        faults.add(0)
    e0 = rng.choice([1, 1, 1, 1, 0, 0, 2, 5])
    pol = rng.choice(policies or ["eager", "burst", "random", "random", "mixed", "bursty", "fwfirst", "lagfw"])
    c = dict(job=job, faults=sorted(faults), e0=e0, policy=pol, seed=rng.randrange(1 << 30))
    if rng.random() < 0.3:  # a second job on the same printcore: startprint must start numbering afresh
        c["warmup"] = [f"G1 X{i}" for i in range(rng.randint(1, 3))] + rng.choice([[], ["; end"]])
    return c


def case_repr(c: dict, trace: str | None = None) -> dict:
    d = dict(job=c["job"], faults=sorted(c["faults"]), e0=c["e0"], policy=c["policy"], seed=c["seed"])
    if c.get("warmup"):
        d["warmup"] = c["warmup"]
    if trace is not None:
        d["sched"] = trace
    elif c.get("sched") is not None:
        d["sched"] = c["sched"]
    return d


def exhaustive_cases():
    """all fault subsets of size <= 3 over the first 10 transmissions of a 4-line job
    x 3 latency profiles (sender faster than replies / whole replies / firmware first) x e0 in {0, 1}"""
    job = ["G1 X0", "G1 X1 ; c", "; skip", "G1 X2", "G1 X3"]
    for e0 in (0, 1):
        for pol in ("eager", "burst", "fwfirst"):
            for k in range(4):
                for fs in itertools.combinations(range(10), k):
                    yield dict(job=job, faults=list(fs), e0=e0, policy=pol, seed=0)


# ------------------------------------------------------------------ running batches
def _init_worker():
    logging.disable(logging.CRITICAL)


class Pool:
    def __init__(self):
        n = int(os.environ.get("VERIF_JOBS", "0")) or max(2, min(14, (os.cpu_count() or 4) - 2))
        self.pool = mp.get_context("fork").Pool(n, initializer=_init_worker)

    def map(self, fn, items):
        return self.pool.map(fn, items, chunksize=1)

    def close(self):
        self.pool.terminate()
        self.pool.join()


def run_batch(R: core.Run, pool: Pool, cases: list[dict], label: str, compare: bool = True):
    results = pool.map(impl_run, cases)
    model: dict[int, str] = {}

    def bad(i):
        r = results[i]
        if r.get("error"):
            return str(r["error"]).startswith("hang")
        return compare and impl_record(r) != model.get(i)

    def run_model_for(idx):
        idx = [i for i in idx if not results[i].get("error")]
        if compare and idx:
            out = core.run_model("sender", [model_line(cases[i], results[i]["trace"]) for i in idx])
            model.update(zip(idx, out))

    run_model_for(range(len(cases)))
    for attempt in range(3):  # real threads: a hanging or disagreeing case is re-run before it counts
        todo = [i for i in range(len(cases)) if bad(i)]
        if not todo:
            break
        R.count(*["retry:" + ("hang" if results[i].get("error") else "disagree") for i in todo])
        for i, r in zip(todo, pool.map(impl_run, [cases[i] for i in todo])):
            results[i] = r
        run_model_for(todo)
    if compare:
        for i, r in enumerate(results):
            if not r.get("error") and impl_record(r) != model[i]:
                R.disagree("sender-run", case_repr(cases[i], r["trace"]), impl_record(r), model[i])
    for c, r in zip(cases, results):
        judge(R, c, r, label, validated=compare and not r.get("error"))
    return results


def judge(R: core.Run, c: dict, r: dict, label: str, validated: bool = True):
    want = job_commands(c["job"])
    cr = case_repr(c, r.get("trace"))
    skips = len([l for l in c["job"] if l.strip()]) - len(want)
    R.case(cr, nontrivial=len(want) >= 2 and (bool(c["faults"]) or skips > 0), validated=validated)
    fails = oracle(c, r)
    R.count(
        label, f"policy:{c['policy']}", f"faults:{min(len(c['faults']), 4)}", f"cmds:{min(len(want) // 3 * 3, 9)}+",
        f"e0:{c['e0']}", "split" if r.get("split") else "nosplit", "second-job" if c.get("warmup") else "first-job",
        "reset-corrupted" if 0 in c["faults"] else "reset-intact",
        "complete" if not fails else "fails:" + fails[0][0],
    )
    if r.get("rep"):
        R.count(f"resend-requests:{min(sum(1 for x in r['rep'] if x.startswith('r')), 5)}")
    record_failures(R, cr, fails)


def record_failures(R: core.Run, cr: dict, fails):
    """every unlisted failure is recorded; failures matching a known finding only up to 60 per finding
    (core keeps at most 200 failures - known ones must never crowd out a new one)"""
    for tag, msg, info in fails:
        fl = dict(case=cr, tag=tag, message=msg, **info)
        hit = next((k for k, p in FINDING_PREDICATES.items() if p(fl)), None)
        if hit:
            R.count("known:" + hit)
            if R.dist["known:" + hit] > 60:
                continue
        R.fail(cr, msg, tag=tag, **info)


# ------------------------------------------------------------------ free-running (timed) sub-run: oracle only
class _TimedFirmware:
    """firmware twin behind a thread: `latency` before looking at a line, `gap` between `Resend:` and `ok`"""

    def __init__(self, ser, fw: sim.FirmwareTwin, latency: float, gap: float):
        self.ser, self.fw, self.latency, self.gap = ser, fw, latency, gap
        self.q: list[str] = []
        self.cv = threading.Condition()
        self.stop = False
        self.busy = 0
        self.t = threading.Thread(target=self._run, daemon=True)
        self.t.start()

    def on_write(self, line):
        with self.cv:
            self.q.append(line)
            self.busy += 1
            self.cv.notify_all()

    def _run(self):
        while True:
            with self.cv:
                while not self.q and not self.stop:
                    self.cv.wait(0.05)
                if self.stop:
                    return
                line = self.q.pop(0)
            if self.latency:
                time.sleep(self.latency)
            prev = ""
            for rep in self.fw.rx(line):
                if rep == "ok" and prev.startswith("Resend") and self.gap:
                    time.sleep(self.gap)
                prev = rep
                self.ser.push(rep)
            with self.cv:
                self.busy -= 1


def timed_run(case: dict) -> dict:
    """printcore free-running against a firmware thread; the interleaving of the sender's and the
    listener's steps is observed through a `clear` property (instance-level probe, no source hook)."""
    from gscrib.printrun import gcoder

    logging.disable(logging.CRITICAL)
    errs: list[str] = []
    res: dict = {"error": None}
    log: list[tuple] = []
    lock = threading.Lock()

    def factory(pc_mod):
        class Probe(pc_mod.printcore):
            def _get(self):
                return self.__dict__.get("_clear", 0)

            def _set(self, v):
                with lock:
                    log.append(("clear", threading.current_thread().name, bool(v)))
                self.__dict__["_clear"] = v

            clear = property(_get, _set)

        p = Probe()
        p.connect("/dev/fake", 115200)
        return p

    try:
        with sim.printcore_session(factory=factory) as ses:
            pc, ser = ses.core, ses.ser
            pc.errorcb = lambda e: errs.append(str(e))

            def recv(line):
                with lock:
                    log.append(("recv", line.strip()))

            pc.recvcb = recv
            time.sleep(0.02)
            base, ev_base = len(ser.tx), len(ser.events)
            del log[:]
            fw = sim.FirmwareTwin(case["e0"], case["faults"])
            tf = _TimedFirmware(ser, fw, case["latency"], case["gap"])
            ser.on_write = tf.on_write
            if not pc.startprint(gcoder.GCode(list(case["job"]))):
                raise core.Infra("startprint refused (not online?)")
            end = time.monotonic() + 6
            quiet_since = None
            budget = True
            storm = 60 + 12 * len(case["job"])  # far more transmissions than any terminating run needs
            while time.monotonic() < end and len(ser.tx) - base < storm:
                idle = (not pc.printing) and pc.print_thread is None and tf.busy == 0 and ser.rxq.empty()
                if idle:
                    quiet_since = quiet_since or time.monotonic()
                    if time.monotonic() - quiet_since > 0.1:
                        budget = False
                        break
                else:
                    quiet_since = None
                time.sleep(0.005)
            ser.on_write = None
            with tf.cv:
                tf.stop = True
                tf.cv.notify_all()
            # SplitTriple: a print-thread `clear = False` between the listener's `clear = True` for a
            # `Resend:` line and its `clear = True` for the next line
            split, armed = False, False
            last_recv = ""
            for e in list(log):
                if e[0] == "recv":
                    last_recv = e[1]
                elif e[1] == "read thread" and e[2]:
                    armed = last_recv.lower().startswith("resend")
                elif e[1] == "print thread" and not e[2] and armed:
                    split = True
            res.update(
                tx=list(ser.tx[base:]), acc=[c for _, c in fw.accepted], acc_n=[n for n, _ in fw.accepted],
                raw=list(fw.raw), rep=[],
                events=[list(e) for e in ser.events[ev_base:]], split=split, budget=budget,
                finished=(not pc.printing) and pc.print_thread is None, trace="",
            )
    except sim.StepTimeout as e:
        res["error"] = f"hang: {e}"
    res["errors"] = [e for e in errs if "died" in e or "Can't" in e or "rubbish" in e]
    return res


LATENCIES = [("fast", 0.0, 0.0), ("slow", 0.004, 0.0), ("gap", 0.002, 0.02)]


def timed_oracle(case, r):
    """the resend clause needs the step-exact event order (a write may overtake the logging of a
    reply in free-running mode), so only the frame, safety and completeness clauses are judged"""
    return [(t, m, i) for t, m, i in oracle(case, r) if t not in ("resend", "budget")]


def run_timed(R: core.Run, pool: Pool, n: int):
    cases = []
    for k in range(n):
        c = gen_case(R.rng)
        name, lat, gap = LATENCIES[k % len(LATENCIES)]
        c.update(policy="timed-" + name, latency=lat, gap=gap)
        if len(c["job"]) > 8:
            c["job"] = c["job"][:8]
        cases.append(c)
    results = pool.map(timed_run, cases)
    verdicts = [timed_oracle(c, r) for c, r in zip(cases, results)]
    for _ in range(2):  # real threads: a failure must repeat to count
        todo = [i for i, f in enumerate(verdicts) if f]
        if not todo:
            break
        for i, r in zip(todo, pool.map(timed_run, [cases[i] for i in todo])):
            results[i], verdicts[i] = r, timed_oracle(cases[i], r)
            if not verdicts[i]:
                R.count("retry:timed-cleared")
    for c, r, fails in zip(cases, results, verdicts):
        cr = case_repr(c)
        cr.update(latency=c["latency"], gap=c["gap"])
        R.case(cr, nontrivial=len(job_commands(c["job"])) >= 2 and bool(c["faults"]), validated=False)
        if r.get("budget"):
            R.count("timed-inconclusive(no quiescence before the wall-clock deadline)")
        R.count("timed", c["policy"], "timed-split" if r.get("split") else "timed-nosplit",
                "timed-complete" if not fails else "timed-fails:" + fails[0][0])
        record_failures(R, cr, fails)


# ------------------------------------------------------------------ the check
CORPUS = [
    W_TAIL,
    W_RESET,
    dict(job=[], faults=[], e0=1, policy="eager", seed=1),
    dict(job=["; nothing", "", ";@home"], faults=[], e0=1, policy="eager", seed=1),
    dict(job=["G1 X0", "G1 X1", "G1 X2"], faults=[3, 4], e0=1, policy="burst", seed=1),
    dict(job=["G1 X0", "G1 X1", "G1 X2"], faults=[0], e0=0, policy="eager", seed=1),
    dict(job=["G1 X0 ; a", "(c)", "G1 X1 (b) Y2", "  ;@home", "G1 X2*3", "G1 X2*3"], faults=[2, 3, 5], e0=1, policy="random", seed=5),
    dict(job=["G1 X%d" % i for i in range(12)], faults=[1, 2, 6, 13], e0=1, policy="mixed", seed=9),
    dict(job=["G1 X0", "G1 X1"], faults=[2], e0=0, policy="burst", seed=3, warmup=["G1 X5", "G1 X6", "G1 X7"]),
    dict(job=["G1 X1 Y1 E1", "G1 Z0.2", "G1 X2 Y2 E2", "G1 Z0.4", "G1 X3 Y3 E3"], faults=[2], e0=1, policy="eager", seed=2),
]


def run(R: core.Run):
    R.rule = (
        "random jobs of 0-12 raw lines (commands, trailing/parenthesised comments, comment-only, blank, host lines, "
        "duplicates, '*' and '/' inside commands) x fault sets of 0-4 transmission indices (runs of consecutive indices, "
        "indices around the end of the job, the reset itself in 8%) x e0 in {0,1,2,5} x 8 schedule policies; "
        "non-trivial = at least 2 commands and (a fault or a skipped line); distinct by hash of (job, faults, e0, schedule)"
    )
    R.assumptions = [
        "job lines contain no M110 of their own and no ';@pause' host command; the priority queue stays empty while printing",
        "a corrupted transmission is always detected by the firmware (checksum mismatch); replies are never corrupted or lost",
        "firmware = Marlin-style twin (harness/sim_serial.py): expected-line check, M110 exempt, Error/Resend/ok triple",
        "schedules are realised at the granularity of the two atomic sender steps (one _sendnext pass, one _listen line); "
        "races inside a step (non-atomic resendfrom += 1) are exercised only by the free-running sub-run, judged by the oracle",
        "printcore.time.sleep is replaced for the print thread by a harness gate (step mode); serial.Serial is a fake",
    ]
    R.trusted = [
        "Lean 4.33 kernel; axioms propext, Classical.choice, Quot.sound only (audited per theorem)",
        "hand-written Lean model Model/Sender.lean tied to printcore.py by this run's correspondence (differential) check",
        "Python harness: generator, step-controlled serial port and sleep gate, firmware twin, comment scanner, oracle",
    ]
    pool = Pool()
    try:
        # policy-driven, then the two Lean counter-examples with their schedules replayed literally
        run_batch(R, pool, [{k: v for k, v in c.items() if k != "sched"} for c in CORPUS], "corpus")
        run_batch(R, pool, [W_TAIL, W_RESET], "lean-witness-schedules")
        cases = [gen_case(R.rng) for _ in range(R.n(120, 1500))]
        run_batch(R, pool, cases, "random")
        run_timed(R, pool, R.n(12, 150))
        if R.thorough:
            ex = list(exhaustive_cases())
            run_batch(R, pool, ex, "exhaustive")
            R.exhaustive = False
            R.extra["exhaustive_subrun"] = {
                "cases": len(ex),
                "scope": "4-command job (5 queue entries), every fault subset of size <= 3 over transmissions 0..9, "
                         "3 latency profiles (eager / burst / firmware-first), e0 in {0,1}",
                "exhaustive": True,
            }
        unlisted = [f for f in R.failures if not any(p(f) for p in FINDING_PREDICATES.values())]
        if R.broken and not unlisted:
            # failing-input search: a fresh batch biased towards faults, judged by the oracle only
            R.search_batches += 1
            extra = [gen_case(R.rng) for _ in range(R.n(160, 600))]
            for c, r in zip(extra, pool.map(impl_run, extra)):
                R.evaluations += 1
                record_failures(R, case_repr(c, r.get("trace")), oracle(c, r))
    finally:
        pool.close()
    return FINDING_PREDICATES, WITNESSES


def replay(data):
    core.use_repo()
    fl = data.get("failure") or data.get("first", {})
    case = fl.get("case")
    if not case:
        print("replay: no case recorded (", data.get("no_longer_checks"), ")")
        return 1
    c = dict(case)
    if str(c.get("policy", "")).startswith("timed"):
        r = timed_run(c)
        fails = timed_oracle(c, r)
        print("impl  :", r.get("tx"), r.get("acc"))
        print("oracle:", fails or "ok")
        return 1 if fails else 0
    r = impl_run(c)
    if r.get("error") and "not enabled" in str(r["error"]):
        print("replay: the recorded schedule does not apply to this tree; re-running under policy", c.get("policy"))
        c.pop("sched", None)
        r = impl_run(c)
    if r.get("error"):
        print("impl  :", r["error"])
        return 1
    io = impl_record(r)
    mo = core.run_model("sender", [model_line(c, r.get("trace") or c.get("sched") or "")])[0]
    fails = oracle(c, r)
    print("impl  :", io)
    print("model :", mo)
    print("tx    :", r.get("tx"))
    print("accept:", r.get("acc"), " wanted:", job_commands(c["job"]))
    known = [k for k, p in FINDING_PREDICATES.items()
             for tag, msg, info in fails if p(dict(case=case_repr(c), tag=tag, **info))]
    print("oracle:", [(t, m) for t, m, _ in fails] or "ok", ("known finding " + known[0]) if known else "")
    return 1 if (fails or io != mo) else 0

"""C15 - streamed print jobs arrive complete, in order and checksummed (bundled Printrun sender).

Model: lean/GscribModel/Model/Sender.lean (driver mode `sender`); theorems: Props/C15.lean.
Implementation: the real, threaded `gscrib.printrun.printcore.printcore` streaming a job through
`startprint` over a fake `serial.Serial` (harness/sim_serial.py).  The harness owns the schedule:

  F  the firmware twin consumes the oldest line written to the port and queues its replies,
  L  one reply line is released to the read thread and the harness waits until `_listen` has
     processed it,
  S  the print thread, parked in the 1 ms poll of `_sendnext`, is woken once and runs until it
     blocks again or the job ends.

A further schedule dimension (`early`, 35 % of the cases): for selected transmissions the reply is
consumed by the listener *before the port's write() returns* (fast device / slow host); see
`stream_job`.  For the model's atomic `_sendnext` this is the schedule S,F,L..L and is recorded so.
A job that stops with the sender still waiting for an acknowledgement is an oracle failure
(`job stalled: lines accepted so far ...`), found structurally in step mode and by a bounded wait
(STALL_WAIT) in the free-running sub-run (`inwrite` profile).

Two further dimensions of a case:

  conn   how the serial connection was opened (`sim.open_connection`): port name, baud rate,
         dtr None / False / True, via `connect(...)`, the constructor, two `connect` calls, or a
         reconnect.  None of it changes what the property demands, so these cases go to the model as
         they are (it has no notion of a connection: the same job must give the same bytes).
  slow   `[[transmission index, k, where]]`: the device stays silent for k read time-outs of the port
         before it reads that transmission (`exec`, schedule action `W`) or before the last line of
         its reply (`ack`, action `w`) - a command that simply takes long (homing, heating, dwell).
         The fake port honours its read time-out (readline() returns b"" after `SLOW_POLL` s, the
         scaled image of the 0.25 s the Device asks for), so whatever the read thread does about
         time-outs runs.  For the model waiting is a stutter step: `W`/`w` are dropped from the
         schedule it replays.

  prio   `[[via, at, [commands]]]` (sub-run `prio`, judged by the oracle only - the Lean model has no
         priority queue): bursts of 2-4 `send_now()` commands queued at the same moment while the job is
         being streamed - by the harness between two acknowledgements (`harness`: as soon as `at`
         lines have been written since `startprint`) or, re-entrantly, from a callback of the sender
         running in the print thread (`sendcb` / `printsendcb` / `layerchangecb`: on its `at`-th call).
         Priority commands are not part of the job: they travel unnumbered, each exactly once, and the
         job clauses of the property (framing, numbering, resend, accepted log) apply to the job lines
         around them unchanged.  Transmission indices (fault sets) count them like any other line.

The recorded (job, fault set, e0, schedule) is replayed on the Lean model; compared: the exact
sequence of lines written to the port, the firmware's accepted log and reply stream, the sender's
final state and the SplitTriple monitor.  A free-running sub-run (real `time.sleep`, a firmware
thread with wall-clock latencies) is judged by the oracle only.
"""
from __future__ import annotations

import collections
import itertools
import logging
import multiprocessing as mp
import os
import random
import threading
import time

from . import core
from . import sim_serial as sim

PROP = "C15"
BUDGET = 900  # schedule actions per case
RESET = "M110 N-1"


# ------------------------------------------------------------------ what "the job's non-comment lines" means
def strip_comments(s: str) -> str:
    """independent scanner: `;` to end of line, `( ... )` groups without nested parentheses"""
    out, i, n = [], 0, len(s)
    while i < n:
        c = s[i]
        if c == ";":
            break
        if c == "(":
            j = i + 1
            while j < n and s[j] not in "()":
                j += 1
            if j < n and s[j] == ")":
                i = j + 1
                continue
        out.append(c)
        i += 1
    return "".join(out)


def job_commands(job: list[str]) -> list[str]:
    want = []
    for raw in job:
        s = raw.strip()
        if not s or s.startswith(";@"):
            continue
        t = strip_comments(s).strip()
        if t:
            want.append(t)
    return want


# ------------------------------------------------------------------ implementation adapter (step mode)
ORDERS = {"eager": "SLF", "burst": "LSF", "fwfirst": "FLS", "lagfw": "LFS"}


def choose(policy: str, acts: list[str], rnd: random.Random) -> str:
    if policy == "random":
        return rnd.choice(acts)
    if policy == "mixed":
        order = rnd.choice(["SLF", "LSF", "FLS", "LFS", "SFL", "FSL"])
    elif policy == "bursty":  # mostly whole replies, sometimes a sender step in between
        order = "SLF" if rnd.random() < 0.25 else "LSF"
    else:
        order = ORDERS[policy]
    for a in order:
        if a in acts:
            return a
    raise AssertionError


def b01(b) -> str:
    return "1" if b else "0"


def hexs(s: str) -> str:
    return s.encode("latin-1").hex()


# A `Resend:` consumed by the listener while the write of a RETRANSMISSION is still in progress made the pinned
# printcore skip the requested line (`self.resendfrom += 1` followed the write in the resend branch of `_sendnext`
# and was applied to the listener's fresh value): job [G1 X0, G1 X1], faults {2,3}, early=[3] lost the last line,
# without a SplitTriple.  Repaired by /repo 940214b (the cursor is advanced before the write; recorded `fixed` in
# known_findings.json); the sub-family is generated by default, C15_EARLY_RESEND_IN_RETRANSMISSION=0 caps it again
# (such a retransmission then gets only the lines before its `Resend:` early, counted as `early:capped`).
EARLY_RESEND_IN_RETRANSMISSION = os.environ.get("C15_EARLY_RESEND_IN_RETRANSMISSION", "1") == "1"


def early_k(case_early, idx: int) -> int:
    """how many reply lines to transmission `idx` are consumed by the listener before write() returns
    (`early` is a cyclic pattern over transmission indices; 0 = the usual 'after write() returned')"""
    if not case_early:
        return 0
    return int(case_early[idx % len(case_early)])


SLOW_POLL = 0.01  # s: read time-out of the fake port in cases with a slow reply (Device asks pyserial for 0.25 s)
WAITS = {"W": "exec", "w": "ack"}


# A burst queued between startprint() returning and the print thread having stopped the idle sender's send thread
# (`_print` -> `_stop_sender`, up to the 0.1 s of its queue poll) is taken by that send thread: `_sender` waits for
# `clear`, writes the command and does NOT lower `clear`, so the print thread sends the next line with the command's
# `ok` still outstanding - two lines in flight for the rest of the job, and a corrupted last line is never resent
# (the job ends on the `ok` of the last-but-one line).  Seen on the pinned tree with the free-running sub-run (job of 3
# lines, 2 commands queued right after startprint, first transmission of the last line corrupted: last line never
# accepted, no SplitTriple).  Reported, not registered: this sub-family is generated only with
# C15_PRIO_AT_STARTPRINT=1; by default the harness queues its bursts once the print thread has taken over (counted
# as `prio:burst-held-until-the-print-thread-took-over`), and the stepped mode can only queue them then anyway.
PRIO_AT_STARTPRINT = os.environ.get("C15_PRIO_AT_STARTPRINT", "0") == "1"
PRIO_VIAS = ("harness", "sendcb", "printsendcb", "layerchangecb")
SEND_THREAD_WAIT = 1.5  # s: how long a queued priority command may take to appear on the wire once the job is over


def unnumbered(lines) -> int:
    return sum(1 for t in lines if not sim.FRAME_RE.match(t))


class PrioFeed:
    """the case's bursts of `send_now()` commands: `[[via, at, [commands]]]`.  A burst is queued in one go
    (consecutive `send_now()` calls, nothing else in between) either by the harness (`poll`, once `at`
    lines have been written since startprint) or from inside the sender's own callback `via` on its
    `at`-th call since startprint (re-entrant use of the API, what a GUI host does on a layer change)."""

    def __init__(self, pc, prio, errors: list):
        self.pc = pc
        self.bursts = [(str(v), int(a), [str(c) for c in cmds]) for v, a, cmds in (prio or [])]
        for v, _, _ in self.bursts:
            if v not in PRIO_VIAS:
                raise core.Infra(f"unknown way to queue a priority burst: {v!r}")
        self.fired: list[str] = []  # commands handed to send_now(), in order
        self.done: set[int] = set()
        self.calls: collections.Counter = collections.Counter()
        self.errors = errors
        self.lock = threading.Lock()

    def _fire(self, j: int):
        with self.lock:
            if j in self.done:
                return
            self.done.add(j)
            for c in self.bursts[j][2]:
                self.fired.append(c)
                self.pc.send_now(c)

    def _callback(self, via: str):
        def cb(*a, **k):
            try:
                with self.lock:
                    self.calls[via] += 1
                    n = self.calls[via]
                for j, (v, at, _) in enumerate(self.bursts):
                    if v == via and at == n:
                        self._fire(j)
            except BaseException as e:  # never let harness trouble look like a failing callback of the host
                self.errors.append(e)

        return cb

    def install(self):
        for via in {v for v, _, _ in self.bursts} - {"harness"}:
            setattr(self.pc, via, self._callback(via))

    def remove(self):
        for via in {v for v, _, _ in self.bursts} - {"harness"}:
            setattr(self.pc, via, None)

    def poll(self, ntx: int):
        for j, (v, at, _) in enumerate(self.bursts):
            if v == "harness" and j not in self.done and ntx >= at:
                self._fire(j)

    def unfired(self) -> int:
        return len(self.bursts) - len(self.done)


def stream_job(ses, job, e0, faults, policy, rnd, fixed=None, early=None, slow=None, prio=None) -> dict:
    """`startprint(job)` on the session's printcore and drive it to quiescence (or out of budget).

    `early` (schedule dimension "fast device / slow host"): for the transmissions it selects, the
    firmware twin consumes the line and the first k reply lines are handed to the read thread - and
    processed by `_listen` - *inside* the fake port's write(), i.e. before `Device.write()` returns to
    the thread that is sending (the print thread in `_sendnext`, the caller of `startprint` for the
    first reset).  FIFO order of both channels is kept: a line is answered early only when the
    firmware has nothing older to read and no older reply is waiting.

    Meaning for the Lean model (Model/Sender.lean): `_sendnext` is ONE atomic step there, the write
    being its last access to the state shared with `_listen` (`clear`, `resendfrom`) - the unchanged
    code lowers `clear` before the write and touches only `lineno`/`queueindex` after it.  So
    "reply consumed before write() returns" is, for the model, the same run as "S, then F, then k
    times L" with no other action in between, and that is how it is recorded in the schedule (the
    `S` of a pass that the print thread starts without having been parked - because the early `ok`
    was already there - is recorded too).  A sender whose `_sendnext` is not equivalent to its
    atomic reading (it writes `clear`/`resendfrom` after the write) disagrees with the model here."""
    from gscrib.printrun import gcoder

    pc, ser, gate = ses.core, ses.ser, ses.gate
    res: dict = {"error": None}
    base, ev_base, wr_base = len(ser.tx), len(ser.events), len(ser.writes)
    fw = sim.FirmwareTwin(e0, faults)
    # a previous job is over only when its print thread has restarted the send thread (startprint
    # racing with that hand-over dies in _stop_sender: "cannot join thread before it is started")
    end = time.monotonic() + 5
    while pc.print_thread is not None or pc.send_thread is None or not pc.send_thread.is_alive():
        if time.monotonic() > end:
            raise sim.StepTimeout("previous job's print thread did not hand over to the send thread")
        time.sleep(0.001)
    pending: list[str] = []
    ptag: list = []  # parallel to `pending`: the transmission index whose reply ends with that line, else None
    slowmap = {int(i): (int(k), str(w)) for i, k, w in (slow or [])}
    waited: set[int] = set()
    n_wait = 0
    rep: list[str] = []
    consumed, dirty, after_resend, split, budget = 0, False, False, False, True
    trace: list[str] = []
    s_open = True  # the next write belongs to an action already in the trace (startprint / the current S)
    n_early, n_capped = 0, 0
    seen_new: set[str] = set()
    seen_frames: set[str] = set()
    cb_error: list[BaseException] = []
    feed = PrioFeed(pc, prio, cb_error) if prio else None
    gave_up = False

    def on_write(line):
        # runs in the writing thread, while the harness thread is blocked in startprint()/gate.wake()
        nonlocal consumed, after_resend, split, s_open, n_early, n_capped
        try:
            idx = len(ser.tx) - base - 1
            if threading.get_ident() == ser.reader:
                return  # written by the thread that reads the port: it cannot be answered inside its own write()
            if threading.current_thread().name == "send thread":
                return  # a priority command written after the job, concurrently with the harness: answered by F / L
            if s_open:
                s_open = False
            else:  # a further _sendnext pass of the same wake-up: the model needs its own S for it
                if after_resend:
                    split = True
                trace.append("S")
            k = 0 if idx in slowmap else early_k(early, idx)
            if line in seen_new:
                seen_frames.add(line)  # written before in this job: a retransmission (resend branch)
            elif not line.startswith("N-1 "):
                seen_new.add(line)
            if k and consumed == idx and not pending:
                out = fw.rx(line)
                consumed += 1
                rep.extend(sim.reply_token(x) for x in out)
                trace.append("F")
                if not EARLY_RESEND_IN_RETRANSMISSION and line in seen_frames:
                    cut = next((j for j, x in enumerate(out) if x.startswith("Resend")), len(out))
                    if k > cut:
                        k, n_capped = cut, n_capped + 1
                n_early += 1
                for x in out[:k]:
                    trace.append("L")
                    ser.feed(x)
                    after_resend = x.startswith("Resend")
                pending.extend(out[k:])
                ptag.extend(tags(out, idx)[k:])
        except BaseException as e:  # never let harness trouble look like a dying print thread
            cb_error.append(e)

    def tags(out, idx):
        return [None] * (len(out) - 1) + [idx]

    def wait_due(a):
        """the transmission whose slow reply has to be waited for before action `a` (F / L), or None"""
        idx = consumed if a == "F" else (ptag[0] if ptag else None)
        if idx in slowmap and idx not in waited and slowmap[idx][1] == ("exec" if a == "F" else "ack"):
            return idx
        return None

    ser.on_write = on_write if early else None
    try:
        if feed:
            feed.install()
        if not pc.startprint(gcoder.GCode(list(job))):
            raise core.Infra("startprint refused (not online, or still printing)")
        s_open = False
        gate.settle(ses.print_alive)
        for stepno in range(BUDGET):
            if cb_error:
                break
            if feed:
                # the harness queues its bursts here: the print thread is parked in its poll (a line is in
                # flight, or its acknowledgement has been processed and the sender has not acted on it yet)
                feed.poll(len(ser.tx) - base)
                if not gave_up and not pc.printing and not ses.print_alive():
                    # the job is over: what is still queued goes out through the send thread, which is not
                    # stepped - wait (bounded) until every queued command is on the wire
                    end = time.monotonic() + SEND_THREAD_WAIT
                    while True:
                        n = len(feed.fired)
                        if unnumbered(ser.tx[base:]) >= n and len(feed.fired) == n:
                            break
                        if time.monotonic() > end:
                            gave_up = True
                            break
                        time.sleep(0.002)
            acts = []
            if len(ser.tx) - base > consumed:
                acts.append("F")
            if pending:
                acts.append("L")
            if dirty:
                acts.append("S")
            if fixed is not None:
                pos = len(trace)  # actions recorded inside a write() are part of the schedule
                if pos >= len(fixed):
                    budget = bool(acts)
                    break
                a = fixed[pos]
                if a in WAITS:
                    tgt = "F" if a == "W" else "L"
                    if tgt not in acts or wait_due(tgt) is None:
                        res["error"] = f"schedule action {a} at {pos} not enabled"
                        break
                elif a != "S" and a not in acts:
                    res["error"] = f"schedule action {a} at {pos} not enabled"
                    break
            elif not acts:
                budget = False
                break
            else:
                a = choose(policy, acts, rnd)
                if a in "FL" and wait_due(a) is not None:
                    a = "W" if a == "F" else "w"  # the device is not that fast: first the silence, then choose again
            trace.append(a)
            if a in WAITS:
                idx = wait_due("F" if a == "W" else "L")
                waited.add(idx)
                n_wait += 1
                ser.wait_timeouts(slowmap[idx][0])
            elif a == "F":
                out = fw.rx(ser.tx[base + consumed])
                ptag += tags(out, consumed)
                consumed += 1
                pending += out
                rep += [sim.reply_token(x) for x in out]
            elif a == "L":
                line = pending.pop(0)
                ptag.pop(0)
                ser.feed(line)
                dirty = True
                after_resend = line.startswith("Resend")
            else:
                if after_resend and pc.printing and ses.print_alive():
                    split = True
                s_open = True
                gate.wake(ses.print_alive)
                s_open = False
                dirty = False
    finally:
        ser.on_write = None
        if feed:
            feed.remove()
    if cb_error:
        if isinstance(cb_error[0], sim.StepTimeout):
            raise cb_error[0]
        raise core.Infra(f"early-reply callback failed: {cb_error[0]!r}")
    res.update(
        tx=list(ser.tx[base:]),
        bytes_ok=b"".join(ser.writes[wr_base:]) == "".join(t + "\n" for t in ser.tx[base:]).encode("latin-1"),
        acc=[c for _, c in fw.accepted],
        acc_n=[n for n, _ in fw.accepted],
        raw=list(fw.raw),
        rep=rep,
        trace="".join(trace),
        events=[list(e) for e in ser.events[ev_base:]],
        split=split,
        budget=budget,
        finished=(not pc.printing) and not ses.print_alive(),
        n_early=n_early,
        n_capped=n_capped,
        n_wait=n_wait,
        # nothing on the wire, no reply outstanding, the print thread parked in its poll - and the job not over
        stalled=(not budget) and bool(pc.printing) and ses.print_alive() and not res.get("error"),
        state=dict(
            printing=b01(pc.printing), clear=b01(pc.clear), lineno=pc.lineno, qi=pc.queueindex,
            rf=pc.resendfrom, exp=fw.expected,
        ),
        pend=(len(ser.tx) - base - consumed, len(pending)),
    )
    if feed:
        res.update(prio_fired=list(feed.fired), prio_unfired=feed.unfired(), prio_calls=dict(feed.calls))
    return res


def impl_run(case: dict) -> dict:
    """Drive the real printcore through the case's job under its policy (after the optional warm-up job
    on the same instance); returns the canonical record, the recorded schedule and what the oracle
    needs.  Never raises for a misbehaving sender."""
    logging.disable(logging.CRITICAL)
    rnd = random.Random(case["seed"])
    errs: list[str] = []
    res: dict = {"error": None}
    try:
        with sim.printcore_session(conn=case.get("conn"),
                                   read_timeout=SLOW_POLL if case.get("slow") else None) as ses:
            ses.core.errorcb = lambda e: errs.append(str(e))
            ses.gate.arm()
            if case.get("warmup"):
                w = stream_job(ses, case["warmup"], 1, [], "burst", rnd)
                if w.get("error") or w["budget"] or w["acc"] != job_commands(case["warmup"]):
                    res["error"] = "warm-up job on the same printcore did not complete: " + str(w.get("error") or w["acc"])
                    res["errors"] = []
                    return res
            res = stream_job(ses, case["job"], case["e0"], case["faults"], case["policy"], rnd, case.get("sched"),
                             case.get("early"), case.get("slow"), case.get("prio"))
    except sim.StepTimeout as e:
        res["error"] = f"hang: {e}"
    res["errors"] = [e for e in errs if "died" in e or "Can't" in e or "rubbish" in e]
    return res


def impl_record(r: dict) -> str:
    if r.get("error"):
        return "error " + r["error"]
    st = r["state"]
    return (
        f"tx={','.join(hexs(t) for t in r['tx'])} | acc={','.join(hexs(t) for t in r['acc'])} | "
        f"rep={','.join(r['rep'])} | "
        f"printing={st['printing']} clear={st['clear']} lineno={st['lineno']} qi={st['qi']} rf={st['rf']} exp={st['exp']} | "
        f"split={b01(r['split'])} | pend={r['pend'][0]},{r['pend'][1]} | quiet={b01(not r['budget'])} | stuck=-"
    )


def model_line(case: dict, trace: str) -> str:
    job = ";".join(hexs(l) for l in case["job"]) if case["job"] else "-"
    if case["job"] and job == "":
        job = "-"  # a single blank line: dropped by GCode.prepare anyway
    faults = ",".join(str(i) for i in sorted(case["faults"])) or "-"
    sched = "".join(a for a in trace if a not in WAITS)  # waiting is a stutter step of the model
    return f"e0={case['e0']} faults={faults} job={job} sched={sched or '-'}"


# ------------------------------------------------------------------ oracle (independent of the Lean model)
def oracle(case: dict, r: dict) -> list[tuple[str, str, dict]]:
    """C15 evaluated on what the implementation wrote and what the firmware accepted.
    Returns [(tag, message, info)]."""
    out = []
    if r.get("error"):
        return [("hang" if str(r["error"]).startswith("hang") else "harness", r["error"], {})]
    if r["errors"]:
        out.append(("crash", "printcore reported: " + r["errors"][0][:300], {}))
    want = job_commands(case["job"])
    tx = r["tx"]
    if not r.get("bytes_ok", True):
        out.append(("frame", "the bytes written are not exactly the transmitted lines, each terminated by one \\n", {}))
    # (1) every transmission is a well-formed frame; numbering consecutive from 0 after `M110 N-1`.
    #     What the sender transmits while it streams a job is the reset, the job's lines and retransmissions of
    #     them - "every non-comment line exactly once" leaves no room for anything else on the link.
    #     Commands the host queued with send_now() while the job was running (sub-run `prio`) are not job lines:
    #     they travel unnumbered, each exactly once; everything else on the link is judged as before.
    prio = r.get("prio_fired")  # None: nothing but the job was given to the sender
    owed = collections.Counter(prio or [])
    nxt, seen = 0, {}
    for i, t in enumerate(tx):
        m = sim.FRAME_RE.match(t)
        if not m and owed[t] > 0:
            owed[t] -= 1
            continue
        if not m and prio is not None and t in prio:
            out.append(("priority", f"transmission {i}: priority command {t!r} transmitted again (queued {prio.count(t)} "
                                    f"time(s) with send_now(), transmitted more often)", {}))
            break
        if not m:
            bare = t.strip()
            if bare == RESET or (nxt < len(want) and bare == want[nxt]) or bare in want[:nxt]:
                out.append(("frame", f"transmission {i} {t!r} is not N<k> <cmd>*<checksum>", {}))
            else:
                out.append(("unsolicited", f"transmission {i} {t!r} is neither a line of the job, nor a resend, nor the "
                                           f"M110 reset (and not N<k> <cmd>*<checksum>)", {}))
            break
        n, cmd, cs = int(m.group(1)), m.group(2), int(m.group(3))
        pre = t[: t.rindex("*")]
        if pre != f"N{n} {cmd}":
            out.append(("frame", f"transmission {i} {t!r}: non-canonical line number", {}))
            break
        if sim.xor_bytes(pre) != cs:
            out.append(("frame", f"transmission {i} {t!r}: checksum {cs} is not the XOR of {pre!r} ({sim.xor_bytes(pre)})", {}))
            break
        if cmd == RESET:
            if n != -1:
                out.append(("frame", f"transmission {i} {t!r}: reset not numbered -1", {}))
                break
            # the closing reset is the job's last transmission; priority commands still queued follow it
            tail_ok = i == len(tx) - 1 or (prio is not None and unnumbered(tx[i + 1:]) == len(tx) - i - 1)
            if i != 0 and not (tail_ok and r["finished"]):
                out.append(("frame", f"line-number reset written in the middle of the job (transmission {i})", {}))
                break
            continue
        if i == 0:
            out.append(("frame", f"the job does not start with the M110 N-1 reset but with {t!r}", {}))
            break
        if n == nxt:
            if nxt >= len(want) or cmd != want[nxt]:
                exp = want[nxt] if nxt < len(want) else None
                out.append(("frame", f"line number {n} carries {cmd!r}, the job's command {n} is {exp!r}", {}))
                break
            seen[n] = t
            nxt += 1
        elif 0 <= n < nxt:
            if t != seen[n]:
                out.append(("frame", f"retransmission of line {n} is {t!r}, originally {seen[n]!r}", {}))
                break
        else:
            out.append(("frame", f"transmission {i} numbered {n}, expected a number <= {nxt}", {}))
            break
    else:
        lost = sorted((+owed).elements())
        if lost and not r["budget"]:
            out.append(("priority", f"queued with send_now() while the job was running but never transmitted: {lost!r}", {}))
    # (2) a resend request makes transmission restart from the requested line
    if not any(tag in ("frame", "unsolicited", "priority") and "never transmitted" not in msg for tag, msg, _ in out):
        sent_new, pending_rs, last = 0, None, None
        for kind, line in r["events"]:
            if kind == "r":
                if line.startswith("Resend:"):
                    # the request overrides a resend run in progress; a line not yet sent (or a
                    # negative number) means: carry on with the next new line
                    n = int(line.split(":")[1])
                    pending_rs = n if 0 <= n < sent_new else sent_new
            else:
                m = sim.FRAME_RE.match(line)
                if m is None:
                    continue  # a priority command (checked above): not a line of the job, no claim about its place
                n, cmd = int(m.group(1)), m.group(2)
                if cmd == RESET:
                    last, pending_rs = None, None
                    continue
                if pending_rs is not None:
                    if n != pending_rs:
                        out.append(("resend", f"after a resend request the next transmission is line {n}, not line {pending_rs}", {}))
                        break
                    pending_rs = None
                elif last is not None and n != last + 1:
                    out.append(("resend", f"line {n} transmitted right after line {last} without a resend request "
                                          f"(unsolicited retransmission)", {}))
                    break
                last = n
                sent_new = max(sent_new, n + 1)
    # (3) accepted log: safety always, completeness once nothing more can happen
    acc = r["acc"]
    info = dict(split=r["split"], finished=r["finished"], acc=acc, want=want)
    stray = sorted((collections.Counter(r["raw"]) - collections.Counter(prio or [])).elements())
    if stray:
        out.append(("frame", f"the firmware received unnumbered lines {stray[:3]!r} during the job", {}))
    if r["budget"]:
        out.append(("budget", f"no quiescent state within {BUDGET} schedule actions", info))
    elif acc != want and r.get("stalled"):
        # completeness: every reply the firmware owed has been delivered and processed, the sender is
        # still "printing" and waits for an acknowledgement that cannot come any more
        out.append(("stall", f"job stalled: lines accepted so far {acc!r} ({len(acc)} of {len(want)} commands), the sender "
                             f"still waits for an acknowledgement although every reply has been delivered; "
                             f"last transmission {tx[-1] if tx else None!r}; expected {want!r}", info))
    elif acc != want:
        pre = acc == want[: len(acc)]
        info["lost"] = "suffix" if pre and len(acc) < len(want) else "other"
        # by line number, not by text: the job may contain the same command twice
        info["first_skipped"] = bool(want) and 0 not in r["acc_n"]
        what = (
            f"lines {len(acc)}..{len(want) - 1} never accepted" if pre
            else f"accepted {acc!r}"
        )
        out.append(("complete", f"firmware accepted {len(acc)} of {len(want)} commands: {what}; expected {want!r}", info))
    return out


# ------------------------------------------------------------------ known findings
def pred_reset_corrupted(fl: dict) -> bool:
    """fault set contains the reset's transmission index, e0 != 0, line N0 never accepted"""
    c = fl.get("case") or {}
    return (
        fl.get("tag") == "complete"
        and 0 in c.get("faults", [])
        and c.get("e0", 0) != 0
        and bool(fl.get("first_skipped"))
    )


def pred_tail_loss(fl: dict) -> bool:
    """SplitTriple occurred in the schedule, the sender ended the job normally, lost lines = a suffix"""
    return (
        fl.get("tag") == "complete"
        and bool(fl.get("split"))
        and bool(fl.get("finished"))
        and fl.get("lost") == "suffix"
    )


FINDING_PREDICATES = {"C15-reset-corrupted": pred_reset_corrupted, "C15-tail-loss-split-triple": pred_tail_loss}

# the Lean counter-examples of Props/C15.lean (same job, fault set, e0 and schedule)
W_TAIL = dict(job=["G1 X0", "G1 X1", "G1 X2"], faults=[3, 4], e0=1, policy="eager", seed=0,
              sched="FLSFLSFLSFLSLSLSFLSLSLSFLS")
W_RESET = dict(job=["G1 X0", "G1 X1", "G1 X2"], faults=[0], e0=1, policy="burst", seed=0,
               sched="FLLLSFLLLSFLSFLSFLS")


def _witness(case, pred):
    def w():
        last = ""
        for _ in range(3):
            r = impl_run(case)
            fails = [
                dict(case=case_repr(case), tag=tag, message=msg, **info)
                for tag, msg, info in oracle(case, r)
            ]
            hit = [f for f in fails if pred(f)]
            if hit:
                return True, hit[0]["message"]
            last = "; ".join(f["message"] for f in fails) or "oracle satisfied"
        return False, last

    return w


WITNESSES = {
    "C15-reset-corrupted": _witness(W_RESET, pred_reset_corrupted),
    "C15-tail-loss-split-triple": _witness(W_TAIL, pred_tail_loss),
}


# ------------------------------------------------------------------ generation
def gen_line(rng: random.Random, k: int) -> str:
    a, b = rng.randint(0, 40), rng.randint(0, 40)
    kind = rng.random()
    if kind < 0.55:
        cmd = rng.choice([
            f"G1 X{a} Y{b}", f"G1 X{a} Y{b} E{k}.5", f"G1 X{a}", f"G0 Z0.{1 + k % 8}", "M105", "G28",
            "G92 E0", f"M104 S{180 + a}", f"G4 P{a}", "M82", f"g1 x{a} y{b}", f"G1 X{a} Y{b} F1200",
            f"T{k % 2}", "M117 a*b", f"G1 X{a} /2", f"G1 X{a} )", f"G1 (x) X{a} (y) Y{b}", f"G1 X{a} (open",
            f"G1 X{a}  Y{b}", "M114",
        ])
        r = rng.random()
        if r < 0.25:
            cmd += rng.choice([" ; comment", ";c", " (inline)", " ; has (parens) and ;", " ; M110 N7", "\t; tab"])
        if rng.random() < 0.2:
            cmd = rng.choice([" ", "  ", "\t"]) + cmd + rng.choice(["", " ", "\t "])
        return cmd
    if kind < 0.75:
        return rng.choice(["; only a comment", "(only)", ";", " ; indented", "( a ) ; b", "; M110 N5", "(M110 N3)", "()", ";;"])
    if kind < 0.85:
        return rng.choice([";@home", "  ;@wait", ";@", ";@beep now"])
    if kind < 0.93:
        return rng.choice(["", " ", "\t", "   "])
    return rng.choice(["G1 X1", "G1 X1", "M105"])  # exact duplicates: "each once" is positional


def gen_case(rng: random.Random, policies=None) -> dict:
    L = rng.choice([0, 1, 2, 3, 3, 4, 5, 6, 8, 10, 12])
    job = [gen_line(rng, k) for k in range(L)]
    ncmd = len(job_commands(job))
    span = ncmd + 7
    k = rng.choice([0, 0, 1, 1, 1, 2, 2, 2, 3, 3, 4])
    faults: set[int] = set()
    style = rng.random()
    while len(faults) < k:
        if style < 0.4:  # a run of consecutive indices: a line corrupted again when it is resent
            s = rng.randint(1, max(1, span - 1))
            faults.update(range(s, min(span, s + k)))
        elif style < 0.65:  # around the end of the job
            faults.add(rng.randint(max(1, ncmd - 1), ncmd + 4))
        else:
            faults.add(rng.randint(1, span))
        while len(faults) > k:
            faults.pop()
    if rng.random() < 0.08:
        faults.add(0)
    e0 = rng.choice([1, 1, 1, 1, 0, 0, 2, 5])
    pol = rng.choice(policies or ["eager", "burst", "random", "random", "mixed", "bursty", "fwfirst", "lagfw"])
    c = dict(job=job, faults=sorted(faults), e0=e0, policy=pol, seed=rng.randrange(1 << 30))
    if rng.random() < 0.3:  # a second job on the same printcore: startprint must start numbering afresh
        c["warmup"] = [f"G1 X{i}" for i in range(rng.randint(1, 3))] + rng.choice([[], ["; end"]])
    if rng.random() < EARLY_SHARE:
        c["early"] = gen_early(rng, span)
    conn = gen_conn(rng)
    if conn:
        c["conn"] = conn
    if rng.random() < SLOW_SHARE:
        c["slow"] = gen_slow(rng, ncmd, c["faults"])
    return c


CONN_SHARE = 0.6
PORTS = ["/dev/fake", "/dev/ttyUSB0", "/dev/ttyACM1", "COM3", "/dev/serial/by-id/usb-1a86:7523", "/dev/tty.usbmodem1411"]
BAUDS = [115200, 250000, 57600, 9600, 1000000]


def gen_conn(rng: random.Random) -> dict | None:
    """connection options: everything printcore.connect / the constructor accept for a serial port
    (None = the plain `printcore().connect("/dev/fake", 115200)`)"""
    if rng.random() >= CONN_SHARE:
        return None
    conn = dict(port=rng.choice(PORTS), baud=rng.choice(BAUDS), dtr=rng.choice([None, False, True, True]),
                how=rng.choice(["connect", "connect", "connect", "ctor", "split", "reconnect"]))
    if conn["how"] == "reconnect":
        conn["first_dtr"] = rng.choice([None, False, True])
    return conn


SLOW_SHARE = 0.1
SLOW_K = [3, 9, 9, 12, 17, 33]  # read time-outs of silence


def gen_slow(rng: random.Random, ncmd: int, faults: list[int]) -> list[list]:
    """1-2 transmissions whose reply takes several read time-outs: anywhere in the job (the reset
    included), or next to / on a corrupted transmission; silence before the device reads the line
    (`exec`) or before the last line of its reply (`ack`)"""
    out: dict[int, list] = {}
    for _ in range(rng.choice([1, 1, 2])):
        r = rng.random()
        if faults and r < 0.4:
            i = max(0, rng.choice(faults) + rng.choice([-1, 0, 0, 1]))
        elif r < 0.7:
            i = rng.randint(0, min(2, ncmd))  # early in the job: the rest of it runs after the silence
        else:
            i = rng.randint(0, ncmd + 2)
        out[i] = [i, rng.choice(SLOW_K), rng.choice(["exec", "exec", "ack"])]
    return [out[i] for i in sorted(out)]


EARLY_SHARE = 0.35
EARLY_K = [1, 1, 2, 3, 3]


def gen_early(rng: random.Random, span: int) -> list[int]:
    """cyclic pattern over transmission indices: how many of a line's reply lines (`ok`, or up to the
    whole `Error` / `Resend:` / `ok` triple) the listener has consumed when write() returns"""
    style = rng.random()
    if style < 0.3:  # a device that always answers faster than write() returns
        return [rng.choice([1, 3])]
    if style < 0.75:  # some lines of the job
        pat = [rng.choice([0, 0] + EARLY_K) for _ in range(rng.randint(2, 2 * span))]
    else:  # one line (recurring with the pattern's period)
        pat = [0] * rng.randint(2, 2 * span)
    if not any(pat):
        pat[rng.randrange(len(pat))] = rng.choice(EARLY_K)
    return pat


PRIO_CMDS = ["M105", "M114", "M117 Layer {a}", "M117 {a}%", "M108", "M220 S{a}", "M221 S9{b}", "M106 S{a}", "M107", "M27",
             "M73 P{a}", "M104 S2{a}", "M140 S6{b}", "M155 S{b}", "M105", "M400"]


def gen_prio_job(rng: random.Random) -> list[str]:
    """a small print: layers (a Z move, then extruding moves - what makes the sender announce a layer change),
    now and then a comment, a blank or a host line in between, a short tail"""
    job = rng.choice([[], ["G28"], ["G28 ; home", "G92 E0"], ["; generated", "M82"]])
    e, z = 0, 0
    for _ in range(rng.randint(2, 4)):
        z += 2
        job.append(rng.choice([f"G1 Z0.{z}", f"G1 Z0.{z} F600", f"G0 Z0.{z} ; layer"]))
        for _ in range(rng.randint(1, 3)):
            e += 1
            job.append(f"G1 X{rng.randint(0, 40)} Y{rng.randint(0, 40)} E{e}")
            if rng.random() < 0.15:
                job.append(rng.choice(["; perimeter", "", "(infill)", ";@beep", "M105"]))
    return job + rng.choice([[], ["M104 S0"], ["M104 S0", "M84"], ["M84"], ["G1 X0 Y0", "M84 ; off"]])


def gen_prio_case(rng: random.Random, policies=None) -> dict:
    """a job during which the host queues 1-2 bursts of 2-4 send_now() commands, with corrupted transmissions
    placed with respect to what then follows on the link: mostly the last job line (on its first transmission,
    also again when it is resent), a line in the middle as well, none, or anywhere"""
    if rng.random() < 0.7:
        job = gen_prio_job(rng)
    else:
        job = [gen_line(rng, k) for k in range(rng.choice([3, 4, 5, 6, 8]))]
    ncmd = len(job_commands(job))
    prio = []
    for _ in range(rng.choice([1, 1, 1, 2])):
        via = rng.choice(["harness", "harness", "printsendcb", "sendcb", "layerchangecb"])
        if via == "harness":  # lines written since startprint (1 = the reset only)
            at = rng.randint(1, max(1, ncmd))
        elif via == "layerchangecb":
            at = rng.choice([1, 1, 2])
        elif via == "sendcb":
            # call 1 is the reset, written by the caller of startprint() while the send thread of the idle sender is
            # still alive: it would take the command and wait for the reset's `ok` with the print thread waiting for
            # it in turn - a state the stepped schedule (print thread parked in its poll) cannot express (and see
            # PRIO_AT_STARTPRINT: the free-running sub-run shows what that send thread then does to the job)
            at = rng.randint(2, max(2, ncmd))
        else:
            at = rng.randint(1, max(1, ncmd - 1))
        cmds = [rng.choice(PRIO_CMDS).format(a=rng.randint(0, 99), b=rng.randint(0, 9)) for _ in range(rng.choice([2, 2, 3, 4]))]
        prio.append([via, at, cmds])
    npri = sum(len(b[2]) for b in prio)
    last = ncmd + npri  # first transmission of the last job line when every burst went out before it
    style = rng.random()
    if style < 0.45:
        faults = {last}
    elif style < 0.6:
        faults = {last, last + 1}
    elif style < 0.75:  # a line in the middle (its resend shifts what follows by one), and the last line
        faults = {rng.randint(1, max(1, last - 1)), last + 1}
    elif style < 0.85:
        faults = set()
    else:
        faults = {rng.randint(1, last + 3) for _ in range(rng.randint(1, 3))}
    pol = rng.choice(policies or ["eager", "burst", "random", "random", "mixed", "bursty", "fwfirst", "lagfw"])
    c = dict(job=job, faults=sorted(faults), e0=rng.choice([1, 1, 1, 0, 2, 5]), policy=pol, seed=rng.randrange(1 << 30),
             prio=prio)
    if rng.random() < 0.25:
        c["early"] = gen_early(rng, last + 4)
    conn = gen_conn(rng)
    if conn:
        c["conn"] = conn
    return c


def case_repr(c: dict, trace: str | None = None) -> dict:
    d = dict(job=c["job"], faults=sorted(c["faults"]), e0=c["e0"], policy=c["policy"], seed=c["seed"])
    if c.get("warmup"):
        d["warmup"] = c["warmup"]
    if c.get("early"):
        d["early"] = list(c["early"])
    if c.get("conn"):
        d["conn"] = dict(c["conn"])
    if c.get("slow"):
        d["slow"] = [list(x) for x in c["slow"]]
    if c.get("prio"):
        d["prio"] = [[v, a, list(cmds)] for v, a, cmds in c["prio"]]
    if trace is not None:
        d["sched"] = trace
    elif c.get("sched") is not None:
        d["sched"] = c["sched"]
    return d


def exhaustive_cases():
    """all fault subsets of size <= 3 over the first 10 transmissions of a 4-line job
    x 3 latency profiles (sender faster than replies / whole replies / firmware first) x e0 in {0, 1}"""
    job = ["G1 X0", "G1 X1 ; c", "; skip", "G1 X2", "G1 X3"]
    for e0 in (0, 1):
        for pol in ("eager", "burst", "fwfirst"):
            for k in range(4):
                for fs in itertools.combinations(range(10), k):
                    yield dict(job=job, faults=list(fs), e0=e0, policy=pol, seed=0)


# ------------------------------------------------------------------ running batches
def _init_worker():
    logging.disable(logging.CRITICAL)


class Pool:
    def __init__(self):
        n = int(os.environ.get("VERIF_JOBS", "0")) or max(2, min(14, (os.cpu_count() or 4) - 2))
        self.pool = mp.get_context("fork").Pool(n, initializer=_init_worker)

    def map(self, fn, items):
        return self.pool.map(fn, items, chunksize=1)

    def close(self):
        self.pool.terminate()
        self.pool.join()


def run_batch(R: core.Run, pool: Pool, cases: list[dict], label: str, compare: bool = True):
    results = pool.map(impl_run, cases)
    model: dict[int, str] = {}

    def bad(i):
        r = results[i]
        if r.get("error"):
            return str(r["error"]).startswith("hang")
        return compare and impl_record(r) != model.get(i)

    def run_model_for(idx):
        idx = [i for i in idx if not results[i].get("error")]
        if compare and idx:
            out = core.run_model("sender", [model_line(cases[i], results[i]["trace"]) for i in idx])
            model.update(zip(idx, out))

    run_model_for(range(len(cases)))
    for attempt in range(3):  # real threads: a hanging or disagreeing case is re-run before it counts
        todo = [i for i in range(len(cases)) if bad(i)]
        if not todo:
            break
        R.count(*["retry:" + ("hang" if results[i].get("error") else "disagree") for i in todo])
        for i, r in zip(todo, pool.map(impl_run, [cases[i] for i in todo])):
            results[i] = r
        run_model_for(todo)
    if compare:
        for i, r in enumerate(results):
            if not r.get("error") and impl_record(r) != model[i]:
                R.disagree("sender-run", case_repr(cases[i], r["trace"]), impl_record(r), model[i])
    for c, r in zip(cases, results):
        judge(R, c, r, label, validated=compare and not r.get("error"))
    return results


def judge(R: core.Run, c: dict, r: dict, label: str, validated: bool = True):
    want = job_commands(c["job"])
    cr = case_repr(c, r.get("trace"))
    skips = len([l for l in c["job"] if l.strip()]) - len(want)
    R.case(cr, nontrivial=len(want) >= 2 and (bool(c["faults"]) or skips > 0), validated=validated)
    fails = oracle(c, r)
    R.count(
        label, f"policy:{c['policy']}", f"faults:{min(len(c['faults']), 4)}", f"cmds:{min(len(want) // 3 * 3, 9)}+",
        f"e0:{c['e0']}", "split" if r.get("split") else "nosplit", "second-job" if c.get("warmup") else "first-job",
        "reset-corrupted" if 0 in c["faults"] else "reset-intact",
        "complete" if not fails else "fails:" + fails[0][0],
    )
    if c.get("early"):
        R.count("early-schedule", f"early-answered-lines:{min(r.get('n_early', 0), 6)}")
        if r.get("n_capped"):
            R.count("early:capped(Resend during a retransmission delivered after write() returned)")
    else:
        R.count("no-early-schedule")
    conn = c.get("conn")
    R.count(f"conn:{conn['how']}" if conn else "conn:default", f"dtr:{conn['dtr'] if conn else None}")
    if c.get("slow"):
        R.count("slow-reply", f"slow-reply:waits-realised:{r.get('n_wait', 0)}",
                *[f"slow-reply:{w}:{'>=9' if k >= 9 else '<9'} time-outs" for _, k, w in c["slow"]])
    if r.get("rep"):
        R.count(f"resend-requests:{min(sum(1 for x in r['rep'] if x.startswith('r')), 5)}")
    if c.get("prio"):
        count_prio(R, c, r)
    record_failures(R, cr, fails)


def count_prio(R: core.Run, c: dict, r: dict):
    tx = r.get("tx") or []
    R.count("prio-cases", *[f"prio:via:{v}" for v, _, _ in c["prio"]], *[f"prio:burst-of:{len(cmds)}" for _, _, cmds in c["prio"]],
            f"prio:bursts-not-queued(callback never ran that often):{r.get('prio_unfired', '?')}",
            f"prio:commands-transmitted:{min(unnumbered(tx), 8)}")
    resets = [i for i, t in enumerate(tx) if i and sim.FRAME_RE.match(t) and sim.FRAME_RE.match(t).group(2) == RESET]
    if resets and unnumbered(tx[resets[-1]:]):
        R.count("prio:some-sent-after-the-job(send thread)")
    if r.get("prio_held"):
        R.count("prio:burst-held-until-the-print-thread-took-over")


def record_failures(R: core.Run, cr: dict, fails):
    """every unlisted failure is recorded; failures matching a known finding only up to 60 per finding
    (core keeps at most 200 failures - known ones must never crowd out a new one)"""
    for tag, msg, info in fails:
        fl = dict(case=cr, tag=tag, message=msg, **info)
        hit = next((k for k, p in FINDING_PREDICATES.items() if p(fl)), None)
        if hit:
            R.count("known:" + hit)
            if R.dist["known:" + hit] > 60:
                continue
        R.fail(cr, msg, tag=tag, **info)


# ------------------------------------------------------------------ free-running (timed) sub-run: oracle only
class _TimedFirmware:
    """firmware twin behind a thread: `latency` before looking at a line, `gap` between `Resend:` and `ok`;
    `slow` = [[transmission index, k, where]]: k read time-outs of silence before that line is read
    (`exec`) or before the last line of its reply (`ack`)"""

    def __init__(self, ser, fw: sim.FirmwareTwin, latency: float, gap: float, slow=None):
        self.ser, self.fw, self.latency, self.gap = ser, fw, latency, gap
        self.slow = {int(i): (int(k), str(w)) for i, k, w in (slow or [])}
        self.q: list[str] = []
        self.cv = threading.Condition()
        self.stop = False
        self.busy = 0
        self.t = threading.Thread(target=self._run, daemon=True)
        self.t.start()

    def on_write(self, line):
        with self.cv:
            self.q.append(line)
            self.busy += 1
            self.cv.notify_all()

    def _run(self):
        while True:
            with self.cv:
                while not self.q and not self.stop:
                    self.cv.wait(0.05)
                if self.stop:
                    return
                line = self.q.pop(0)
            if self.latency:
                time.sleep(self.latency)
            k, where = self.slow.get(self.fw.idx, (0, ""))
            if where == "exec":
                self.silence(k)
            prev = ""
            out = self.fw.rx(line)
            for j, rep in enumerate(out):
                if rep == "ok" and prev.startswith("Resend") and self.gap:
                    time.sleep(self.gap)
                if where == "ack" and j == len(out) - 1:
                    self.silence(k)
                prev = rep
                self.ser.push(rep)
            with self.cv:
                self.busy -= 1


    def silence(self, k: int):
        """until the reader has run into k further read time-outs (bounded: it may have stopped reading)"""
        try:
            self.ser.wait_timeouts(k, 2.0 + 3 * k * self.ser.poll)
        except sim.StepTimeout:
            pass


class _InWriteFirmware:
    """firmware twin answering inside write(): its replies have been consumed by the listener when
    write() returns (free-running counterpart of the step mode's `early` schedules)"""

    def __init__(self, ser, fw: sim.FirmwareTwin):
        self.ser, self.fw = ser, fw
        self.cv = threading.Condition()
        self.stop = False
        self.busy = 0
        self.seen: set[str] = set()
        self.error = None

    def on_write(self, line):
        out = self.fw.rx(line)
        k = len(out)
        if line in self.seen and not EARLY_RESEND_IN_RETRANSMISSION:
            k = next((j for j, x in enumerate(out) if x.startswith("Resend")), k)
        if not line.startswith("N-1 "):
            self.seen.add(line)
        try:
            for x in out[:k]:
                self.ser.feed(x)
        except sim.StepTimeout as e:
            self.error = e
        if out[k:]:
            with self.cv:
                self.busy += 1
            threading.Timer(0.005, self._late, (out[k:],)).start()

    def _late(self, rest):
        for x in rest:
            self.ser.push(x)
        with self.cv:
            self.busy -= 1


STALL_WAIT = 1.0  # s without any transmission or reply while the sender is "printing" and everything is idle


def timed_run(case: dict) -> dict:
    """printcore free-running against a firmware thread; the interleaving of the sender's and the
    listener's steps is observed through a `clear` property (instance-level probe, no source hook)."""
    from gscrib.printrun import gcoder

    logging.disable(logging.CRITICAL)
    errs: list[str] = []
    res: dict = {"error": None}
    log: list[tuple] = []
    lock = threading.Lock()

    def factory(pc_mod):
        class Probe(pc_mod.printcore):
            def _get(self):
                return self.__dict__.get("_clear", 0)

            def _set(self, v):
                with lock:
                    log.append(("clear", threading.current_thread().name, bool(v)))
                self.__dict__["_clear"] = v

            clear = property(_get, _set)

        return sim.open_connection(pc_mod, case.get("conn"), cls=Probe)

    try:
        with sim.printcore_session(factory=factory, read_timeout=SLOW_POLL if case.get("slow") else None) as ses:
            pc, ser = ses.core, ses.ser
            pc.errorcb = lambda e: errs.append(str(e))

            def recv(line):
                with lock:
                    log.append(("recv", line.strip()))

            pc.recvcb = recv
            time.sleep(0.02)
            base, ev_base = len(ser.tx), len(ser.events)
            del log[:]
            fw = sim.FirmwareTwin(case["e0"], case["faults"])
            if case["latency"] < 0:
                tf = _InWriteFirmware(ser, fw)
            else:
                tf = _TimedFirmware(ser, fw, case["latency"], case["gap"], case.get("slow"))
            ser.on_write = tf.on_write
            cb_error: list[BaseException] = []
            feed = PrioFeed(pc, case["prio"], cb_error) if case.get("prio") else None
            if feed:
                feed.install()
            if not pc.startprint(gcoder.GCode(list(case["job"]))):
                raise core.Infra("startprint refused (not online?)")
            end = time.monotonic() + 6
            quiet_since = None
            budget, stalled = True, False
            taken_over, held = PRIO_AT_STARTPRINT, False
            progress, progress_at = None, time.monotonic()
            storm = 60 + 12 * len(case["job"])  # far more transmissions than any terminating run needs
            while time.monotonic() < end and len(ser.tx) - base < storm:
                if feed:
                    # from the harness thread, whatever the sender is doing just now - but (see PRIO_AT_STARTPRINT)
                    # not before the print thread has stopped the send thread of the idle sender
                    st = pc.send_thread
                    taken_over = taken_over or st is None or not st.is_alive()
                    if taken_over:
                        feed.poll(len(ser.tx) - base)
                    elif feed.unfired() and not held and any(v == "harness" and len(ser.tx) - base >= a for v, a, _ in feed.bursts):
                        held = True
                drained = tf.busy == 0 and ser.rxq.empty()
                idle = (not pc.printing) and pc.print_thread is None and drained
                if idle:
                    quiet_since = quiet_since or time.monotonic()
                    # priority commands still queued when the job ends go out through the send thread
                    owed = bool(feed) and unnumbered(ser.tx[base:]) < len(feed.fired)
                    if time.monotonic() - quiet_since > (SEND_THREAD_WAIT if owed else 0.1):
                        budget = False
                        break
                else:
                    quiet_since = None
                # bounded wait for a stalled job: the firmware owes nothing, the sender is still
                # "printing", and neither a transmission nor a reply has happened for STALL_WAIT
                now = (len(ser.tx), ser.delivered)
                if now != progress or not drained or not pc.printing:
                    progress, progress_at = now, time.monotonic()
                elif time.monotonic() - progress_at > STALL_WAIT:
                    budget, stalled = False, True
                    break
                time.sleep(0.005)
            ser.on_write = None
            if feed:
                feed.remove()
                if cb_error:
                    raise core.Infra(f"priority-burst callback failed: {cb_error[0]!r}")
            if getattr(tf, "error", None):
                raise tf.error
            with tf.cv:
                tf.stop = True
                tf.cv.notify_all()
            # SplitTriple: a print-thread `clear = False` between the listener's `clear = True` for a
            # `Resend:` line and its `clear = True` for the next line
            split, armed = False, False
            last_recv = ""
            for e in list(log):
                if e[0] == "recv":
                    last_recv = e[1]
                elif e[1] == "read thread" and e[2]:
                    armed = last_recv.lower().startswith("resend")
                elif e[1] == "print thread" and not e[2] and armed:
                    split = True
            res.update(
                tx=list(ser.tx[base:]), acc=[c for _, c in fw.accepted], acc_n=[n for n, _ in fw.accepted],
                raw=list(fw.raw), rep=[],
                events=[list(e) for e in ser.events[ev_base:]], split=split, budget=budget,
                finished=(not pc.printing) and pc.print_thread is None, trace="", stalled=stalled,
            )
            if feed:
                res.update(prio_fired=list(feed.fired), prio_unfired=feed.unfired(), prio_calls=dict(feed.calls), prio_held=held)
    except sim.StepTimeout as e:
        res["error"] = f"hang: {e}"
    res["errors"] = [e for e in errs if "died" in e or "Can't" in e or "rubbish" in e]
    return res


# latency < 0: the reply is consumed by the listener before write() returns (`_InWriteFirmware`)
# `slowcmd`: some command keeps the device silent for several read time-outs, replies 2 ms apart otherwise
PRIO_LATENCIES = [("slow", 0.004, 0.0), ("slower", 0.008, 0.0), ("gap", 0.002, 0.02)]
LATENCIES = [("fast", 0.0, 0.0), ("slow", 0.004, 0.0), ("gap", 0.002, 0.02), ("inwrite", -1.0, 0.0),
             ("slowcmd", 0.002, 0.0)]


def timed_oracle(case, r):
    """the resend clause needs the step-exact event order (a write may overtake the logging of a
    reply in free-running mode), so only the frame, safety and completeness clauses are judged"""
    return [(t, m, i) for t, m, i in oracle(case, r) if t not in ("resend", "budget")]


def run_timed(R: core.Run, pool: Pool, n: int, n_prio: int = 0):
    cases = []
    for k in range(n + n_prio):
        # the last n_prio cases: bursts of priority commands against a device that takes its time per line
        c = gen_case(R.rng) if k < n else gen_prio_case(R.rng)
        name, lat, gap = LATENCIES[k % len(LATENCIES)] if k < n else PRIO_LATENCIES[k % len(PRIO_LATENCIES)]
        c.update(policy="timed-" + name, latency=lat, gap=gap)
        c.pop("early", None)  # step-mode dimension; its free-running counterpart is the `inwrite` profile
        if name == "slowcmd":
            if not c.get("slow"):
                c["slow"] = gen_slow(R.rng, len(job_commands(c["job"])), c["faults"])
        else:
            c.pop("slow", None)
        if len(c["job"]) > 8 and k < n:
            c["job"] = c["job"][:8]
        cases.append(c)
    results = pool.map(timed_run, cases)
    verdicts = [timed_oracle(c, r) for c, r in zip(cases, results)]
    for _ in range(2):  # real threads: a failure must repeat to count
        todo = [i for i, f in enumerate(verdicts) if f]
        if not todo:
            break
        for i, r in zip(todo, pool.map(timed_run, [cases[i] for i in todo])):
            results[i], verdicts[i] = r, timed_oracle(cases[i], r)
            if not verdicts[i]:
                R.count("retry:timed-cleared")
    for c, r, fails in zip(cases, results, verdicts):
        cr = case_repr(c)
        cr.update(latency=c["latency"], gap=c["gap"])
        R.case(cr, nontrivial=len(job_commands(c["job"])) >= 2 and bool(c["faults"]), validated=False)
        if r.get("budget"):
            R.count("timed-inconclusive(no quiescence before the wall-clock deadline)")
        R.count("timed", c["policy"], "timed-split" if r.get("split") else "timed-nosplit",
                "timed-complete" if not fails else "timed-fails:" + fails[0][0])
        if c.get("prio"):
            R.count("timed-prio")
            count_prio(R, c, r)
        record_failures(R, cr, fails)


# ------------------------------------------------------------------ the check
CORPUS = [
    W_TAIL,
    W_RESET,
    dict(job=[], faults=[], e0=1, policy="eager", seed=1),
    dict(job=["; nothing", "", ";@home"], faults=[], e0=1, policy="eager", seed=1),
    dict(job=["G1 X0", "G1 X1", "G1 X2"], faults=[3, 4], e0=1, policy="burst", seed=1),
    dict(job=["G1 X0", "G1 X1", "G1 X2"], faults=[0], e0=0, policy="eager", seed=1),
    dict(job=["G1 X0 ; a", "(c)", "G1 X1 (b) Y2", "  ;@home", "G1 X2*3", "G1 X2*3"], faults=[2, 3, 5], e0=1, policy="random", seed=5),
    dict(job=["G1 X%d" % i for i in range(12)], faults=[1, 2, 6, 13], e0=1, policy="mixed", seed=9),
    dict(job=["G1 X0", "G1 X1"], faults=[2], e0=0, policy="burst", seed=3, warmup=["G1 X5", "G1 X6", "G1 X7"]),
    dict(job=["G1 X1 Y1 E1", "G1 Z0.2", "G1 X2 Y2 E2", "G1 Z0.4", "G1 X3 Y3 E3"], faults=[2], e0=1, policy="eager", seed=2),
    # fast device / slow host: replies consumed by the listener before write() returns
    dict(job=["G1 X0", "G1 X1", "G1 X2"], faults=[], e0=1, policy="burst", seed=1, early=[1]),
    dict(job=["G1 X0", "; c", "G1 X1", "G1 X2"], faults=[2], e0=1, policy="eager", seed=2, early=[0, 0, 3, 1]),
    dict(job=["G1 X0", "G1 X1"], faults=[3], e0=0, policy="lagfw", seed=3, early=[0, 1], warmup=["G1 X5", "G1 X6"]),
    # connection options: the framing and the resend path do not depend on how the port was opened
    dict(job=["G28", "G1 X1", "G1 X2 ; c", "M84"], faults=[2], e0=1, policy="burst", seed=4,
         conn=dict(port="/dev/ttyUSB0", baud=250000, dtr=True, how="connect")),
    dict(job=["G1 X0", "G1 X1"], faults=[], e0=0, policy="eager", seed=4,
         conn=dict(port="COM3", baud=57600, dtr=False, how="reconnect", first_dtr=True)),
    # a command that takes long (silence for many read time-outs), then a damaged last line
    dict(job=["G28", "G1 X1", "G1 X2", "M84"], faults=[4], e0=1, policy="burst", seed=4, slow=[[1, 12, "exec"]]),
]

# priority commands queued in bursts while the job is streamed (oracle only: the model has no priority queue)
CORPUS_PRIO = [
    # a host showing progress: two commands on every layer change; the last line damaged on the wire
    dict(job=["G1 Z0.2", "G1 X10 Y0 E1", "G1 X10 Y10 E2", "G1 Z0.4", "G1 X0 Y10 E3", "G1 X0 Y0 E4", "M84"],
         faults=[9], e0=1, policy="burst", seed=6, prio=[["layerchangecb", 1, ["M117 Layer 1", "M105"]]]),
    # three commands queued by the caller between two acknowledgements, a middle line and the last one damaged
    dict(job=["G28", "G1 X1", "G1 X2 ; c", "G1 X3", "M84"], faults=[3, 9], e0=1, policy="eager", seed=7,
         prio=[["harness", 2, ["M105", "M114", "M105"]]]),
    # queued while the last line is in flight: whatever is left goes out after the job
    dict(job=["G1 X0", "G1 X1", "G1 X2"], faults=[], e0=0, policy="lagfw", seed=8,
         prio=[["printsendcb", 3, ["M400", "M105"]], ["sendcb", 2, ["M27", "M73 P1"]]]),
]


def run(R: core.Run):
    R.rule = (
        "random jobs of 0-12 raw lines (commands, trailing/parenthesised comments, comment-only, blank, host lines, "
        "duplicates, '*' and '/' inside commands) x fault sets of 0-4 transmission indices (runs of consecutive indices, "
        "indices around the end of the job, the reset itself in 8%) x e0 in {0,1,2,5} x 8 schedule policies "
        "x (in 35%) a cyclic pattern of transmissions whose first 1-3 reply lines are consumed by the listener before "
        "the port's write() returns (every line / some lines / one line) "
        "x connection options (in 60%: 6 port names, 5 baud rates, dtr None/False/True, opened by connect / the "
        "constructor / two connect calls / a reconnect) x (in 10%, and in the free-running `slowcmd` profile) 1-2 "
        "transmissions whose reply is preceded by 3-33 read time-outs of silence; "
        "sub-run `prio` (not sent to the model): print-like jobs with layer changes (70%) or random jobs, 1-2 bursts of 2-4 "
        "send_now() commands queued at one moment - by the harness between two acknowledgements or from sendcb / printsendcb / "
        "layerchangecb inside the print thread - x faults on the last job line's first transmission (45%), on it and its resend "
        "(15%), on a middle line and the last (15%), none (10%), anywhere (15%) x the 8 policies x early patterns (25%) x "
        "connection options; free-running with 4 / 8 ms per line and a Resend-ok gap; "
        "non-trivial = at least 2 commands and (a fault or a skipped line); distinct by hash of (job, faults, e0, schedule)"
    )
    R.assumptions = [
        "job lines contain no M110 of their own and no ';@pause' host command; the priority queue stays empty while printing "
        "except in the `prio` sub-runs (bursts of send_now() commands: real sender + oracle only, the Lean model has no "
        "priority queue) - there the commands must each be transmitted once, unnumbered, and the job clauses apply to the "
        "job lines; the firmware twin cannot detect damage to an unnumbered line (a fault index falling on one has no effect); "
        "no burst is queued between startprint() returning and the print thread having stopped the idle sender's send "
        "thread (C15_PRIO_AT_STARTPRINT=1 generates that in the free-running sub-run)",
        "a corrupted transmission is always detected by the firmware (checksum mismatch); replies are never corrupted or lost",
        "firmware = Marlin-style twin (harness/sim_serial.py): expected-line check, M110 exempt, Error/Resend/ok triple",
        "schedules are realised at the granularity of the two atomic sender steps (one _sendnext pass, one _listen line); "
        "races inside a step (non-atomic resendfrom += 1) are exercised only by the free-running sub-run, judged by the oracle",
        "printcore.time.sleep is replaced for the print thread by a harness gate (step mode); serial.Serial is a fake",
        "the fake port honours a read time-out (readline() returns b'' when nothing arrived): 50 ms, 10 ms in the cases "
        "with a slow reply, standing for the 0.25 s Device asks pyserial for; waiting is a stutter step of the model "
        "(schedule actions W/w are not replayed on it); connection options are invisible to the model",
        "a reply consumed before write() returns is, for the model's atomic _sendnext, the schedule S,F,L..L (the write is "
        "the section's last access to the state shared with the listener since /repo 940214b)",
    ]
    R.trusted = [
        "Lean 4.33 kernel; axioms propext, Classical.choice, Quot.sound only (audited per theorem)",
        "hand-written Lean model Model/Sender.lean tied to printcore.py by this run's correspondence (differential) check",
        "Python harness: generator, step-controlled serial port and sleep gate, firmware twin, comment scanner, oracle",
    ]
    pool = Pool()
    try:
        # policy-driven, then the two Lean counter-examples with their schedules replayed literally
        run_batch(R, pool, [{k: v for k, v in c.items() if k != "sched"} for c in CORPUS], "corpus")
        run_batch(R, pool, [W_TAIL, W_RESET], "lean-witness-schedules")
        cases = [gen_case(R.rng) for _ in range(R.n(120, 1500))]
        run_batch(R, pool, cases, "random")
        run_timed(R, pool, R.n(12, 150))
        # priority commands queued in bursts during the job (generated last: the streams above are the same
        # as without this sub-run for a given seed); implementation + oracle only
        run_batch(R, pool, list(CORPUS_PRIO), "corpus-prio", compare=False)
        run_batch(R, pool, [gen_prio_case(R.rng) for _ in range(R.n(48, 700))], "prio", compare=False)
        run_timed(R, pool, 0, R.n(6, 60))
        if R.thorough:
            ex = list(exhaustive_cases())
            run_batch(R, pool, ex, "exhaustive")
            R.exhaustive = False
            R.extra["exhaustive_subrun"] = {
                "cases": len(ex),
                "scope": "4-command job (5 queue entries), every fault subset of size <= 3 over transmissions 0..9, "
                         "3 latency profiles (eager / burst / firmware-first), e0 in {0,1}",
                "exhaustive": True,
            }
        unlisted = [f for f in R.failures if not any(p(f) for p in FINDING_PREDICATES.values())]
        if R.broken and not unlisted:
            # failing-input search: a fresh batch biased towards faults, judged by the oracle only
            R.search_batches += 1
            extra = [gen_case(R.rng) for _ in range(R.n(160, 600))] + [gen_prio_case(R.rng) for _ in range(R.n(40, 200))]
            for c, r in zip(extra, pool.map(impl_run, extra)):
                R.evaluations += 1
                record_failures(R, case_repr(c, r.get("trace")), oracle(c, r))
    finally:
        pool.close()
    return FINDING_PREDICATES, WITNESSES


def replay(data):
    core.use_repo()
    fl = data.get("failure") or data.get("first", {})
    case = fl.get("case")
    if not case:
        print("replay: no case recorded (", data.get("no_longer_checks"), ")")
        return 1
    c = dict(case)
    if str(c.get("policy", "")).startswith("timed"):
        r = timed_run(c)
        fails = timed_oracle(c, r)
        print("impl  :", r.get("tx"), r.get("acc"))
        print("oracle:", fails or "ok")
        return 1 if fails else 0
    if c.get("prio"):  # outside the Lean model: real sender + oracle
        r = impl_run(c)
        if c.get("sched") is not None and ((r.get("error") and "not enabled" in str(r["error"])) or r.get("budget")):
            print("replay: the recorded schedule does not apply to this tree; re-running under policy", c.get("policy"))
            c.pop("sched", None)
            r = impl_run(c)
        fails = oracle(c, r)
        print("impl  :", r.get("error") or impl_record(r))
        print("tx    :", r.get("tx"))
        print("accept:", r.get("acc"), " wanted:", job_commands(c["job"]), " priority commands queued:", r.get("prio_fired"))
        print("oracle:", [(t, m) for t, m, _ in fails] or "ok")
        return 1 if fails else 0
    r = impl_run(c)
    if r.get("error") and "not enabled" in str(r["error"]):
        print("replay: the recorded schedule does not apply to this tree; re-running under policy", c.get("policy"))
        c.pop("sched", None)
        r = impl_run(c)
    if r.get("error"):
        print("impl  :", r["error"])
        return 1
    io = impl_record(r)
    mo = core.run_model("sender", [model_line(c, r.get("trace") or c.get("sched") or "")])[0]
    fails = oracle(c, r)
    print("impl  :", io)
    print("model :", mo)
    print("tx    :", r.get("tx"))
    print("accept:", r.get("acc"), " wanted:", job_commands(c["job"]))
    known = [k for k, p in FINDING_PREDICATES.items()
             for tag, msg, info in fails if p(dict(case=case_repr(c), tag=tag, **info))]
    print("oracle:", [(t, m) for t, m, _ in fails] or "ok", ("known finding " + known[0]) if known else "")
    return 1 if (fails or io != mo) else 0

"""Validation of the translator `tools/gen_sender.py`: the *generated* Lean functions (driver mode `sendersrc`, built from the
committed `Gen/SenderSrc.lean`) against the real `gscrib.printrun.printcore.printcore` / `gscrib.printrun.gcoder.GCode`
(see `tie_state.py` for the role of this run).

No thread runs here.  A real `printcore` object is put into an arbitrary state (all attributes the translation knows:
connected or not, with or without flow control, any `clear` / `printing` / `paused` / `resendfrom` / `lineno` /
`sentlines` / queues, also far outside what a job can reach) and ONE real method is called on it; the fake port records,
for every `write`, the data and a snapshot of the whole object *at that moment*.  Compared with the translated function
on the same state: exception class, returned bool, every attribute afterwards, and for every write the data and every
attribute at the write (so a reordering of statements around a write is a disagreement).

  * `_sendnext` is entered with `time.sleep` replaced by a function that raises: a state in which the poll would park
    the thread is one for which the translated `_sendnext_blocked` must be true (and nothing else is compared);
  * `_listen` / `_listen_until_online` are entered for real with `_readline` replaced: the first read installs the
    state and hands over the line, the second read ends the experiment - exactly one trip through the loop body;
  * `_print` is entered with `_sendnext` replaced by a stub: whether the stub is called is `_print_continue`;
  * `threading.Thread` is a dummy (startprint / pause start and join nothing).
The job object is a real `GCode` / `LightGCode`; the prelude's assumption about it (`len(g) == len(g.lines)` and
`g.all_layers[layer][line] is g.lines[i]` for `(layer, line) = g.idxs(i)`) is checked on every job built.
"""
from __future__ import annotations

import logging
import threading as _threading
import time as _time
from unittest import mock

from . import core

GREET = ["start", "Grbl "]
JOB_LINES = [
    "G1 X0", "G1 X1 ; move", "(comment) G1 Y2", "; only comment", "(c)", "  G28  ", ";@pause", " ;@pause now", ";@beep",
    "M110 N5", "G1 (a) X1 (b)", "G1 X1 (unclosed", "", "   ", "M105", "G1 X1 ) Y", "G92 E0 ;( x", "G1 X1 /2", "M117 a*b",
    "\tG1 Z5\t", "G1 X2 (a(b)c)", ";", "()", "G4 P0", "M110", "G1 X10 Y-2.5 F1200", "(;) G1", "G1 ;@pause",
]
REPLIES = [
    "ok", "ok T:20 /0", "ok 12", "Resend: 3", "Resend:3", "Resend: 0", "Resend: -1", "rs N2 Expected checksum 67", "rs 5", "rs",
    "Error:checksum mismatch, Last Line: 3", "Error:Line Number is not Last Line Number+1, Last Line: 7", "!! fatal", "start",
    "start ok", "Grbl 1.1h ['$' for help]", "Grbl", "Grblx", "DEBUG_ x", "DEBUG_ok", "echo:busy processing", "", "T:20 /0 B:0",
    "resend: 4", "RESEND:12 ok", "Resend: N:7", "Resend: abc", "Resend: 1_0", "Resend: +4", "Resend: --1", "Resend: 1_ 9",
    "N: : 9", "rs N", "okResend: 5", "ok Resend: 6", "wait", " ok", "Resend: 12 13", "Resend:\t8", "rs N-3", "Resend: 0x10 2",
]


class _Blocked(BaseException):
    pass


class _Stop(BaseException):
    pass


class _Port:
    is_connected = True

    def __init__(self, flow, owner):
        self.has_flow_control = flow
        self.owner = owner

    def write(self, data):
        self.owner["events"].append((snap(self.owner["pc"]), bytes(data)))

    def readline(self):
        return b""


class _DummyThread:
    def __init__(self, *a, **k):
        pass

    def start(self):
        pass

    def join(self, *a):
        pass

    def is_alive(self):
        return False


class _Threading:
    Thread = _DummyThread

    def __getattr__(self, name):
        return getattr(_threading, name)


class _Time:
    def sleep(self, dt):
        raise _Blocked()

    def __getattr__(self, name):
        return getattr(_time, name)


# ------------------------------------------------------------------ serialisation (must match Drv/SenderSrc.lean)
def hx(s: str) -> str:
    return "e" if s == "" else s.encode("ascii").hex()


def hxs(l) -> str:
    l = list(l)
    return "e" if not l else ";".join(hx(x) for x in l)


def b01(b) -> str:
    return "1" if b else "0"


def show(st: dict) -> str:
    mq = "-" if st["mq"] is None else hxs(st["mq"])
    sl = "e" if not st["sl"] else ",".join(f"{k}:{hx(v)}" for k, v in st["sl"])
    return (f"pr={st['pr']} cl={b01(st['cl'])} on={b01(st['on'])} pg={b01(st['pg'])} pa={b01(st['pa'])} tcp={b01(st['tcp'])} "
            f"sln={b01(st['sln'])} qi={st['qi']} ln={st['ln']} rf={st['rf']} wf={st['wf']} mq={mq} pq={hxs(st['pq'])} "
            f"st={hxs(st['st'])} gr={hxs(st['gr'])} sl={sl}")


def snap(pc) -> dict:
    return {
        "pr": "-" if pc.printer is None else b01(pc.printer.has_flow_control),
        "cl": bool(pc.clear), "on": bool(pc.online), "pg": bool(pc.printing), "pa": bool(pc.paused),
        "tcp": bool(pc.tcp_streaming_mode), "sln": bool(pc._send_line_numbers),
        "qi": pc.queueindex, "ln": pc.lineno, "rf": pc.resendfrom, "wf": pc.writefailures,
        "mq": None if pc.mainqueue is None else [l.raw for l in pc.mainqueue.lines],
        "pq": list(pc.priqueue.queue), "st": list(pc.sent), "gr": list(pc.greetings),
        "sl": list(pc.sentlines.items()),
    }


def check_job_object(g):
    """the prelude's assumption about the layer structure"""
    if len(g) != len(g.lines):
        return f"len(g)={len(g)} but {len(g.lines)} lines"
    for i in range(len(g.lines)):
        layer, line = g.idxs(i)
        if g.all_layers[layer][line] is not g.lines[i]:
            return f"all_layers[{layer}][{line}] is not lines[{i}]"
    return None


# ------------------------------------------------------------------ real object in a given state
class Rig:
    def __init__(self, pc_mod, gcoder):
        self.pc_mod, self.gcoder = pc_mod, gcoder

    def build(self, st, light=False):
        owner = {"events": []}
        pc = self.pc_mod.printcore()
        owner["pc"] = pc
        self.owner = owner
        self.install(pc, st, light)
        return pc

    def install(self, pc, st, light=False):
        from queue import Queue

        owner = self.owner
        pc.printer = None if st["pr"] == "-" else _Port(st["pr"] == "1", owner)
        pc.clear, pc.online, pc.printing, pc.paused = st["cl"], st["on"], st["pg"], st["pa"]
        pc.tcp_streaming_mode, pc._send_line_numbers = st["tcp"], st["sln"]
        pc.queueindex, pc.lineno, pc.resendfrom, pc.writefailures = st["qi"], st["ln"], st["rf"], st["wf"]
        if st["mq"] is None:
            pc.mainqueue = None
        else:
            cls = self.gcoder.LightGCode if light else self.gcoder.GCode
            pc.mainqueue = cls(list(st["mq"]))      # already prepared lines: prepare() keeps them as they are
            got = [l.raw for l in pc.mainqueue.lines]
            if got != list(st["mq"]):
                raise core.Infra(f"GCode changed prepared lines: {st['mq']} -> {got}")
            bad = check_job_object(pc.mainqueue)
            if bad:
                self.job_violation = bad
        pc.priqueue = Queue(0)
        for x in st["pq"]:
            pc.priqueue.put_nowait(x)
        pc.sent = list(st["st"])
        pc.greetings = list(st["gr"])
        pc.sentlines = dict(st["sl"])
        owner["events"].clear()

    def result(self, pc, ret="-") -> str:
        return " | ".join([f"ok {ret}", show(snap(pc))] + [show(s) + " ~ " + ("e" if d == b"" else d.hex()) for s, d in self.owner["events"]])

    job_violation = None


def exc_name(e) -> str:
    from queue import Empty

    if isinstance(e, Empty):
        return "XEmpty"
    return "X" + type(e).__name__


# ------------------------------------------------------------------ random states
def gen_state(rng, prepared, wild) -> dict:
    ln = rng.randint(0, 4)
    frames = [f"N{k} G1 X{k}*{rng.randint(0, 255)}" for k in range(6)]
    keys = [k for k in range(ln) if not wild or rng.random() < 0.8]
    if wild and rng.random() < 0.3:
        keys.append(rng.randint(-2, 7))
    sl, seen = [], set()
    for k in (keys if not wild else rng.sample(keys, len(keys))):
        if k not in seen:
            seen.add(k)
            sl.append((k, frames[k % 6]))
    st = {
        "pr": rng.choice(["0"] * 8 + ["1", "-"]) if wild else "0",
        "cl": rng.random() < 0.7, "on": rng.random() < (0.85 if wild else 1.0), "pg": rng.random() < 0.8,
        "pa": wild and rng.random() < 0.2, "tcp": wild and rng.random() < 0.3, "sln": not (wild and rng.random() < 0.2),
        "qi": rng.randint(0, len(prepared) + 1), "ln": ln, "rf": rng.choice([-1, -1, -1] + list(range(-2, ln + 2))),
        "wf": rng.randint(0, 2) if wild else 0,
        "mq": (None if wild and rng.random() < 0.08 else list(prepared)),
        "pq": [rng.choice(["M105", "M114", "G4 P0"]) for _ in range(rng.choice([0, 0, 0, 1, 2]))] if wild else [],
        "st": [rng.choice(frames) for _ in range(rng.randint(0, 2))], "gr": list(GREET),
        "sl": sl,
    }
    return st


def validate(rng, cases: int) -> dict:
    core.use_repo()
    import importlib

    pc_mod = importlib.import_module("gscrib.printrun.printcore")
    gcoder = importlib.import_module("gscrib.printrun.gcoder")
    logging.getLogger(pc_mod.__name__).disabled = True
    rig = Rig(pc_mod, gcoder)
    lines, want, outcomes = [], [], {}

    def add(kind, line, expected):
        outcomes[kind] = outcomes.get(kind, 0) + 1
        lines.append(line)
        want.append(expected)

    def call(kind, line, pc, fn, ret=lambda r: "-"):
        try:
            r = fn()
            add(kind, line, rig.result(pc, ret(r)))
        except _Blocked:
            raise
        except Exception as e:  # the exception class is what is compared
            add(kind + ":raise", line, exc_name(e))

    with mock.patch.object(pc_mod, "time", _Time()), mock.patch.object(pc_mod, "threading", _Threading()):
        for _ in range(cases):
            wild = rng.random() < 0.5
            raws = [rng.choice(JOB_LINES) for _ in range(rng.randint(0, 5))]
            # GCode.prepare
            g = (gcoder.LightGCode if rng.random() < 0.3 else gcoder.GCode)(list(raws))
            prepared = [l.raw for l in g.lines]
            add("prepare", f"prepare job={hxs(raws)}", "ok " + hxs(prepared))
            bad = check_job_object(g)
            if bad:
                return {"cases": cases, "calls": len(lines), "outcomes": outcomes,
                        "disagreement": {"ops": [f"GCode({raws!r})"], "step": 0, "impl": bad, "model": "assumption of Model/SenderPrelude.lean"}}
            i = rng.randint(-1, len(prepared) + 1)
            if i >= 0:
                add("hasindex", f"hasindex mq={hxs(prepared)} i={i}", "ok " + b01(g.has_index(i)))
            # _checksum
            t = rng.choice(["N0 G1 X0", "N-1 M110 N-1", "", "N12 M105", "a"] + JOB_LINES)
            try:
                add("checksum", f"checksum t={hx(t)}", f"ok {pc_mod.printcore._checksum(None, t)}")
            except Exception as e:
                add("checksum:raise", f"checksum t={hx(t)}", exc_name(e))

            st = gen_state(rng, prepared, wild)
            light = rng.random() < 0.3
            # _sendnext (or the poll that parks it)
            pc = rig.build(st, light)
            try:
                call("sendnext", f"sendnext {show(st)}", pc, pc._sendnext)
                add("blocked:0", f"blocked {show(st)}", "ok 0")
            except _Blocked:
                add("blocked:1", f"blocked {show(st)}", "ok 1")
            # _print's loop test
            pc = rig.build(st, light)
            hit = []

            def stub(pc=pc, hit=hit):
                hit.append(1)
                pc.printing = False
            pc._sendnext, pc._stop_sender, pc._start_sender = stub, (lambda: None), (lambda: None)
            pc._print()
            add("cont", f"cont {show(st)}", "ok " + b01(bool(hit)))
            # _send
            st = gen_state(rng, prepared, wild)
            t, n, calc = rng.choice(["G1 X0", "M110 N-1", "M105", "xM110y", "G28"]), rng.randint(-1, 5), rng.random() < 0.6
            pc = rig.build(st, light)
            call("send", f"send {show(st)} t={hx(t)} n={n} calc={b01(calc)}", pc, lambda: pc._send(t, n, calc))
            # _reset_line_numbers, pause, process_host_command
            st = gen_state(rng, prepared, wild)
            pc = rig.build(st, light)
            call("reset", f"reset {show(st)}", pc, pc._reset_line_numbers)
            pc = rig.build(st, light)
            call("pause", f"pause {show(st)}", pc, pc.pause)
            t = rng.choice([";@pause", "  ;@pause x", ";@beep", "G1 X0", "", " ;@ pause", ";@pausenow"])
            pc = rig.build(st, light)
            call("host", f"host {show(st)} t={hx(t)}", pc, lambda: pc.process_host_command(t))
            # startprint
            st = gen_state(rng, prepared, wild)
            if rng.random() < 0.7:
                st["pg"] = False
            idx = rng.choice([0, 0, 0, 1, 2])
            pc = rig.build(st, light)
            job = (gcoder.LightGCode if light else gcoder.GCode)(list(prepared))
            call("startprint", f"startprint {show(st)} job={hxs(prepared)} idx={idx}", pc, lambda: pc.startprint(job, idx), ret=b01)
            # one trip through the loop body of _listen / _listen_until_online
            for kind, meth in (("listen", "_listen"), ("online", "_listen_until_online")):
                st = gen_state(rng, prepared, wild)
                if st["pr"] == "-":
                    st["pr"] = "0"          # the loop is only entered while connected
                reply = rng.choice(REPLIES)
                boot = dict(st, on=(kind == "listen"), pg=True, pr="0")
                pc = rig.build(boot, light)
                reads = []

                def readline(pc=pc, st=st, reads=reads, reply=reply, light=light):
                    if reads:
                        raise _Stop()
                    reads.append(1)
                    rig.install(pc, st, light)
                    return reply
                pc._readline = readline
                try:
                    getattr(pc, meth)()
                except _Stop:
                    pass
                if not reads:
                    raise core.Infra(f"{meth} did not read a line")
                add(kind, f"{kind} {show(st)} t={hx(reply)}", rig.result(pc))
    if rig.job_violation:
        return {"cases": cases, "calls": len(lines), "outcomes": outcomes,
                "disagreement": {"ops": ["GCode(prepared lines)"], "step": 0, "impl": rig.job_violation, "model": "assumption of Model/SenderPrelude.lean"}}
    got = core.run_model("sendersrc", lines)
    for k, (ln, w, g_) in enumerate(zip(lines, want, got)):
        if w != g_:
            return {"cases": cases, "calls": len(lines), "outcomes": outcomes, "disagreement": {"ops": [ln], "step": k, "impl": w, "model": g_}}
    return {"cases": cases, "calls": len(lines), "outcomes": outcomes, "disagreement": None}

"""Validation of the translator `tools/gen_state.py` (and of the prelude behind `validate`): the *generated* Lean
functions (driver mode `gstate`, built from the committed `Gen/StateSrc.lean`) and the real `gscrib.gcode_state.GState`
are driven with the same random sequences of direct setter calls and compared field by field after every call.

This is what keeps the translator out of the "asserted" part of the trusted base: `Props/StateTie.lean` proves that the
hand-written builder model equals the generated functions; this run checks that the generated functions behave like
the source they were generated from.  It only runs when the translation of the tree under test equals the committed
one (otherwise the compiled driver would be stale - the tie theorems are re-checked against the fresh translation
instead and this validation is reported as skipped)."""
from __future__ import annotations

import math
from fractions import Fraction

from . import core

G = 32
VALS = ["nan", "inf", "-inf", "0", "-1", "-1/32", "huge"]


def show(q: Fraction) -> str:
    return str(q.numerator) if q.denominator == 1 else f"{q.numerator}/{q.denominator}"


def canon(v) -> str:
    if v is None:
        return "~"
    try:
        v = float(v)
    except OverflowError:       # an int beyond the double range, stored as it came (the model's +-inf)
        return "inf" if v > 0 else "-inf"
    if math.isnan(v):
        return "nan"
    if math.isinf(v):
        return "inf" if v > 0 else "-inf"
    return show(Fraction(repr(v)))


def to_py(s: str):
    if s == "nan":
        return float("nan")
    if s == "huge":
        return 10**400          # an int beyond the double range (the model's vocabulary has +inf for it)
    if s == "inf":
        return float("inf")
    if s == "-inf":
        return float("-inf")
    f = Fraction(s)
    return int(f) if f.denominator == 1 and "/" not in s else float(f)


def gen_ops(rng, n):
    from gscrib import enums as E

    num = {}
    ops = []

    def val(kind=None, lo=0, hi=2000):
        if rng.random() < 0.12:
            return rng.choice(VALS)
        if kind in num and rng.random() < 0.5:
            a, b = num[kind]
            step = Fraction(1, G)
            return show(rng.choice([a, b, a - step, b + step, (a + b) / 2, a + step, b - step]))
        return show(Fraction(rng.randint(lo * G, hi * G), G) if rng.random() < 0.4 else Fraction(rng.randint(lo, hi)))

    enum = lambda cls: rng.choice([m.value for m in cls])
    for _ in range(n):
        k = rng.choice(["spin", "spin", "pmode", "pmode", "cool", "cool", "swap", "swap", "halt", "halt", "feed", "tpower", "res",
                        "bed", "hotend", "chamber", "dist", "emode", "fmode", "units", "tunits", "tempunits", "plane", "dir",
                        "axes", "axes", "bounds", "bounds", "boundsaxes"])
        if k == "spin":
            ops.append(f"spin {enum(E.SpinMode)} {val('tool-power')}")
        elif k == "pmode":
            ops.append(f"pmode {enum(E.PowerMode)} {val('tool-power')}")
        elif k == "cool":
            ops.append(f"cool {enum(E.CoolantMode)}")
        elif k == "swap":
            n_ = rng.choice([0, 1, 1, 2, 3, 7, -1, 100]) if "tool-number" not in num else int(rng.choice(num["tool-number"])) + rng.choice([-1, 0, 1])
            ops.append(f"swap {enum(E.ToolSwapMode)} {n_}")
        elif k == "halt":
            ops.append(f"halt {enum(E.HaltMode)}")
        elif k in ("feed", "tpower"):
            ops.append(f"{k} {val('feed-rate' if k == 'feed' else 'tool-power')}")
        elif k == "res":
            ops.append(f"res {rng.choice(['0', '-1', '1/32', '1/4', '1', 'nan', 'inf', '-inf', '10'])}")
        elif k in ("bed", "hotend", "chamber"):
            ops.append(f"{k} {val(k + '-temperature', 0, 300)}")
        elif k in ("dist", "emode", "fmode", "units", "tunits", "tempunits", "plane", "dir"):
            cls = {"dist": E.DistanceMode, "emode": E.ExtrusionMode, "fmode": E.FeedMode, "units": E.LengthUnits, "tunits": E.TimeUnits,
                   "tempunits": E.TemperatureUnits, "plane": E.Plane, "dir": E.Direction}[k]
            ops.append(f"{k} {enum(cls)}")
        elif k == "axes":
            ops.append("axes " + ";".join("-" if rng.random() < 0.2 else show(Fraction(rng.randint(-12 * G, 12 * G), G)) for _ in range(3)))
        elif k == "bounds":
            name = rng.choice(["bed-temperature", "chamber-temperature", "hotend-temperature", "feed-rate", "tool-number", "tool-power"])
            lo = Fraction(rng.randint(0, 200))
            hi = lo + Fraction(rng.randint(1, 1500))
            num[name] = (lo, hi)
            ops.append(f"bounds {name} {show(lo)} {show(hi)}")
        else:
            lo = [Fraction(rng.randint(-10, 0)) for _ in range(3)]
            hi = [l + rng.randint(1, 20) for l in lo]
            ops.append("boundsaxes " + " ".join(show(v) for v in lo + hi))
    return ops


def impl_records(ops):
    from gscrib import enums as E
    from gscrib.excepts import CoolantStateError, ToolStateError
    from gscrib.gcode_state import GState
    from gscrib.geometry import Point

    g = GState()
    out = []
    for ln in ops:
        ws = ln.split()
        k = ws[0]
        res = "ok"
        try:
            if k == "spin":
                g._set_spin_mode(E.SpinMode(ws[1]), to_py(ws[2]))
            elif k == "pmode":
                g._set_power_mode(E.PowerMode(ws[1]), to_py(ws[2]))
            elif k == "cool":
                g._set_coolant_mode(E.CoolantMode(ws[1]))
            elif k == "swap":
                g._set_tool_number(E.ToolSwapMode(ws[1]), int(ws[2]))
            elif k == "halt":
                g._set_halt_mode(E.HaltMode(ws[1]))
            elif k == "feed":
                g._set_feed_rate(to_py(ws[1]))
            elif k == "tpower":
                g._set_tool_power(to_py(ws[1]))
            elif k == "res":
                g._set_resolution(to_py(ws[1]))
            elif k == "bed":
                g._set_target_bed_temperature(to_py(ws[1]))
            elif k == "hotend":
                g._set_target_hotend_temperature(to_py(ws[1]))
            elif k == "chamber":
                g._set_target_chamber_temperature(to_py(ws[1]))
            elif k == "dist":
                g._set_distance_mode(E.DistanceMode(ws[1]))
            elif k == "emode":
                g._set_extrusion_mode(E.ExtrusionMode(ws[1]))
            elif k == "fmode":
                g._set_feed_mode(E.FeedMode(ws[1]))
            elif k == "units":
                g._set_length_units(E.LengthUnits(ws[1]))
            elif k == "tunits":
                g._set_time_units(E.TimeUnits(ws[1]))
            elif k == "tempunits":
                g._set_temperature_units(E.TemperatureUnits(ws[1]))
            elif k == "plane":
                g._set_plane(E.Plane(ws[1]))
            elif k == "dir":
                g._set_direction(E.Direction(ws[1]))
            elif k == "axes":
                g._set_axes(Point(*[None if c == "-" else float(Fraction(c)) for c in ws[1].split(";")]))
            elif k == "bounds":
                g._set_bounds(ws[1], float(Fraction(ws[2])), float(Fraction(ws[3])))
            elif k == "boundsaxes":
                v = [float(Fraction(x)) for x in ws[1:]]
                g._set_bounds("axes", Point(*v[:3]), Point(*v[3:]))
            else:
                raise core.Infra("tie_state: unknown op " + ln)
        except ToolStateError:
            res = "toolState"
        except CoolantStateError:
            res = "coolantState"
        except ValueError:
            res = "valueError"
        p = g.position
        out.append(
            f"out={res} axes={canon(p.x)},{canon(p.y)},{canon(p.z)} tnum={g.tool_number} power={canon(g.tool_power)} "
            f"spin={g.spin_mode.value} pmode={g.power_mode.value} dist={g.distance_mode.value} emode={g.extrusion_mode.value} "
            f"cool={g.coolant_mode.value} fmode={g.feed_mode.value} feed={canon(g.feed_rate)} swap={g.tool_swap_mode.value} "
            f"halt={g.halt_mode.value} units={g.length_units.value} tunits={g.time_units.value} "
            f"tempunits={g.temperature_units.value} plane={g.plane.value} dir={g.direction.value} res={canon(g.resolution)} "
            f"coola={1 if g.is_coolant_active else 0} tool={1 if g.is_tool_active else 0} hot={canon(g.target_hotend_temperature)} "
            f"bed={canon(g.target_bed_temperature)} ch={canon(g.target_chamber_temperature)}")
    return out


def validate(rng, cases: int, length: int = 25) -> dict:
    """-> {cases, calls, outcomes: {...}, disagreement: None | {ops, step, impl, model}}"""
    core.use_repo()
    seqs = [gen_ops(rng, length) for _ in range(cases)]
    lines = []
    for ops in seqs:
        lines.append("reset")
        lines.extend(o.replace("huge", "inf") for o in ops)
    model = core.run_model("gstate", lines)
    outcomes: dict = {}
    i = 0
    for ops in seqs:
        i += 1
        recs = impl_records(ops)
        for j, (ir, op) in enumerate(zip(recs, ops)):
            mr = model[i]
            i += 1
            oc = ir.split(" ", 1)[0][4:]
            outcomes[oc] = outcomes.get(oc, 0) + 1
            if ir != mr:
                return {"cases": cases, "calls": sum(outcomes.values()), "outcomes": outcomes,
                        "disagreement": {"ops": ops[: j + 1], "step": j, "impl": ir, "model": mr}}
    return {"cases": cases, "calls": sum(outcomes.values()), "outcomes": outcomes, "disagreement": None}

"""C17 - socket input is split into lines independently of packet boundaries.

Model: lean/GscribModel/Model/Socket.lean (driver mode `socket`); theorems: Props/C17.lean.
Implementation: gscrib.printrun.device.Device.readline() on a real Device whose `_socketfile`
and `_selector` are scripted (the same seam the repository's own tests use).
"""
from __future__ import annotations

import itertools

from . import core

PROP = "C17"


# ------------------------------------------------------------------ implementation adapter
class _SockFile:
    """Scripted `socket.makefile('rwb', buffering=0)`: read() yields None (no data yet), bytes, or b'' (EOF)."""

    def __init__(self, reads):
        self.reads = list(reads)
        self.i = 0

    def read(self, n):
        if self.i >= len(self.reads):
            # script exhausted: EOF is sticky, otherwise "no data yet" for ever
            return b"" if (self.reads and self.reads[-1] == b"") else None
        v = self.reads[self.i]
        self.i += 1
        assert v is None or len(v) <= n
        return v


class _Sel:
    def __init__(self, answers):
        self.answers = list(answers)
        self.i = 0

    def select(self, timeout):
        v = self.answers[self.i] if self.i < len(self.answers) else False
        self.i += 1
        return [object()] if v else []


def lower_events(events, rng):
    """Turn model events into a concrete (reads, select answers) schedule.

    chunk -> either a direct read, or (None, select=True, data);  again -> (None, select=False)
    or (None, select=True, None);  eof -> b'' (sticky: the scripted file answers b'' forever).
    """
    reads, sels = [], []
    for e in events:
        if e[0] == "c":
            if rng.random() < 0.3:
                reads += [None, e[1]]
                sels.append(True)
            else:
                reads.append(e[1])
        elif e[0] == "a":
            if rng.random() < 0.5:
                reads.append(None)
                sels.append(False)
            else:
                reads += [None, None]
                sels.append(True)
        else:
            reads.append(b"")
            if rng.random() < 0.2:  # EOF seen on the re-read after a successful select
                reads[-1:] = [None, b""]
                sels.append(True)
    return reads, sels


def impl_run(events, ncalls, rng):
    from gscrib.printrun.device import READ_EMPTY, READ_EOF, Device

    reads, sels = lower_events(events, rng)
    d = Device()
    d._type = "socket"
    d._device = object()
    d._socketfile = _SockFile(reads)
    d._selector = _Sel(sels)
    d._is_connected = True
    d._timeout = 0
    d._hostname, d._port_number = "h", 1
    out = []
    for _ in range(ncalls):
        r = d.readline()
        if r is READ_EOF:
            out.append("E")
        elif r == READ_EMPTY:
            out.append("-")
        else:
            out.append("l" + bytes(r).hex())
    buf = d._read_buffer
    pending = bytes(buf) if isinstance(buf, (bytes, bytearray)) else b"".join(bytes(c) for c in buf)
    return " ".join(out) + " | buf=" + pending.hex()


def model_line(events, ncalls):
    ws = [str(ncalls)]
    for e in events:
        ws.append("c" + e[1].hex() if e[0] == "c" else e[0])
    return " ".join(ws)


# ------------------------------------------------------------------ oracle (property on implementation output)
def oracle(events, record):
    """The lines returned are exactly the stream cut after each newline; tail delivered at close."""
    stream = b"".join(e[1] for e in events if e[0] == "c")
    has_eof = any(e[0] == "e" for e in events)
    res, buf = record.split(" | buf=")
    toks = res.split(" ") if res else []
    lines = [bytes.fromhex(t[1:]) for t in toks if t.startswith("l")]
    expect = stream.split(b"\n")
    tail = expect.pop()
    expect = [x + b"\n" for x in expect]
    if has_eof and "E" in toks:
        if tail:
            expect.append(tail)
        if lines != expect:
            return f"lines returned differ from the stream cut after each newline: got {lines!r}, expected {expect!r}"
        if bytes.fromhex(buf):
            return "bytes left in the buffer after end-of-stream was reported"
        k = toks.index("E")
        if any(t.startswith("l") for t in toks[k:]):
            return "a line was returned after end-of-stream"
    else:
        # not (yet) closed: what was returned must be a prefix of the expected lines and nothing may be lost
        got = b"".join(lines) + bytes.fromhex(buf)
        if not stream.startswith(got):
            return f"returned+buffered bytes {got!r} are not a prefix of the stream {stream!r}"
        if lines != expect[: len(lines)] and not (has_eof and lines[:-1] == expect[: len(lines) - 1]):
            return f"returned lines {lines!r} are not the first lines of the stream {expect!r}"
    return None


# ------------------------------------------------------------------ generation
def gen_case(rng):
    n = rng.choice([0, 1, 2, 5, 20, 60, 200, 700])
    n = rng.randint(0, n)
    dens = rng.choice([0.02, 0.1, 0.3, 0.7])
    alphabet = b"ab\r0123 ok:.XYZ\xff\x00"
    stream = bytes(10 if rng.random() < dens else rng.choice(alphabet) for _ in range(n))
    events, i = [], 0
    maxk = rng.choice([1, 2, 3, 16, 64, 256])
    pa = rng.choice([0.0, 0.1, 0.4])
    while i < len(stream):
        while rng.random() < pa:
            events.append(("a",))
        k = maxk if rng.random() < 0.3 else rng.randint(1, maxk)   # reads that fill the 256-byte request exactly are frequent
        events.append(("c", stream[i : i + k]))
        i += k
    while rng.random() < pa:
        events.append(("a",))
    closed = rng.random() < 0.85
    if closed:
        events.append(("e",))
    nlines = stream.count(b"\n")
    ncalls = nlines + sum(1 for e in events if e[0] == "a") + (4 if closed else 1) + rng.randint(0, 2)
    if rng.random() < 0.15 and ncalls > 1:
        ncalls = rng.randint(1, ncalls)  # stop early: exercises the "not yet closed" clauses
    return events, ncalls


def exhaustive_cases(maxlen):
    """All strings <= maxlen over {a, \\n}, all fragmentations, `again` before a fixed chunk subset, then EOF."""
    for L in range(maxlen + 1):
        for s in itertools.product(b"a\n", repeat=L):
            s = bytes(s)
            for cuts in itertools.product([0, 1], repeat=max(0, L - 1)):
                chunks, cur = [], b""
                for j, ch in enumerate(s):
                    cur += bytes([ch])
                    if j < L - 1 and cuts[j]:
                        chunks.append(cur)
                        cur = b""
                if cur:
                    chunks.append(cur)
                for again_mask in ([0] * len(chunks), [1] * len(chunks)):
                    ev = []
                    for c, a in zip(chunks, again_mask):
                        if a:
                            ev.append(("a",))
                        ev.append(("c", c))
                    ev.append(("e",))
                    yield ev, s.count(b"\n") + sum(again_mask) + 3


def case_repr(events, ncalls):
    return {"calls": ncalls, "events": [e[0] if e[0] != "c" else "c" + e[1].hex() for e in events]}


def run_batch(R, cases, label):
    import random

    lines = [model_line(ev, n) for ev, n in cases]
    model_out = core.run_model("socket", lines)
    for (ev, n), mo in zip(cases, model_out):
        sub = random.Random(R.rng.random())
        io = impl_run(ev, n, sub)
        stream_len = sum(len(e[1]) for e in ev if e[0] == "c")
        nl = sum(e[1].count(b"\n") for e in ev if e[0] == "c")
        R.case(case_repr(ev, n), nontrivial=(nl >= 1 and len(ev) >= 3))
        R.count(label, f"chunks:{min(len(ev) // 10 * 10, 100)}+", f"len:{'0' if stream_len == 0 else '<=20' if stream_len <= 20 else '<=200' if stream_len <= 200 else '>200'}",
                "closed" if any(e[0] == "e" for e in ev) else "open")
        if io != mo:
            R.disagree("socket-readline", case_repr(ev, n), io, mo)
        msg = oracle(ev, io)
        if msg:
            R.fail(case_repr(ev, n), msg, tag="split")


def run(R: core.Run):
    R.rule = ("random byte streams (newline density 2-70%) x random fragmentations (1..256 bytes) x random "
              "'no data yet' insertions x early stop; non-trivial = at least one newline and >= 3 socket events; distinct by hash")
    R.assumptions = [
        "the OS socket layer / selectors deliver the bytes; the harness scripts `_socketfile.read` and `_selector.select`",
        "a real read() never returns b'' except at end-of-stream (modelled as the sticky `eof` event)",
    ]
    corpus = [
        ([("c", b"ab\nc"), ("a",), ("c", b"d\n"), ("c", b"e"), ("e",)], 5),
        ([("c", b"\n"), ("c", b"\n\n"), ("e",)], 6),
        ([("c", b"x" * 256), ("c", b"y" * 255 + b"\n"), ("e",)], 4),
        ([("a",), ("a",), ("e",)], 4),
        ([("c", b"a\nb\nc\nd"), ("e",)], 7),
        ([("c", (b"0123456\n" * 32)), ("c", b"tail\nmore"), ("e",)], 40),      # a full 256-byte read holding 32 lines, then data
        ([("c", (b"0123456\n" * 32)), ("e",)], 36),                              # ... then close
        ([("c", (b"x" * 255 + b"\n")), ("a",), ("c", b"y\n"), ("e",)], 6),
    ]
    run_batch(R, corpus, "corpus")
    cases = [gen_case(R.rng) for _ in range(R.n(3000, 60000))]
    run_batch(R, cases, "random")
    if R.thorough:
        ex = list(exhaustive_cases(6))
        run_batch(R, ex, "exhaustive<=6")
        R.exhaustive = False
        R.extra["exhaustive_subrun"] = {"cases": len(ex), "scope": "all strings <= 6 over {a,\\n} x all fragmentations x {no, all} time-outs, then EOF", "exhaustive": True}
    if R.broken:
        # failing-input search: a fresh, larger batch judged by the oracle only
        R.search_batches += 1
        for _ in range(R.n(6000, 20000)):
            ev, n = gen_case(R.rng)
            import random
            io = impl_run(ev, n, random.Random(R.rng.random()))
            R.evaluations += 1
            msg = oracle(ev, io)
            if msg:
                R.fail(case_repr(ev, n), msg, tag="split")
    return {}, {}


def replay(data):
    import random

    core.use_repo()
    fl = data.get("failure") or data.get("first", {})
    case = fl.get("case")
    if not case:
        print("replay: no case recorded (", data.get("no_longer_checks"), ")")
        return 1
    ev = [("c", bytes.fromhex(e[1:])) if e.startswith("c") else (e,) for e in case["events"]]
    io = impl_run(ev, case["calls"], random.Random(0))
    mo = core.run_model("socket", [model_line(ev, case["calls"])])[0]
    msg = oracle(ev, io)
    print("impl :", io)
    print("model:", mo)
    print("oracle:", msg or "ok")
    return 1 if (msg or io != mo) else 0

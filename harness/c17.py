"""C17 - socket input is split into lines independently of packet boundaries.

Model: lean/GscribModel/Model/Socket.lean (driver mode `socket`); theorems: Props/C17.lean.
Implementation: gscrib.printrun.device.Device.readline() on a real Device whose `_socketfile`
and `_selector` are scripted (the same seam the repository's own tests use).

Two families:
 * one connection per Device (fields of a fresh Device set by hand, as the repository's tests do);
 * one Device serving several consecutive connections through the real `connect()` / `disconnect()`
   (socket creation and the selector are scripted, see `_Net`), judged over the whole life of the Device.
   Observation (not a finding): bytes still buffered when the HOST disconnects are not discarded; they are
   carried into the next connection and come out in front of its first line (`ok\nT:2` read up to `ok\n`,
   disconnect, connect, `start\n` -> `T:2start\n`).  Nothing is lost, duplicated or reordered, so the property as
   stated holds; the whole-life oracle therefore cuts the concatenation of everything the Device received
   after each newline and, additionally, at each close by the PEER.

Schedules also contain *status polls*: reads of the public, read-only `Device.is_connected` property placed before
any subset of the readline() calls (printcore's listener asks it before every read).  The statement quantifies over
every schedule of reads; a status query in between is not allowed to change what the reads return.  So that a Device
that looks at its socket while answering sees the truth, the object standing for the socket (`_FakeSocket`) answers
`recv(n)` / `recv(n, MSG_PEEK)` from the same scripted stream as the socket file: BlockingIOError while the script
says "no data yet", the next bytes when a chunk is due, b'' once the peer has closed.  The model has no notion of a
poll (it is a no-op there), so polled cases are compared with the model exactly like the others.

A third, small family runs over REAL loopback TCP connections (no scripting at all: kernel socket, real selector),
with the peer sending in 1..3 phases and closing, the Device reading - with or without status polls - in between.
It is judged by the oracle only (the kernel decides the fragmentation, so there is no event script for the model).

A fourth family puts *faults of the link* between the reads (family "faults", `gen_fault_session`): packets carrying two
or more lines (plus tails), so that complete lines sit in the read buffer after a readline(), and then, BETWEEN two
readline() calls, a `Device.write()` - what printcore's sender thread does while the listener is still draining - that
succeeds or fails (the scripted socket file raises BrokenPipeError / ConnectionResetError / ... on write, as a socket does
once the peer has gone); and reads that raise (ECONNRESET, event `x`) with lines or an unterminated tail buffered, after
which the reading goes on (usually up to the end-of-stream mark that follows).  Sometimes the host disconnects and
reconnects after the fault instead.  The statement quantifies over every stream / fragmentation / schedule of reads and
says that no received byte is lost: neither a write in between nor a read that raised may change what the reads return,
so these cases are judged by the same whole-life oracle.  The model has no notion of a write (a no-op there, like a
status poll), so connections with writes only are still compared with it; it has no notion of a raising read, so
connections whose script contains one are judged by the oracle only.  A few such cases also run over REAL loopback TCP
(peer sends everything and closes, the Device reads some lines, writes until the write fails, reads on; or the peer
resets the connection: it closes without having read what the Device wrote).
"""
from __future__ import annotations

import contextlib
import errno
import itertools
import random
import socket as _socket

from . import core

PROP = "C17"


# ------------------------------------------------------------------ implementation adapter
class _SockFile:
    """Scripted `socket.makefile('rwb', buffering=0)`: read() yields None (no data yet), bytes, or b'' (EOF)."""

    def __init__(self, reads):
        self.reads = list(reads)
        self.i = 0
        self.closed = False
        self.taken = []          # everything handed out (and consumed), in order
        self.peeked_eof = False  # a non-consuming look at the stream has been answered "closed by the peer"
        self.wnext = "ok"        # outcome of the next write(): "ok", "flush-timeout" or the name of what it raises
        self.wlog = []           # (bytes written, outcome)

    def close(self):
        self.closed = True

    def _next(self):
        if self.i >= len(self.reads):
            # script exhausted: EOF is sticky, otherwise "no data yet" for ever
            return b"" if (self.reads and self.reads[-1] == b"") else None
        return self.reads[self.i]

    def read(self, n):
        if self.closed:
            raise ValueError("I/O operation on closed file")
        v = self._next()
        if self.i < len(self.reads):
            self.i += 1
            self.taken.append(v)
        if isinstance(v, BaseException):
            raise v                  # the read fails (connection reset by peer, ...)
        assert v is None or len(v) <= n
        return v

    def write(self, data):
        if self.closed:
            raise ValueError("I/O operation on closed file")
        w, self.wnext = self.wnext, "ok"
        self.wlog.append((bytes(data), w))
        if w not in ("ok", "flush-timeout"):
            raise _link_error(w)
        self._flush_times_out = (w == "flush-timeout")
        return len(data)

    def flush(self):
        if getattr(self, "_flush_times_out", False):
            self._flush_times_out = False
            raise _socket.timeout("timed out")

    def recv(self, n, flags=0):
        """`socket.recv` of the (non-blocking) socket under the file, over the same script."""
        v = self._next()
        if isinstance(v, BaseException):
            if not flags & _socket.MSG_PEEK:
                self.i += 1
                self.taken.append(v)
            raise v
        if v is None:
            if self.i < len(self.reads) and not flags & _socket.MSG_PEEK:
                self.i += 1
                self.taken.append(None)
            raise BlockingIOError(errno.EAGAIN, "Resource temporarily unavailable")
        if flags & _socket.MSG_PEEK:
            if v == b"":
                self.peeked_eof = True
            return v[:n]
        if self.i < len(self.reads):
            if len(v) > n:
                self.reads[self.i] = v[n:]
                v = v[:n]
            else:
                self.i += 1
            self.taken.append(v)
        return v


LINK_ERRORS = ("EPIPE", "ECONNRESET", "ETIMEDOUT", "EHOSTUNREACH", "ENETDOWN")


def _link_error(name):
    """What a socket raises when the link is broken: OSError with that errno (BrokenPipeError, ConnectionResetError, ...)
    or, `runtime`, a RuntimeError (Device.write() treats both alike)."""
    if name == "runtime":
        return RuntimeError("write failed")
    code = getattr(errno, name)
    return OSError(code, errno.errorcode[code] + " (scripted)")


class _Sel:
    def __init__(self, answers):
        self.answers = list(answers)
        self.i = 0
        self.registered = None

    def register(self, fileobj, events, data=None):
        self.registered = fileobj

    def unregister(self, fileobj):
        if fileobj is not self.registered:
            raise KeyError(fileobj)
        self.registered = None

    def close(self):
        pass

    def select(self, timeout):
        v = self.answers[self.i] if self.i < len(self.answers) else False
        self.i += 1
        return [object()] if v else []


def lower_events(events, rng):
    """Turn model events into a concrete (reads, select answers) schedule.

    chunk -> either a direct read, or (None, select=True, data);  again -> (None, select=False)
    or (None, select=True, None);  eof -> b'' (sticky: the scripted file answers b'' forever);
    x<ERR> (fault family only) -> a read that raises OSError(<ERR>), directly or on the re-read after a select.
    """
    reads, sels = [], []
    for e in events:
        if e[0] == "c":
            if rng.random() < 0.3:
                reads += [None, e[1]]
                sels.append(True)
            else:
                reads.append(e[1])
        elif e[0] == "a":
            if rng.random() < 0.5:
                reads.append(None)
                sels.append(False)
            else:
                reads += [None, None]
                sels.append(True)
        elif e[0] == "x":
            if rng.random() < 0.3:
                reads.append(None)
                sels.append(True)
            reads.append(_link_error(e[1]))
        else:
            reads.append(b"")
            if rng.random() < 0.2:  # EOF seen on the re-read after a successful select
                reads[-1:] = [None, b""]
                sels.append(True)
    return reads, sels


def impl_run(events, ncalls, rng, polls=None):
    from gscrib.printrun.device import Device

    reads, sels = lower_events(events, rng)
    d = Device()
    d._type = "socket"
    d._socketfile = _SockFile(reads)
    d._selector = _Sel(sels)
    d._device = _FakeSocket(None, (d._socketfile, d._selector))
    d._is_connected = True
    d._timeout = 0
    d._hostname, d._port_number = "h", 1
    out = _calls(d, ncalls, polls)
    return " ".join(out) + " | buf=" + _pending(d).hex()


def model_line(events, ncalls):
    ws = [str(ncalls)]
    for e in events:
        ws.append("c" + e[1].hex() if e[0] == "c" else e[0])
    return " ".join(ws)


# ------------------------------------------------------------------ one Device, several consecutive connections
class _FakeSocket:
    """What `socket.socket(AF_INET, SOCK_STREAM)` hands to Device._connect_socket: connect() succeeds at once and
    makefile() is the scripted file of the next scripted connection."""

    def __init__(self, net, conn=None):
        self.net, self.conn, self.closed = net, conn, False

    def recv(self, n, flags=0):
        if self.closed:
            raise OSError(errno.EBADF, "Bad file descriptor")
        if self.conn is None:
            raise OSError(errno.ENOTCONN, "Transport endpoint is not connected")
        return self.conn[0].recv(n, flags)

    def setsockopt(self, *a):
        pass

    def settimeout(self, t):
        pass

    def setblocking(self, flag):
        pass

    def fileno(self):
        return -1

    def connect(self, addr):
        self.conn = self.net.accept()

    def makefile(self, mode="r", buffering=None, **kw):
        return self.conn[0]

    def close(self):
        self.closed = True


class _ModShim:
    """A module with a few names replaced (everything else is the real module's)."""

    def __init__(self, real, **over):
        self._real = real
        self.__dict__.update(over)

    def __getattr__(self, k):
        return getattr(self._real, k)


class _Net:
    """The scripted network: the k-th connect() of the Device gets the k-th (reads, select answers) script."""

    def __init__(self, scripts):
        self.scripts = [(_SockFile(r), _Sel(a)) for r, a in scripts]
        self.k = 0
        self.current = None

    def accept(self):
        self.current = self.scripts[self.k]
        self.k += 1
        return self.current

    def _socket(self, *a, **kw):
        return _FakeSocket(self)

    def _create_connection(self, address, *a, **kw):
        sock = _FakeSocket(self)
        sock.connect(address)
        return sock

    def _selector(self):
        return self.current[1]

    @contextlib.contextmanager
    def patched(self, devmod):
        import selectors
        import socket

        real = devmod.socket, devmod.selectors
        devmod.socket = _ModShim(socket, socket=self._socket, create_connection=self._create_connection)
        devmod.selectors = _ModShim(selectors, DefaultSelector=self._selector, SelectSelector=self._selector,
                                    PollSelector=self._selector, EpollSelector=self._selector)
        try:
            yield self
        finally:
            devmod.socket, devmod.selectors = real


def _pending(d):
    buf = d._read_buffer
    return bytes(buf) if isinstance(buf, (bytes, bytearray)) else b"".join(bytes(c) for c in buf)


def _buffered(d):
    b = _pending(d)
    return "lines-buffered" if b"\n" in b else "tail-buffered" if b else "nothing-buffered"


def poll_set(polls, ncalls):
    """`polls`: None (no status poll), "all" (before every readline() and after the last one) or a list of indices
    i in 0..ncalls: `is_connected` is read before the i-th call (i = ncalls: after the last one)."""
    if not polls:
        return frozenset()
    return frozenset(range(ncalls + 1)) if polls == "all" else frozenset(polls)


WRITE_DATA = b"M105\n"


def _calls(d, ncalls, polls=None, writes=None, f=None, flog=None):
    """`writes`: [(i, outcome)]: before the i-th readline() call (after the status poll there, if any) the host calls
    `Device.write()`; on the scripted file `f` that write has the given outcome ("ok", "flush-timeout", or the name of
    the error the socket raises).  A readline() that raises DeviceError is recorded as `X` and the reading goes on.
    `flog` (a list) receives, for the distribution report, what was buffered when each write / raising read happened."""
    from gscrib.printrun.device import READ_EMPTY, READ_EOF, DeviceError

    out = []
    polls = poll_set(polls, ncalls)
    for i in range(ncalls + 1):
        if i in polls:
            d.is_connected          # public, read-only status query; its answer is not judged
        if i == ncalls:
            break
        for j, w in writes or ():
            if j == i:
                if f is not None:
                    f.wnext = w
                if flog is not None:
                    flog.append(("write-ok" if w in ("ok", "flush-timeout") else "write-fails", _buffered(d)))
                with contextlib.suppress(DeviceError):
                    d.write(WRITE_DATA)     # whether it raises is not judged here: only what the reads return
        before = _buffered(d) if flog is not None else None
        try:
            r = d.readline()
        except DeviceError:
            out.append("X")
            if flog is not None:
                flog.append(("read-raises", before))
            continue
        if r is READ_EOF:
            out.append("E")
        elif r == READ_EMPTY:
            out.append("-")
        else:
            out.append("l" + bytes(r).hex())
    return out


def impl_session(conns, lower_seed, polls=None, writes=None):
    """One Device object; for each (events, ncalls): connect(), ncalls x readline() (with the status polls of
    `polls[k]` in between), disconnect().

    Per connection: the usual record, the bytes that were buffered when its first readline() was made
    (`carry`), the bytes the Device actually took from the socket (`received`) and whether it read the
    end-of-stream mark (`eof_seen`) or was shown it by a non-consuming look at the socket (`eof_peeked`)."""
    import gscrib.printrun.device as devmod

    rng = random.Random(lower_seed)
    net = _Net([lower_events(ev, rng) for ev, _ in conns])
    d = devmod.Device()
    recs = []
    with net.patched(devmod):
        for k, (ev, ncalls) in enumerate(conns):
            d.connect("printer.local:23")
            assert net.k == k + 1, "connect() did not open exactly one connection"
            carry = _pending(d)
            f = net.scripts[k][0]
            flog = []
            out = _calls(d, ncalls, polls[k] if polls else None, writes[k] if writes else None, f, flog)
            buf = _pending(d)
            d.disconnect()
            taken = f.taken
            recs.append({"rec": " ".join(out) + " | buf=" + buf.hex(), "carry": carry.hex(), "faults": flog,
                         "received": b"".join(x for x in taken if isinstance(x, bytes)).hex(),
                         "eof_seen": any(x == b"" for x in taken), "eof_peeked": f.peeked_eof})
    return recs


def session_model_lines(conns, recs):
    """The model is per connection (fresh buffer): bytes carried in are given to it as a leading chunk."""
    out = []
    for (ev, n), r in zip(conns, recs):
        carry = bytes.fromhex(r["carry"])
        # no readline() call on this connection: nothing of the model to compare (it would never take the leading chunk);
        # a read that raises is no event of the model: such a connection is judged by the oracle only
        ok = n and not any(e[0] == "x" for e in ev)
        out.append(model_line(([("c", carry)] if carry else []) + list(ev), n) if ok else None)
    return out


# ------------------------------------------------------------------ oracle (property on implementation output)
def oracle(events, record):
    """The lines returned are exactly the stream cut after each newline; tail delivered at close."""
    stream = b"".join(e[1] for e in events if e[0] == "c")
    has_eof = any(e[0] == "e" for e in events)
    res, buf = record.split(" | buf=")
    toks = res.split(" ") if res else []
    lines = [bytes.fromhex(t[1:]) for t in toks if t.startswith("l")]
    expect = stream.split(b"\n")
    tail = expect.pop()
    expect = [x + b"\n" for x in expect]
    if has_eof and "E" in toks:
        if tail:
            expect.append(tail)
        if lines != expect:
            return f"lines returned differ from the stream cut after each newline: got {lines!r}, expected {expect!r}"
        if bytes.fromhex(buf):
            return "bytes left in the buffer after end-of-stream was reported"
        k = toks.index("E")
        if any(t.startswith("l") for t in toks[k:]):
            return "a line was returned after end-of-stream"
    else:
        # not (yet) closed: what was returned must be a prefix of the expected lines and nothing may be lost
        got = b"".join(lines) + bytes.fromhex(buf)
        if not stream.startswith(got):
            return f"returned+buffered bytes {got!r} are not a prefix of the stream {stream!r}"
        if lines != expect[: len(lines)] and not (has_eof and lines[:-1] == expect[: len(lines) - 1]):
            return f"returned lines {lines!r} are not the first lines of the stream {expect!r}"
    return None


def oracle_life(conns, recs):
    """Whole life of one Device: the lines returned, in order over all its connections, are everything it
    received cut after each newline and at each close by the peer (unterminated tail delivered there)."""
    NLb = b"\n"
    received_all, lines_all, expect_all, carry = b"", [], [], b""
    for k, ((events, ncalls), r) in enumerate(zip(conns, recs)):
        at = f"connection {k + 1}: "
        res, buf = r["rec"].split(" | buf=")
        buf = bytes.fromhex(buf)
        toks = res.split(" ") if res else []
        lines = [bytes.fromhex(t[1:]) for t in toks if t.startswith("l")]
        received = bytes.fromhex(r["received"])
        # the close by the peer has been observed by the Device: it read the end-of-stream mark, or it reports
        # end-of-stream after a non-consuming look at the socket was answered "closed" (nothing is unread then)
        eof_seen = r["eof_seen"] or ("E" in toks and r.get("eof_peeked", False))
        sent = b"".join(e[1] for e in events if e[0] == "c")
        has_eof = any(e[0] == "e" for e in events)
        n_again = sum(1 for e in events if e[0] in ("a", "x"))     # calls that end with no line: time-outs, reads that raise
        backlog = len(expect_all) - len(lines_all)          # complete lines received earlier, not yet returned
        if "E" in toks:
            if not eof_seen:
                return at + (f"end-of-stream reported although no close by the peer was seen ({len(sent) - len(received)} "
                             f"byte(s) of this connection's stream {sent!r} never delivered)")
            if any(t.startswith("l") for t in toks[toks.index("E"):]):
                return at + "a line was returned after end-of-stream"
        received_all += received
        carry_in, expect_before = carry, list(expect_all)
        pieces = (carry + received).split(NLb)
        carry = pieces.pop()
        expect_all += [x + NLb for x in pieces]
        if eof_seen:
            if carry:
                expect_all.append(carry)
            carry = b""
        lines_all += lines
        if lines_all != expect_all[: len(lines_all)]:
            j = next((i for i, (a, b) in enumerate(zip(lines_all, expect_all)) if a != b), min(len(lines_all), len(expect_all)))
            return at + (f"line #{j + 1} of the Device's life is {lines_all[j]!r}, the received stream cut after each newline "
                         f"(and at each peer close) has {expect_all[j] if j < len(expect_all) else None!r} there")
        if b"".join(lines_all) + buf != received_all:
            return at + (f"bytes lost or duplicated: returned+buffered {len(b''.join(lines_all)) + len(buf)} bytes, "
                         f"received {len(received_all)}")
        if "E" in toks and lines_all != expect_all:
            return at + (f"end-of-stream reported before every received byte was delivered: {buf!r} was received and is "
                         f"still buffered, lines returned on this connection {lines!r}")
        if ncalls >= backlog + sent.count(NLb) + n_again + (1 if has_eof else 0):
            # enough calls for every line, every time-out and the close: every line of the stream must have come out
            # (an unterminated tail may still be unread if the peer has not closed)
            full = (carry_in + sent).split(NLb)
            tail = full.pop()
            full = expect_before + [x + NLb for x in full] + ([tail] if (has_eof and tail) else [])
            if lines_all != full or (has_eof and not eof_seen):
                return at + (f"{ncalls} readline() calls were enough to deliver the stream {sent!r}"
                             f"{' and its end' if has_eof else ''}, but only {received!r} was read and {lines!r} returned")
    return None


# ------------------------------------------------------------------ generation
def gen_case(rng):
    n = rng.choice([0, 1, 2, 5, 20, 60, 200, 700])
    n = rng.randint(0, n)
    dens = rng.choice([0.02, 0.1, 0.3, 0.7])
    alphabet = b"ab\r0123 ok:.XYZ\xff\x00"
    stream = bytes(10 if rng.random() < dens else rng.choice(alphabet) for _ in range(n))
    events, i = [], 0
    maxk = rng.choice([1, 2, 3, 16, 64, 256])
    pa = rng.choice([0.0, 0.1, 0.4])
    while i < len(stream):
        while rng.random() < pa:
            events.append(("a",))
        k = maxk if rng.random() < 0.3 else rng.randint(1, maxk)   # reads that fill the 256-byte request exactly are frequent
        events.append(("c", stream[i : i + k]))
        i += k
    while rng.random() < pa:
        events.append(("a",))
    closed = rng.random() < 0.85
    if closed:
        events.append(("e",))
    nlines = stream.count(b"\n")
    ncalls = nlines + sum(1 for e in events if e[0] == "a") + (4 if closed else 1) + rng.randint(0, 2)
    if rng.random() < 0.15 and ncalls > 1:
        ncalls = rng.randint(1, ncalls)  # stop early: exercises the "not yet closed" clauses
    return events, ncalls, gen_polls(rng, ncalls)


def gen_polls(rng, ncalls):
    """Status polls between the reads: none / before every read (what printcore's listener does) / a random subset."""
    u = rng.random()
    if u < 0.55:
        return None
    if u < 0.8:
        return "all"
    p = rng.choice([0.1, 0.3, 0.6])
    return [i for i in range(ncalls + 1) if rng.random() < p] or None


def exhaustive_cases(maxlen):
    """All strings <= maxlen over {a, \\n}, all fragmentations, `again` before a fixed chunk subset, then EOF;
    each without status polls and with one before every read."""
    for L in range(maxlen + 1):
        for s in itertools.product(b"a\n", repeat=L):
            s = bytes(s)
            for cuts in itertools.product([0, 1], repeat=max(0, L - 1)):
                chunks, cur = [], b""
                for j, ch in enumerate(s):
                    cur += bytes([ch])
                    if j < L - 1 and cuts[j]:
                        chunks.append(cur)
                        cur = b""
                if cur:
                    chunks.append(cur)
                for again_mask in ([0] * len(chunks), [1] * len(chunks)):
                    ev = []
                    for c, a in zip(chunks, again_mask):
                        if a:
                            ev.append(("a",))
                        ev.append(("c", c))
                    ev.append(("e",))
                    for polls in (None, "all"):
                        yield ev, s.count(b"\n") + sum(again_mask) + 3, polls


def case_repr(events, ncalls, polls=None, writes=None):
    r = {"calls": ncalls, "events": ["c" + e[1].hex() if e[0] == "c" else "x" + e[1] if e[0] == "x" else e[0] for e in events]}
    if polls:
        r["polls"] = polls
    if writes:
        r["writes"] = [list(w) for w in writes]
    return r


def unrepr_events(evs):
    return [("c", bytes.fromhex(e[1:])) if e.startswith("c") else ("x", e[1:]) if e.startswith("x") else (e,) for e in evs]


def poll_label(polls):
    return "polls:" + ("none" if not polls else "before-every-read" if polls == "all" else "some")


ENDINGS = ("close-nl", "close-tail", "close-early", "drop-clean", "drop-leftover")


def gen_conn(rng, ending):
    """One connection of a session.  How it ends:
    close-nl       stream ends with a newline (or is empty), the peer closes, read up to end-of-stream
    close-tail     stream ends with an unterminated tail, the peer closes, read up to end-of-stream
    close-early    the peer closes, but the host disconnects after too few calls (bytes left buffered / unread)
    drop-clean     the peer stays; every line is read, then the host disconnects (nothing buffered)
    drop-leftover  the peer stays; the host disconnects with an unterminated tail (and maybe lines) buffered"""
    n = rng.randint(0, rng.choice([0, 1, 3, 8, 30, 120, 400]))
    dens = rng.choice([0.05, 0.2, 0.5])
    alphabet = b"ab\r0123 ok:.XYZ\xff\x00"
    stream = bytes(10 if rng.random() < dens else rng.choice(alphabet) for _ in range(n))
    if ending in ("close-nl", "drop-clean"):
        stream = stream + b"\n" if (stream or rng.random() < 0.7) else stream
    elif ending in ("close-tail", "drop-leftover"):
        stream += bytes([rng.choice(alphabet)])
    events, i = [], 0
    maxk = rng.choice([1, 2, 3, 16, 256])
    pa = rng.choice([0.0, 0.1, 0.4])
    while i < len(stream):
        while rng.random() < pa:
            events.append(("a",))
        k = maxk if rng.random() < 0.3 else rng.randint(1, maxk)
        events.append(("c", stream[i : i + k]))
        i += k
    while rng.random() < pa:
        events.append(("a",))
    closed = ending.startswith("close")
    if closed:
        events.append(("e",))
    enough = stream.count(b"\n") + sum(1 for e in events if e[0] == "a")
    if ending == "close-early":
        ncalls = rng.randint(0, enough)
    elif ending == "drop-leftover" and rng.random() < 0.5:
        ncalls = rng.randint(0, enough)
    else:
        ncalls = enough + (rng.randint(1, 3) if closed else rng.randint(0, 1))
    return events, ncalls


def gen_session(rng):
    """One Device, 2..6 consecutive connections with independent streams / fragmentations / endings."""
    k = rng.choice([2, 2, 2, 3, 3, 4, 6])
    endings = [rng.choice(ENDINGS) for _ in range(k)]
    conns = []
    for e in endings:
        ev, n = gen_conn(rng, e)
        if conns and rng.random() < 0.5:
            n += 3          # lines carried in from an earlier connection need calls of their own
        conns.append((ev, n))
    seed = rng.randrange(1 << 30)
    u = rng.random()
    if u < 0.5:
        polls = None
    elif u < 0.75:
        polls = ["all"] * k
    else:
        polls = [gen_polls(rng, n) for _, n in conns]
        polls = polls if any(polls) else None
    return conns, endings, seed, polls


def session_repr(conns, lower_seed, polls=None, writes=None):
    return {"session": [case_repr(ev, n, polls[k] if polls else None, writes[k] if writes else None)
                        for k, (ev, n) in enumerate(conns)],
            "lower_seed": lower_seed}


def _sess(s):
    """(conns, endings, lower seed[, polls[, writes]]) -> always five fields"""
    return (*s, None, None)[:5]


# ------------------------------------------------------------------ faults of the link between the reads
def gen_fault_conn(rng):
    """One connection whose packets carry several lines each (plus, often, an unterminated tail), with faults between
    the reads: `Device.write()` calls placed before some of the readline() calls - most of them failing, as on a socket
    whose peer has gone - and / or reads that raise (connection reset) in the middle of the stream or after its last
    packet.  The reading then goes on to the end-of-stream mark (`to-end`), or the host gives up early (`dropped`)."""
    alphabet = b"ab\r0123 ok:.XYZ\xff\x00"
    nl = rng.randint(2, rng.choice([2, 3, 5, 12, 40]))
    maxlen = rng.choice([0, 3, 10, 40])
    stream = b"".join(bytes(rng.choice(alphabet) for _ in range(rng.randint(0, maxlen))) + b"\n" for _ in range(nl))
    if rng.random() < 0.6:
        stream += bytes(rng.choice(alphabet) for _ in range(rng.randint(1, 8)))
    kind = rng.choice(["write", "write", "raise", "both"])
    events, i = [], 0
    maxk = rng.choice([8, 32, 256, 256])       # packets of several lines
    pa = rng.choice([0.0, 0.0, 0.15])
    while i < len(stream):
        while rng.random() < pa:
            events.append(("a",))
        k = maxk if rng.random() < 0.5 else rng.randint(2, maxk)
        events.append(("c", stream[i : i + k]))
        i += k
    if kind != "write":
        err = lambda: ("x", rng.choice(("ECONNRESET", "ECONNRESET", "ETIMEDOUT", "EHOSTUNREACH")))
        if rng.random() < 0.35:                 # in the middle of the stream (a partial line is usually buffered then)
            events.insert(rng.randint(1, len(events)), err())
        else:                                   # after the last packet (the tail, if any, is buffered then)
            events += [err() for _ in range(rng.choice([1, 1, 2]))]
    closed = rng.random() < 0.85
    if closed:
        events.append(("e",))
    enough = nl + sum(1 for e in events if e[0] in ("a", "x"))
    if rng.random() < 0.7:
        ncalls, how = enough + (rng.randint(2, 4) if closed else rng.randint(0, 1)), "to-end"
    else:
        ncalls, how = rng.randint(1, enough), "dropped"
    writes = []
    if kind != "raise":
        for _ in range(rng.choice([1, 1, 2, 3])):
            at = rng.randint(1, max(1, min(ncalls - 1, nl))) if rng.random() < 0.85 else rng.randint(0, ncalls - 1)
            w = rng.choice(("EPIPE", "EPIPE", "ECONNRESET") + LINK_ERRORS + ("runtime",)) if rng.random() < 0.65 \
                else rng.choice(("ok", "ok", "flush-timeout"))
            if at < ncalls:
                writes.append((at, w))
        writes.sort(key=lambda w: w[0])
    return (events, ncalls), writes or None, f"{kind}/{how}"


def gen_fault_session(rng):
    """One Device, 1..3 consecutive connections, most of them with faults between the reads (the others as in
    `gen_conn`); status polls as in `gen_session`."""
    k = rng.choice([1, 1, 1, 2, 3])
    conns, writes, endings = [], [], []
    for j in range(k):
        if k > 1 and rng.random() < 0.3:
            e = rng.choice(ENDINGS)
            c, w = gen_conn(rng, e), None
        else:
            c, w, e = gen_fault_conn(rng)
        if conns and rng.random() < 0.5:
            c = (c[0], c[1] + 3)
        conns.append(c)
        writes.append(w)
        endings.append(e)
    seed = rng.randrange(1 << 30)
    u = rng.random()
    if u < 0.5:
        polls = None
    elif u < 0.75:
        polls = ["all"] * k
    else:
        polls = [gen_polls(rng, n) for _, n in conns]
        polls = polls if any(polls) else None
    return conns, endings, seed, polls, (writes if any(writes) else None)


def fault_nontrivial(conns, recs, writes):
    """a failing write or a raising read happened while something received was still buffered"""
    return any(kind != "write-ok" and what != "nothing-buffered" for r in recs for kind, what in r["faults"])


def gen_tcp_fault(rng):
    """Real loopback peer: it sends >= 2 short lines (maybe a tail) at once and goes away.  `write-after-close`: the
    peer closes; the Device reads a few lines, then writes until a write fails (the first one usually still succeeds
    and is answered by a reset), then reads on.  `reset-by-peer`: the Device has written a command the peer never
    reads, so that the peer's close resets the connection: a read raises after the data, then end-of-stream."""
    alphabet = b"ab\r0123 ok:.XYZ\xff\x00"
    nl = rng.randint(2, rng.choice([2, 3, 6, 20, 60]))
    maxlen = rng.choice([2, 8, 30])
    stream = b"".join(bytes(rng.choice(alphabet) for _ in range(rng.randint(0, maxlen))) + b"\n" for _ in range(nl))
    if rng.random() < 0.6:
        stream += bytes(rng.choice(alphabet) for _ in range(rng.randint(1, 8)))
    mode = rng.choice(("write-after-close", "write-after-close", "reset-by-peer"))
    first = rng.randint(1, nl - 1) if rng.random() < 0.8 else rng.randint(0, nl)
    return stream, first, mode, ("all" if rng.random() < 0.4 else None)


def tcp_fault_repr(stream, first, mode, polls):
    return {"tcp_fault": {"send": stream.hex(), "first_calls": first, "mode": mode, **({"polls": polls} if polls else {})}}


def impl_tcp_fault(stream, first, mode, polls):
    """-> (record, whether a write failed); None: no loopback connection to be had."""
    import time

    import gscrib.printrun.device as devmod

    srv, conn, d = _socket.socket(_socket.AF_INET, _socket.SOCK_STREAM), None, devmod.Device()
    try:
        try:
            srv.bind(("127.0.0.1", 0))
            srv.listen(1)
            srv.settimeout(5)
            d.connect("127.0.0.1:%d" % srv.getsockname()[1])
            conn, _ = srv.accept()
            conn.setsockopt(_socket.IPPROTO_TCP, _socket.TCP_NODELAY, 1)
        except (OSError, devmod.DeviceError):
            return None
        d._timeout = 0.02
        wfailed = False
        if mode == "reset-by-peer":
            d.write(WRITE_DATA)        # never read by the peer: its close() below resets the connection
            time.sleep(0.002)
        conn.sendall(stream)
        conn.close()
        out = _calls(d, first, polls)
        if mode == "write-after-close":
            for _ in range(25):
                try:
                    d.write(WRITE_DATA)
                except devmod.DeviceError:
                    wfailed = True
                    break
                time.sleep(0.001)
        for _ in range(stream.count(b"\n") + 8):
            out += _calls(d, 1, polls)
            if out[-1] == "E":
                break
        return " ".join(out) + " | buf=" + _pending(d).hex(), wfailed
    finally:
        with contextlib.suppress(Exception):
            d.disconnect()
        if conn is not None:
            with contextlib.suppress(OSError):
                conn.close()
        srv.close()


def run_tcp_fault(R, cases, label):
    for stream, first, mode, polls in cases:
        got = impl_tcp_fault(stream, first, mode, polls)
        if got is None:
            R.count(f"{label}:unavailable")
            continue
        rec, wfailed = got
        rep = tcp_fault_repr(stream, first, mode, polls)
        R.case(rep, nontrivial=(wfailed or " X" in " " + rec))
        R.count(label, f"{label}:{mode}", f"{label}:polls:{'before-every-read' if polls else 'none'}",
                f"{label}:{'a-write-failed' if wfailed else 'no-write-failed'}",
                f"{label}:{'a-read-raised' if ' X' in ' ' + rec else 'no-read-raised'}",
                f"{label}:{'end-of-stream-reported' if ' E' in ' ' + rec else 'end-of-stream-not-reached'}")
        msg = oracle([("c", stream), ("e",)], rec)
        if msg:
            R.fail(rep, msg, tag="tcp-fault")


# ------------------------------------------------------------------ real loopback TCP connections (oracle only)
def gen_tcp(rng):
    """The peer's replies (short lines, as a printer sends them, maybe an unterminated tail) sent in 1..3 phases, the
    last one followed by the peer closing; after each phase the Device makes some reads (enough, after the last one,
    for every line, the tail and the end-of-stream), with status polls in between."""
    alphabet = b"ab\r0123 ok:.XYZ\xff\x00"
    nl = rng.randint(0, rng.choice([1, 2, 4, 12, 60]))
    stream = b"".join(bytes(rng.choice(alphabet) for _ in range(rng.randint(0, rng.choice([2, 8, 40])))) + b"\n"
                      for _ in range(nl))
    if rng.random() < 0.5:
        stream += bytes(rng.choice(alphabet) for _ in range(rng.randint(1, 8)))
    k = rng.choice([1, 1, 2, 3])
    cuts = sorted(rng.randint(0, len(stream)) for _ in range(k - 1))
    parts = [stream[a:b] for a, b in zip([0] + cuts, cuts + [len(stream)])]
    phases, avail = [], 0
    for j, part in enumerate(parts):
        avail += part.count(b"\n")
        if j == k - 1:
            calls = avail + 4
        else:
            calls = avail + 1 if rng.random() < 0.15 else rng.randint(0, avail)   # sometimes one read that finds nothing
            avail -= min(calls, avail)
        phases.append((part, calls))
    u = rng.random()
    polls = None if u < 0.3 else ["all"] * k if u < 0.75 else [gen_polls(rng, n) for _, n in phases]
    return phases, (polls if polls and any(polls) else None)


def tcp_repr(phases, polls):
    return {"tcp": [{"send": part.hex(), "calls": n, **({"polls": polls[j]} if polls and polls[j] else {})}
                    for j, (part, n) in enumerate(phases)]}


def impl_tcp(phases, polls):
    """A real Device connected to a real listening socket on the loopback interface.  None: no such socket to be had."""
    import gscrib.printrun.device as devmod

    srv, conn, d = _socket.socket(_socket.AF_INET, _socket.SOCK_STREAM), None, devmod.Device()
    try:
        try:
            srv.bind(("127.0.0.1", 0))
            srv.listen(1)
            srv.settimeout(5)
            d.connect("127.0.0.1:%d" % srv.getsockname()[1])
            conn, _ = srv.accept()
            conn.setsockopt(_socket.IPPROTO_TCP, _socket.TCP_NODELAY, 1)
        except (OSError, devmod.DeviceError):
            return None
        d._timeout = 0.02          # a read that finds nothing waits this long (0.25 s as connected)
        out = []
        for j, (part, calls) in enumerate(phases):
            if part:
                conn.sendall(part)
            if j == len(phases) - 1:
                conn.close()       # orderly shutdown: the Device never writes, nothing of it is unread here
            out += _calls(d, calls, polls[j] if polls else None)
        return " ".join(out) + " | buf=" + _pending(d).hex()
    finally:
        with contextlib.suppress(Exception):
            d.disconnect()
        if conn is not None:
            conn.close()
        srv.close()


def run_tcp(R, cases, label):
    for phases, polls in cases:
        rec = impl_tcp(phases, polls)
        if rec is None:
            R.count(f"{label}:unavailable")
            continue
        stream = b"".join(part for part, _ in phases)
        rep = tcp_repr(phases, polls)
        R.case(rep, nontrivial=(stream.count(b"\n") >= 2))
        R.count(label, f"{label}:phases:{len(phases)}",
                f"{label}:polls:{'none' if not polls else 'before-every-read' if all(q == 'all' for q in polls) else 'some'}",
                f"{label}:{'end-of-stream-reported' if ' E' in ' ' + rec else 'end-of-stream-not-reached'}")
        msg = oracle([("c", stream), ("e",)], rec)
        if msg:
            R.fail(rep, msg, tag="tcp")


def run_batch(R, cases, label):
    import random

    cases = [(*c, None)[:3] for c in cases]        # (events, calls[, status polls])
    lines = [model_line(ev, n) for ev, n, _ in cases]     # a status poll is a no-op of the model
    model_out = core.run_model("socket", lines)
    for (ev, n, polls), mo in zip(cases, model_out):
        sub = random.Random(R.rng.random())
        io = impl_run(ev, n, sub, polls)
        stream_len = sum(len(e[1]) for e in ev if e[0] == "c")
        nl = sum(e[1].count(b"\n") for e in ev if e[0] == "c")
        R.case(case_repr(ev, n, polls), nontrivial=(nl >= 1 and len(ev) >= 3))
        R.count(label, poll_label(polls), f"chunks:{min(len(ev) // 10 * 10, 100)}+", f"len:{'0' if stream_len == 0 else '<=20' if stream_len <= 20 else '<=200' if stream_len <= 200 else '>200'}",
                "closed" if any(e[0] == "e" for e in ev) else "open")
        if io != mo:
            R.disagree("socket-readline", case_repr(ev, n, polls), io, mo)
        msg = oracle(ev, io)
        if msg:
            R.fail(case_repr(ev, n, polls), msg, tag="split")


def run_sessions(R, sessions, label, nontrivial=None, tag="reconnect"):
    sessions = [_sess(s) for s in sessions]
    recs_all = [impl_session(conns, seed, polls, writes) for conns, _, seed, polls, writes in sessions]
    lines, where = [], []
    for si, ((conns, _, _, _, _), recs) in enumerate(zip(sessions, recs_all)):
        for ci, ln in enumerate(session_model_lines(conns, recs)):
            if ln is not None:
                lines.append(ln)
                where.append((si, ci))
    model_out = core.run_model("socket", lines)
    bad = {}
    for (si, ci), mo in zip(where, model_out):
        if recs_all[si][ci]["rec"] != mo and si not in bad:
            bad[si] = (ci, mo)
    for si, ((conns, endings, seed, polls, writes), recs) in enumerate(zip(sessions, recs_all)):
        rep = session_repr(conns, seed, polls, writes)
        with_data = sum(1 for ev, _ in conns if any(e[0] == "c" for e in ev))
        nl = sum(e[1].count(b"\n") for ev, _ in conns for e in ev if e[0] == "c")
        R.case(rep, nontrivial=(nontrivial(conns, recs, writes) if nontrivial else (with_data >= 2 and nl >= 1)))
        R.count(label, f"{label}:conns:{len(conns)}", *{f"{label}:{e}" for e in endings},
                f"{label}:{'carry-in' if any(r['carry'] for r in recs) else 'no-carry'}",
                f"{label}:polls:{'none' if not polls else 'before-every-read' if all(q == 'all' for q in polls) else 'some'}")
        for a, b in zip(endings, endings[1:]):
            R.count(f"{label}:after:{a}")      # how the previous connection of a reconnect ended
        for kind, what in {f for r in recs for f in r["faults"]}:
            R.count(f"{label}:{kind}:{what}")  # what was buffered when a write was made / a read raised
        if si in bad:
            ci, mo = bad[si]
            R.disagree("socket-readline", rep, recs[ci]["rec"], mo, step=ci)
        msg = oracle_life(conns, recs)
        if msg:
            R.fail(rep, msg, tag=tag)


def run(R: core.Run):
    R.rule = ("random byte streams (newline density 2-70%) x random fragmentations (1..256 bytes) x random "
              "'no data yet' insertions x early stop; non-trivial = at least one newline and >= 3 socket events; distinct by hash; "
              "plus sessions of 2..6 consecutive connections of ONE Device through connect()/disconnect() (each ending by peer "
              "close after a newline / after an unterminated tail / unread, or by host disconnect with nothing / a tail buffered), "
              "judged over the Device's whole life; non-trivial = >= 2 connections carrying data and >= 1 newline; "
              "in both families ~45% of the cases read the public `is_connected` property between the reads (before every "
              "read / before a random subset), the scripted socket answering recv / recv(MSG_PEEK) consistently with the "
              "scripted stream; plus a few real loopback TCP connections (peer sends in 1..3 phases and closes, reads and "
              "status polls in between; oracle only; non-trivial = >= 2 newlines); "
              "plus link faults between the reads: sessions of 1..3 connections whose packets carry several lines (and tails), "
              "with Device.write() calls - 65% of them failing with EPIPE / ECONNRESET / ... / RuntimeError on the scripted "
              "socket file - before some of the readline() calls and / or reads that raise OSError in the middle of the "
              "stream or after its last packet, the reading going on afterwards (or the host reconnecting), judged over the "
              "Device's whole life; non-trivial = a failing write or a raising read happened while received bytes were "
              "buffered; a few of them over real loopback TCP (write after the peer closed until it fails; reset by peer)")
    R.assumptions = [
        "the OS socket layer / selectors deliver the bytes; the harness scripts `_socketfile.read` and `_selector.select`",
        "a real read() never returns b'' except at end-of-stream (modelled as the sticky `eof` event)",
        "reconnects: `socket.socket` / `selectors.DefaultSelector` as seen by gscrib.printrun.device are scripted; "
        "connect() always succeeds; the model is fed one connection at a time, bytes carried in as a leading chunk",
        "a read of `Device.is_connected` is no event of the model: the model line of a polled case is that of the same "
        "case without polls; a non-consuming recv(MSG_PEEK) on the scripted socket does not advance the script",
        "link faults: `Device.write()` is no event of the model either (connections with writes are compared with the model "
        "line of the same connection without them); a read that raises is not modelled: connections containing one are "
        "judged by the oracle only; whether write() itself raises is not judged, only what the reads return",
        "real loopback faults rely on the kernel keeping received, unread data readable after a reset (Linux does)",
    ]
    corpus = [
        ([("c", b"ab\nc"), ("a",), ("c", b"d\n"), ("c", b"e"), ("e",)], 5),
        ([("c", b"\n"), ("c", b"\n\n"), ("e",)], 6),
        ([("c", b"x" * 256), ("c", b"y" * 255 + b"\n"), ("e",)], 4),
        ([("a",), ("a",), ("e",)], 4),
        ([("c", b"a\nb\nc\nd"), ("e",)], 7),
        ([("c", (b"0123456\n" * 32)), ("c", b"tail\nmore"), ("e",)], 40),      # a full 256-byte read holding 32 lines, then data
        ([("c", (b"0123456\n" * 32)), ("e",)], 36),                              # ... then close
        ([("c", (b"x" * 255 + b"\n")), ("a",), ("c", b"y\n"), ("e",)], 6),
        # status polls between the reads (printcore's listener: before every read)
        ([("c", b"ok\nT:20 /0\nbye"), ("e",)], 5, "all"),                      # last packet = two lines and a tail, then close
        ([("c", b"a\n"), ("a",), ("c", b"b\nc\n"), ("e",)], 6, [2, 3]),
        ([("c", b"a\nb"), ("c", b"c\n")], 3, "all"),                           # peer still there
    ]
    run_batch(R, corpus, "corpus")
    cases = [gen_case(R.rng) for _ in range(R.n(3000, 60000))]
    run_batch(R, cases, "random")
    E = ("e",)
    session_corpus = [
        # tail at peer close, then a fresh stream on the same Device
        ([([("c", b"a\nb"), E], 4), ([("c", b"c\n"), ("c", b"d\n"), E], 4)], ["close-tail", "close-nl"], 1),
        # host disconnects with `T:2` buffered: carried into the next connection (see module docstring)
        ([([("c", b"ok\nT:2")], 2), ([("c", b"start\n"), E], 3)], ["drop-leftover", "close-nl"], 2),
        # clean drop, empty connection with a tail only, peer still alive on the last one
        ([([("c", b"x\n")], 2), ([("a",), ("c", b"y"), E], 4), ([("c", b"z\n"), ("c", b"w\n")], 2)],
         ["drop-clean", "close-tail", "drop-clean"], 3),
    ]
    session_corpus.append(
        # polled before every read: two lines in the last packet of the first connection, a tail in the second's
        ([([("c", b"ok\nok\n"), E], 4), ([("c", b"x\ny"), E], 4)], ["close-nl", "close-tail"], 4, ["all", "all"]))
    run_sessions(R, session_corpus, "reconnect-corpus")
    run_sessions(R, [gen_session(R.rng) for _ in range(R.n(700, 12000))], "reconnect")
    run_tcp(R, [gen_tcp(R.rng) for _ in range(R.n(30, 400))], "tcp-loopback")
    fault_corpus = [
        # last packet = two lines and a tail; one line read, the next command cannot be sent (peer gone), reading goes on
        ([([("c", b"ok\nT:20 /0\nbye"), E], 5)], ["write/to-end"], 5, None, [[(1, "EPIPE")]]),
        # the connection is reset while a tail is buffered; the end-of-stream mark follows
        ([([("c", b"ok\nT:2"), ("x", "ECONNRESET"), E], 5)], ["raise/to-end"], 6, None, None),
        # a failed write, one more line read, then the host reconnects with `c` still buffered
        ([([("c", b"a\nb\nc")], 2), ([("c", b"d\n"), E], 3)], ["write/dropped", "close-nl"], 7, ["all", None],
         [[(1, "ECONNRESET")], None]),
    ]
    run_sessions(R, fault_corpus, "faults-corpus", fault_nontrivial, "fault")
    fault_sessions = [gen_fault_session(R.rng) for _ in range(R.n(500, 8000))]
    run_sessions(R, fault_sessions, "faults", fault_nontrivial, "fault")
    run_tcp_fault(R, [gen_tcp_fault(R.rng) for _ in range(R.n(16, 200))], "tcp-faults")
    if R.thorough:
        ex = list(exhaustive_cases(6))
        run_batch(R, ex, "exhaustive<=6")
        R.exhaustive = False
        R.extra["exhaustive_subrun"] = {"cases": len(ex), "scope": "all strings <= 6 over {a,\\n} x all fragmentations x {no, all} time-outs, then EOF, x {no status poll, one before every read}", "exhaustive": True}
    if R.broken:
        # failing-input search: a fresh, larger batch judged by the oracle only
        R.search_batches += 1
        for _ in range(R.n(6000, 20000)):
            ev, n, polls = gen_case(R.rng)
            import random
            io = impl_run(ev, n, random.Random(R.rng.random()), polls)
            R.evaluations += 1
            msg = oracle(ev, io)
            if msg:
                R.fail(case_repr(ev, n, polls), msg, tag="split")
        for _ in range(R.n(1500, 5000)):
            conns, _, seed, polls = gen_session(R.rng)
            R.evaluations += 1
            msg = oracle_life(conns, impl_session(conns, seed, polls))
            if msg:
                R.fail(session_repr(conns, seed, polls), msg, tag="reconnect")
        for _ in range(R.n(1000, 4000)):
            conns, _, seed, polls, writes = gen_fault_session(R.rng)
            R.evaluations += 1
            msg = oracle_life(conns, impl_session(conns, seed, polls, writes))
            if msg:
                R.fail(session_repr(conns, seed, polls, writes), msg, tag="fault")
    return {}, {}


def replay(data):
    import random

    core.use_repo()
    fl = data.get("failure") or data.get("first", {})
    case = fl.get("case")
    if not case:
        print("replay: no case recorded (", data.get("no_longer_checks"), ")")
        return 1
    unhex = unrepr_events
    if "tcp_fault" in case:
        c = case["tcp_fault"]
        stream = bytes.fromhex(c["send"])
        got = impl_tcp_fault(stream, c["first_calls"], c["mode"], c.get("polls"))
        if got is None:
            print("replay: no loopback TCP connection could be made")
            return 1
        msg = oracle([("c", stream), ("e",)], got[0])
        print(f"peer sent {stream!r} and went away ({c['mode']}); a write failed: {got[1]}")
        print("impl :", got[0])
        print("oracle:", msg or "ok")
        return 1 if msg else 0
    if "tcp" in case:
        phases = [(bytes.fromhex(ph["send"]), ph["calls"]) for ph in case["tcp"]]
        polls = [ph.get("polls") for ph in case["tcp"]]
        rec = impl_tcp(phases, polls if any(polls) else None)
        if rec is None:
            print("replay: no loopback TCP connection could be made")
            return 1
        msg = oracle([("c", b"".join(p for p, _ in phases)), ("e",)], rec)
        print("impl :", rec)
        print("oracle:", msg or "ok")
        return 1 if msg else 0
    if "session" in case:
        conns = [(unhex(c["events"]), c["calls"]) for c in case["session"]]
        polls = [c.get("polls") for c in case["session"]]
        polls = polls if any(polls) else None
        writes = [[tuple(w) for w in c["writes"]] if c.get("writes") else None for c in case["session"]]
        writes = writes if any(writes) else None
        recs = impl_session(conns, case["lower_seed"], polls, writes)
        mls = session_model_lines(conns, recs)
        mos = iter(core.run_model("socket", [m for m in mls if m is not None]))
        mos = [next(mos) if m is not None else r["rec"] for m, r in zip(mls, recs)]
        for k, (r, mo) in enumerate(zip(recs, mos)):
            print(f"connection {k + 1}: carried in {bytes.fromhex(r['carry'])!r}, read {bytes.fromhex(r['received'])!r}"
                  f"{' + end-of-stream' if r['eof_seen'] else ''}")
            print("  impl :", r["rec"])
            print("  model:", mo if mls[k] is not None else "(not modelled: no call, or a read that raises)")
            if r["faults"]:
                print("  link faults (`X` = a readline() that raised):", ", ".join(f"{a} with {b}" for a, b in r["faults"]))
        if writes:
            print("Device.write() before these readline() calls, with this outcome on the socket:", writes)
        if polls:
            print("status polls (`is_connected` read before these readline() calls):", polls)
        msg = oracle_life(conns, recs)
        print("oracle:", msg or "ok")
        return 1 if (msg or any(r["rec"] != mo for r, mo in zip(recs, mos))) else 0
    ev = unhex(case["events"])
    io = impl_run(ev, case["calls"], random.Random(0), case.get("polls"))
    if case.get("polls"):
        print("status polls (`is_connected` read before these readline() calls):", case["polls"])
    mo = core.run_model("socket", [model_line(ev, case["calls"])])[0]
    msg = oracle(ev, io)
    print("impl :", io)
    print("model:", mo)
    print("oracle:", msg or "ok")
    return 1 if (msg or io != mo) else 0

"""Shared generator / correspondence engine for the properties that live on the `Builder` model
(C01, C02, C03, C05, C06, C07, C11, C20).  Each property module supplies its own generator profile,
projection (which record fields it compares) and oracle."""
from __future__ import annotations

import warnings
from fractions import Fraction

warnings.filterwarnings("ignore", category=RuntimeWarning)

from . import core
from .builder_impl import Impl, parse_record, show

G = 32  # grid denominator: IEEE arithmetic on multiples of 1/32 of moderate size is exact, 5 decimals print exactly

PROBES = ["towards", "towards-no-error", "away", "away-no-error"]
HALTS = ["pause", "optional-pause", "end-without-reset", "end-with-reset", "pallet-exchange",
         "wait-for-bed", "wait-for-hotend", "wait-for-chamber", "wait-for-motion"]
BKINDS = ["bed-temperature", "chamber-temperature", "hotend-temperature", "feed-rate", "tool-number", "tool-power"]

MOTION_KEYS = ["out", "stmts", "pos", "spos", "rel", "srel"]
ALL_KEYS = ["out", "stmts", "pos", "spos", "rel", "srel", "tool", "coola", "spin", "pmode", "cool", "power", "feed",
            "tnum", "swap", "halt", "bed", "hot", "ch", "erel", "fmode", "inches", "plane", "ccw", "res", "ms", "kelvin",
            "params", "nhook", "lasthook"]


class Gen:
    """History generator with a light shadow of the configuration it has produced (bounds) so that boundary
    values can be aimed at; everything random comes from `rng`."""

    def __init__(self, rng, weights: dict, malformed: float = 0.12, offgrid: bool = False, span: int = 16):
        self.rng, self.w, self.malformed, self.offgrid, self.span = rng, weights, malformed, offgrid, span
        self.axes = None
        self.num = {}
        self.recent = {}   # last value produced per kind: re-used so that "same value again after a change" is exercised

    # ---- values
    def coord(self, axis=None):
        v = self._coord(axis)
        key = ("coord", axis)
        if key in self.recent and self.rng.random() < 0.12:
            return self.recent[key]      # the same coordinate again (after whatever happened in between)
        if v not in ("nan", "inf", "-inf", "huge", "-huge"):
            self.recent[key] = v
        return v

    def _coord(self, axis=None):
        r = self.rng
        if r.random() < self.malformed * 0.5:
            return r.choice(["nan", "inf", "-inf", "huge", "-huge"])
        if self.axes and axis is not None and r.random() < 0.35:
            lo, hi = self.axes[0][axis], self.axes[1][axis]
            step = Fraction(1, G)
            return show(r.choice([lo, hi, lo - step, hi + step, lo + step, hi - step, Fraction(int((lo + hi) / 2 * G), G)]))
        if self.offgrid:
            if r.random() < 0.06:
                # magnitudes around and below the last printed decimal (micro nudges: 5e-05, 1.2e-07 ...)
                return show(Fraction(r.choice([1, -1]) * r.randint(1, 99) * 10.0 ** -r.randint(5, 9)))
            return show(Fraction(r.choice([r.uniform(-self.span, self.span), r.randint(-9, 9) / 3, r.randint(-50, 50) / 10])))
        return show(Fraction(r.randint(-self.span * G, self.span * G), G))

    def scalar(self, kind=None, lo=0, hi=2000):
        v = self._scalar(kind, lo, hi)
        if kind in self.recent and self.rng.random() < 0.25:
            return self.recent[kind]
        self.recent[kind] = v
        return v

    def _scalar(self, kind=None, lo=0, hi=2000):
        r = self.rng
        if r.random() < 0.06:
            return "0"
        if r.random() < self.malformed:
            return r.choice(["nan", "inf", "-inf", "-1", "-1/32", "huge"])
        if kind in self.num and r.random() < 0.5:
            a, b = self.num[kind]
            step = Fraction(1, G)
            return show(r.choice([a, b, a - step, b + step, Fraction(int((a + b) / 2 * G), G), a + step, b - step]))
        if self.offgrid and r.random() < 0.5:
            return show(Fraction(r.uniform(lo, hi)))
        return show(Fraction(r.randint(lo * G, hi * G), G) if r.random() < 0.3 else Fraction(r.randint(lo, hi)))

    def point_args(self, pmin=0):
        r = self.rng
        out = []
        axes = [a for a in "xyz" if r.random() < 0.55]
        if len(axes) < pmin:
            axes = [r.choice("xyz")]
        for a in axes:
            out.append(f"{a}={self.coord('xyz'.index(a))}")
        return out

    def params(self, allow=("F", "S", "E", "A")):
        r = self.rng
        out = []
        if "F" in allow and r.random() < 0.3:
            out.append("F:" + self.scalar("feed-rate", 1, 3000))
        if "S" in allow and r.random() < 0.15:
            out.append("S:" + self.scalar("tool-power", 0, 2000))
        if "E" in allow and r.random() < 0.2:
            out.append("E:" + show(Fraction(r.randint(-64, 640), G)))
        if "A" in allow and r.random() < 0.05:
            out.append("A:" + show(Fraction(r.randint(-64, 64), G)))
        return out

    # ---- one op
    def op(self) -> str:
        r = self.rng
        kind = r.choices(list(self.w), weights=list(self.w.values()))[0]
        return getattr(self, "g_" + kind)()

    def g_move(self):
        return " ".join([self.rng.choice(["move", "move", "rapid"])] + self.point_args() + self.params())

    def g_moveabs(self):
        return " ".join([self.rng.choice(["moveabs", "rapidabs"])] + self.point_args() + self.params())

    def g_setaxis(self):
        return " ".join(["setaxis"] + self.point_args(1) + self.params(("E",)))

    def g_home(self):
        r = self.rng
        if r.random() < 0.4:
            return "home"
        return " ".join(["home"] + [f"{a}=0" for a in "xyz" if r.random() < 0.4])

    def g_probe(self):
        m = self.rng.choice(PROBES + (["bogus"] if self.rng.random() < 0.05 else []))
        return " ".join(["probe", m] + self.point_args(1) + self.params(("F",)))

    def g_dist(self):
        return "dist " + self.rng.choice(["rel", "abs", "rel", "abs", "bogus"] if self.rng.random() < 0.1 else ["rel", "abs"])

    def g_enter(self):
        return "enter " + self.rng.choice(["rel", "abs"])

    def g_exit(self):
        # leaving the context normally or because the body raised (the managers restore in a `finally`)
        return self.rng.choice(["exit", "exit", "exitraise"])

    def g_feed(self):
        return "feed " + self.scalar("feed-rate", 1, 3000)

    def g_power(self):
        return "power " + self.scalar("tool-power", 0, 2000)

    def g_toolon(self):
        m = self.rng.choice(["clockwise", "counter"] * 6 + ["off", "bogus"])
        return f"toolon {m} {self.scalar('tool-power', 0, 2000)}"

    def g_tooloff(self):
        return "tooloff"

    def g_poweron(self):
        m = self.rng.choice(["constant", "dynamic"] * 6 + ["off", "bogus"])
        return f"poweron {m} {self.scalar('tool-power', 0, 2000)}"

    def g_poweroff(self):
        return "poweroff"

    def g_coolon(self):
        return "coolon " + self.rng.choice(["mist", "flood"] * 6 + ["off", "bogus"])

    def g_cooloff(self):
        return "cooloff"

    def g_toolchange(self):
        r = self.rng
        m = r.choice(["automatic", "manual"] * 6 + ["off", "bogus"])
        n = r.choice([1, 2, 3, 7, 12, 99, 100, 0, -1]) if r.random() < 0.8 else r.randint(-2, 300)
        if "tool-number" in self.num and r.random() < 0.5:
            a, b = self.num["tool-number"]
            n = int(r.choice([a, b, a - 1, b + 1]))
        return f"toolchange {m} {n}"

    def g_halt(self):
        r = self.rng
        m = r.choice(HALTS * 4 + ["off", "bogus"])
        ps = []
        if m.startswith("wait-for-") and m != "wait-for-motion" and r.random() < 0.8:
            kind = {"wait-for-bed": "bed-temperature", "wait-for-hotend": "hotend-temperature",
                    "wait-for-chamber": "chamber-temperature"}[m]
            ks = r.choice([["S"], ["R"], ["S", "R"], ["R", "S"]])
            ps = [f"{k}:{self.scalar(kind, 0, 300)}" for k in ks]
        elif r.random() < 0.15:
            ps = ["P:" + self.scalar(None, 0, 10)]
        return " ".join(["halt", m] + ps)

    def g_ehalt(self):
        r = self.rng
        n = r.choice([0, 0, 0, 40, 250, 300, 1000])     # length of the message (0 = the harness' short default)
        return "ehalt " + r.choice("01") + (f" {n}" if n else "")

    def g_temp(self):
        k = self.rng.choice(["bed", "hotend", "chamber"])
        return f"{k} {self.scalar(k + '-temperature', 0, 300)}"

    def g_misc(self):
        r = self.rng
        return r.choice([
            lambda: "sleep " + self.scalar(None, 0, 20),
            lambda: f"fan {self.scalar(None, 0, 255)} {r.choice([0, 0, 1, 2, -1])}",
            lambda: "units " + r.choice(["in", "mm"]),
            lambda: f"plane {r.choice([0, 1, 2])}",
            lambda: "dir " + r.choice(["cw", "ccw"]),
            lambda: "res " + show(Fraction(r.choice([1, 2, 3, 16, 32, 320, -1, 0]), G)),
            lambda: "emode " + r.choice(["rel", "abs"]),
            lambda: f"fmode {r.choice([0, 1, 2])}",
            lambda: "tunits " + r.choice(["s", "ms"]),
            lambda: "tempunits " + r.choice(["c", "k"]),
            lambda: "query " + r.choice("tp"),
            lambda: "comment",
        ])()

    def g_bounds(self):
        r = self.rng
        if r.random() < 0.4:
            lo = [Fraction(r.randint(-24 * G, 0), G) for _ in range(3)]
            hi = [l + Fraction(r.randint(0 if r.random() < 0.1 else 1, 40 * G), G) for l in lo]
            if r.random() < 0.12:
                i = r.randrange(3)
                hi[i] = lo[i]            # a flat axis: the box is a plane / a line (legal as long as another axis is open)
            if r.random() < 0.05:
                lo, hi = hi, lo
            if all(a <= b for a, b in zip(lo, hi)) and any(a < b for a, b in zip(lo, hi)):
                self.axes = (lo, hi)
            return "boundsaxes " + " ".join(show(v) for v in lo + hi)
        k = r.choice(BKINDS)
        if k == "tool-number":
            a = r.randint(1, 5)
            b = a + r.randint(0 if r.random() < 0.1 else 1, 20)
        else:
            a = Fraction(r.randint(0, 400 * G), G) if r.random() < 0.7 else Fraction(r.randint(0, 400))
            b = a + (Fraction(r.randint(1, 2000 * G), G) if r.random() < 0.9 else 0)
        if a < b:
            self.num[k] = (Fraction(a), Fraction(b))
        return f"bounds {k} {show(a)} {show(b)}"

    def g_hook(self):
        r = self.rng
        spec = r.choice(["record", "limitF:" + show(Fraction(r.choice([100, 600, 1200])))])
        return f"hook {r.choice(['add', 'add', 'remove'])} {spec}"

    def history(self, n: int) -> list[str]:
        return [self.op() for _ in range(n)]

    def creep(self) -> list[str]:
        """a box whose upper (or lower) limit is a decimal the binary sum of equal relative steps overshoots by an ulp
        (0.1 + 0.1 + 0.1 > 0.3): the last step lands a rounding error outside the limit - and carries new F / S words, so
        that a check that judges the target differently at two sites shows up as a partial effect"""
        r = self.rng
        k = r.choice([3, 6, 7, 9, 12])                   # k * 0.1 as a float sum differs from the decimal k/10 for these
        step = r.choice([0.1, 0.7, 0.3])
        limit = round(k * step, 10)
        axis = r.choice("xyz")
        sign = r.choice([1, -1])
        lo = [-50.0, -50.0, -50.0]
        hi = [50.0, 50.0, 50.0]
        (hi if sign > 0 else lo)["xyz".index(axis)] = sign * limit
        h = ["boundsaxes " + " ".join(show(Fraction(v)) for v in lo + hi), "setaxis x=0 y=0 z=0", "feed 100", "dist rel"]
        if r.random() < 0.5:
            h.insert(3, "power 10")
        for i in range(k + 1):
            words = ""
            if i >= k - 1 or r.random() < 0.3:
                words = f" F:{show(Fraction(200 + i))}" + (f" S:{show(Fraction(20 + i))}" if r.random() < 0.6 else "")
            op = r.choice(["move", "move", "rapid", "probe towards"] if i >= k - 1 else ["move", "rapid"])
            h.append(f"{op} {axis}={show(Fraction(sign * step))}{words}")
        if r.random() < 0.5:
            h += ["moveabs " + f"{axis}={show(Fraction(sign * limit))}" + " F:333", f"move {axis}={show(Fraction(-sign * step))}"]
        return h


# ------------------------------------------------------------------ correspondence
def run_impl(lines: list[str]):
    """Execute a history on a fresh real builder; returns (completed op lines, records)."""
    from . import builder_impl as _bi

    dp, cfg = 5, {}
    if lines and lines[0].startswith("cfg "):      # harness-only line: decimal places of this builder, argument spelling
        cfg = dict(kv.split("=") for kv in lines[0].split()[1:])
        dp = int(cfg.get("dp", 5))
        lines = lines[1:]
    _bi.NUMPY["on"] = cfg.get("np") == "1"
    try:
        return _run_impl(lines, dp, cfg)
    finally:
        _bi.NUMPY["on"] = False


def cfg_line(im) -> list:
    c = ([f"dp={im.dp0}"] if im.dp0 != 5 else []) + [f"{k}={v}" for k, v in sorted(im.cfg.items()) if k != "dp"]
    return ["cfg " + " ".join(c)] if c else []


def _run_impl(lines, dp, cfg):
    im = Impl(dp)
    im.dp0 = dp
    im.cfg = cfg
    im.lower = cfg.get("lower") == "1"
    out_lines, recs = [], []
    im.src_lines = []            # the harness-side line behind every executed line (same length as the result)
    im.step_dp = []              # decimal places in force when each executed line wrote its output
    for ln in lines:
        if ln.startswith("trace "):
            for l2, rec in im.apply_trace(ln):
                out_lines.append(l2)
                recs.append(rec)
                im.src_lines.append(l2)
                im.step_dp.append(im.dp)
            continue
        l2, rec = im.apply(ln)
        out_lines.append(l2)
        recs.append(rec)
        im.src_lines.append(ln)
        im.step_dp.append(im.dp)
    # leave no context manager open
    while im.ctx:
        try:
            im.ctx.pop().__exit__(None, None, None)
        except Exception:          # harness clean-up after the history has ended: whatever the exit does is not part of the case
            pass
    return out_lines, recs, im


def run_model(histories: list[list[str]]) -> list[list[str]]:
    flat = []
    for h in histories:
        flat.append("reset")
        # `huge` (an int beyond the double range) is, in the model's vocabulary, a value that is no finite number
        # `fmtdp` is harness-only: the model does not render text, so the line is not sent (its record is None)
        flat.extend(ln.replace("huge", "inf") if "huge" in ln else ln for ln in h if not ln.startswith("fmtdp "))
    out = core.run_model("builder", flat)
    res, i = [], 0
    for h in histories:
        i += 1
        recs = []
        for ln in h:
            if ln.startswith("fmtdp "):
                recs.append(None)
            else:
                recs.append(out[i])
                i += 1
        res.append(recs)
    return res


def _num(s):
    try:
        return Fraction(s)
    except (ValueError, ZeroDivisionError):
        return None


def _close(a: str, b: str, tol: Fraction) -> bool:
    """token-wise comparison: identical, or numerically within tol"""
    if a == b:
        return True
    import re
    ta, tb = re.split(r"([,;:>])", a), re.split(r"([,;:>])", b)
    if len(ta) != len(tb):
        return False
    for x, y in zip(ta, tb):
        if x == y:
            continue
        fx, fy = _num(x), _num(y)
        if fx is None or fy is None or abs(fx - fy) > tol:
            return False
    return True


def diff(impl_rec: str, model_rec: str, keys, exact: bool = True, dp: int = 5) -> list[str]:
    a, b = parse_record(impl_rec), parse_record(model_rec)
    bad = []
    for k in keys:
        if a.get(k) == b.get(k):
            continue
        if k == "res" and _close(a[k], b[k], Fraction(1, 10**9)):
            continue  # (res / f) * f in floats may differ from res by an ulp
        if not exact:
            tol = Fraction(1, 10**dp) / 2 + Fraction(1, 10**9) if k == "stmts" else Fraction(1, 10**8)
            if _close(a.get(k, ""), b.get(k, ""), tol):
                continue
        bad.append(k)
    return bad


def correspond(R: core.Run, histories: list[list[str]], keys, exact: bool, label: str, oracle=None, nontrivial=None):
    """Run every history on the implementation and the model, compare the projection `keys` step by step,
    evaluate `oracle(lines, impl_records, impl)` (returns list of (step, message, tag))."""
    done = []
    dps = []
    for h in histories:
        lines, recs, im = run_impl(h)
        done.append((lines, recs))
        dps.append((cfg_line(im), im.step_dp, im.dp0))
        badout = [(i, r) for i, r in enumerate(recs) if "!BAD(" in r]
        if badout:
            i, r = badout[0]
            R.fail({"history": cfg_line(im) + lines[: i + 1]},
                   f"`{lines[i]}` wrote a line that is not a sequence of address words: {parse_record(r)['stmts']}", tag="malformed-output", step=i)
            continue
        if oracle:
            for step, msg, tag in oracle(lines, recs, im) or []:
                R.fail({"history": cfg_line(im) + lines[: step + 1]}, msg, tag=tag, step=step)
    keep = [k for k, d in enumerate(done) if not any("!BAD(" in r for r in d[1])]
    done = [done[k] for k in keep]
    dps = [dps[k] for k in keep]
    model = run_model([l for l, _ in done])
    for (lines, recs), mrecs, (cfgl, step_dp, dp0) in zip(done, model, dps):
        nt = nontrivial(lines, recs) if nontrivial else (sum(1 for r in recs if "stmts=-" not in r) >= 2)
        R.case({"history": lines, "last_record": recs[-1] if recs else ""}, nontrivial=nt)
        R.count(label)
        for ln, rec in zip(lines, recs):
            R.count("op:" + ln.split()[0], "out:" + rec.split(" ", 1)[0][4:])
        lowest = dp0
        for i, (ir, mr) in enumerate(zip(recs, mrecs)):
            dp = step_dp[i]
            lowest = min(lowest, dp)
            if mr is None:      # harness-only line (formatter precision): must not have written anything
                bad = [] if "stmts=- " in ir + " " and ir.startswith("out=ok") else ["stmts"]
            else:
                bad = diff(ir, mr, keys, exact and lowest >= 5, dp)
            if bad:
                R.disagree(f"builder[{','.join(bad)}]", {"history": cfgl + lines[: i + 1]},
                           {k: parse_record(ir).get(k) for k in bad}, {k: parse_record(mr).get(k) for k in bad}, step=i)
                break
    return done


def replay(data, keys, oracle=None) -> int:
    """Re-execute a recorded history on the implementation and the model; re-evaluate the oracle."""
    fl = data.get("failure") or data.get("first") or {}
    case = fl.get("case") or {}
    h = case.get("history")
    if not h:
        print("replay: no history recorded; no longer checks:", data.get("no_longer_checks"))
        return 1
    lines, recs, im = run_impl([__import__("re").sub(r" h=\S+", "", l) for l in h])
    mrecs = run_model([lines])[0]
    bad = 0
    for i, (ln, ir, mr) in enumerate(zip(lines, recs, mrecs)):
        if mr is None:
            print(f"[{i}] {ln}   (harness-only line)")
            continue
        d = diff(ir, mr, keys, im.dp0 >= 5 and min(im.step_dp[: i + 1]) >= 5, im.step_dp[i])
        print(f"[{i}] {ln}\n     impl : {ir}\n     model: {mr}" + (f"\n     DIFF {d}" if d else ""))
        bad += bool(d)
    if oracle:
        for step, msg, tag in oracle(lines, recs, im) or []:
            print(f"oracle: step {step}: {msg} [{tag}]")
            bad += 1
    return 1 if bad else 0


# ------------------------------------------------------------------ hooks that use the API themselves / veto the move (oracle only)
IDLE_CODES = {"M06", "M00", "M01", "M02", "M30", "M60", "M109", "M190", "M191", "M400"}


def hook_sessions(rng, n):
    """Sessions on a real builder whose move hooks are not the data-described ones of the model: a hook may call the API itself
    (coolant / tool on and off, a comment, the emergency stop), veto the move by raising, or return parameters the move is then
    refused for.  Yields (case, events); an event = one top-level call: {"call", "raised", "lines" (written during it), "hooks"
    (ids of the hooks invoked, in order), "nested" ([(api, outcome)] called from inside hooks), "tool"/"cool" (reported after)}."""
    from gscrib import GCodeBuilder
    from gscrib.writers import BaseWriter
    from .builder_impl import canon_stmt

    class Rec(BaseWriter):
        def __init__(self):
            self.lines = []

        def connect(self):
            return self

        def disconnect(self, wait=True):
            pass

        def flush(self):
            pass

        def write(self, b):
            self.lines.append(canon_stmt(bytes(b).decode("utf-8").rstrip("\n")))

    NESTED = {"coolant_on": lambda g: g.coolant_on("flood"), "tool_on": lambda g: g.tool_on("clockwise", 500),
              "tool_off": lambda g: g.tool_off(), "coolant_off": lambda g: g.coolant_off(), "comment": lambda g: g.comment("from a hook"),
              "emergency_halt": lambda g: g.emergency_halt("hook veto"), "power_off": lambda g: g.power_off()}
    for _ in range(n):
        r = rng
        g = GCodeBuilder(output=None, print_lines=False, line_endings="\n")
        w = Rec()
        g.add_writer(w)
        bounded = r.random() < 0.6
        if bounded:
            g.set_bounds("feed-rate", 100, 1000)
        cur = {"hooks": [], "nested": []}
        specs, fns = [], []
        for hid in range(r.randint(1, 3)):
            kind = r.choice(["count", "veto-once", "veto-below", "api", "api", "api-then-veto", "badF" if bounded else "count"])
            spec = {"id": hid, "kind": kind, "api": r.choice(list(NESTED)), "at": r.randint(1, 3), "calls": 0}
            specs.append(spec)

            def make(spec):
                def hook(origin, target, params, state):
                    spec["calls"] += 1
                    cur["hooks"].append(spec["id"])
                    k = spec["kind"]
                    below = target.z is not None and target.z < 0
                    if k in ("api", "api-then-veto") and (below or spec["calls"] == spec["at"]):
                        try:
                            NESTED[spec["api"]](g)
                            cur["nested"].append((spec["api"], "ok"))
                        except Exception as e:  # noqa  (an interlock refusing the nested call is the API's business)
                            cur["nested"].append((spec["api"], type(e).__name__))
                        if k == "api-then-veto":
                            raise RuntimeError("move vetoed by a hook")
                    if (k == "veto-once" and spec["calls"] == spec["at"]) or (k == "veto-below" and below):
                        raise RuntimeError("move vetoed by a hook")
                    if k == "badF" and spec["calls"] % 2 == 0:
                        out = dict(params)
                        out["F"] = 5000
                        return out
                    return params
                return hook
            fn = make(spec)
            fns.append(fn)
            g.add_hook(fn)
        TOP = [("move", 10), ("rapid", 2), ("move_absolute", 2), ("tool_on", 2), ("tool_off", 1), ("coolant_on", 2), ("coolant_off", 1),
               ("pause", 2), ("wait", 2), ("tool_change", 1), ("emergency_halt", 1), ("power_on", 1)]
        names = [t for t, k in TOP for _ in range(k)]
        events = []
        for _step in range(r.randint(4, 14)):
            name = r.choice(names)
            pt = {a: r.randint(-160, 160) / 16 for a in r.sample("xyz", r.randint(1, 3))}
            cur["hooks"], cur["nested"] = [], []
            n0 = len(w.lines)
            call, raised = name, None
            try:
                if name in ("move", "rapid", "move_absolute"):
                    kw = {"F": r.choice([200, 500, 900])} if r.random() < 0.4 else {}
                    call = f"{name} {pt} {kw}"
                    getattr(g, name)(**pt, **kw)
                elif name == "tool_on":
                    g.tool_on("clockwise", 1000)
                elif name == "power_on":
                    g.power_on("constant", 50)
                elif name == "coolant_on":
                    g.coolant_on("mist")
                elif name == "tool_change":
                    g.tool_change("manual", 2)
                elif name == "emergency_halt":
                    g.emergency_halt("stop")
                else:
                    getattr(g, name)()
            except Exception as e:  # noqa
                raised = type(e).__name__
            events.append({"call": call, "name": name, "raised": raised, "lines": w.lines[n0:], "hooks": list(cur["hooks"]),
                           "nested": list(cur["nested"]), "tool": bool(g.state.is_tool_active), "cool": bool(g.state.is_coolant_active),
                           "registered": [s["id"] for s in specs]})
        case = {"hooks": [{k: v for k, v in s.items() if k != "calls"} for s in specs], "feed_bounds": bounded,
                "calls": [e["call"] + (f" -> {e['raised']}" if e["raised"] else "") for e in events]}
        yield case, events, specs


def unsafe_lines(lines, tool=False, cool=False):
    """first emitted line that a controller whose tool / coolant flags follow M03 M04 M05 / M07 M08 M09 must not see"""
    for ln in lines:
        codes = set(ln.split(","))
        ts, cs = bool({"M03", "M04"} & codes), bool({"M07", "M08"} & codes)
        if (ts and tool) or (cs and cool) or ((IDLE_CODES & codes) and (tool or cool)):
            return ln, tool, cool
        if ts:
            tool = True
        if "M05" in codes:
            tool = False
        if cs:
            cool = True
        if "M09" in codes:
            cool = False
    return None

"""C16 - direct-write statements are delivered synchronously and errors surface.

Model: lean/GscribModel/Model/DirectWrite.lean (driver mode `directwrite`); theorems: Props/C16.lean.
Implementation: the real threaded `SerialWriter` / `SocketWriter` (`PrintrunWriter` + `printcore`) over a
step-controlled fake serial port / a localhost TCP peer (harness/sim_c16.py).  One worker thread is the
caller (`connect(); write(s0) ... ; disconnect(wait=True)`); the main thread is the device: it decides when
a received command is consumed, when each reply line is released, when the connection is lost, and records
after every such action what the writer has done.  Three sub-harnesses:

  A  release scripts       (model prediction per action via core.run_model("directwrite", ...))
  B  delay injection       instrumented `threading.Event` (slow `clear()`, slow `wait()`), instant device
  C  held priority queue   `disconnect(wait=True)` issued while a statement is still queued

Release scripts also run (a) under a logging set-up of the program (`case["log"]`: the writer module's logger switched on,
a sink that takes its time per record - the reader thread is then slow inside the handling of one device line; installed
per case and removed afterwards) and (b) two at a time (`case["duo"]`, `case["sched"]`): two writers alive in one process,
each on its own device with its own caller thread, their scripts interleaved op by op; every clause is judged per writer
on that writer's own event log, and each writer is compared with the model run of its own script.

Handshakes: line-number mode (the device is silent until it answers the probe `G4 P0`; printcore sends `M110 N-1`
twice) and no-line-number mode (`grbl`: the device greets with `Grbl …` as soon as the port is open, printcore
sends no `M110` and connect() returns on the `ok` of the probe, which is released like any other line - late).

Socket scripts may release a line in two TCP segments more than the device's read time-out apart (`F <cut>`; for the
model the same step as `R`: a line is delivered when it is complete, event `rel` is logged with the completing segment).
A call that only comes back because cleanup() set the writer's events is logged as `ret-forced`, i.e. never completed.

The oracle works on the event log only (independent of the model).
"""
from __future__ import annotations

import contextlib
import json
import logging
import os
import re
import tempfile
import queue
import random
import threading
import time
from pathlib import Path

from . import core
from . import sim_c16 as sim

PROP = "C16"
FID_BACKLOG = "C16-handshake-backlog"
FID_SURPLUS = "C16-surplus-reply"
FID_TWICE = "C16-error-reported-twice"

STATUS = [
    "echo:busy: processing",
    "X:1.00 Y:2.00 Z:3.00 E:0.00 Count X:0 Y:0 Z:0",
    "// note",
    "echo:lookahead buffer full",
    "[MSG:Token rejected]",
    "Not ok yet",
    "<Idle|MPos:0.000,0.000,0.000|FS:0,0>",
    "echo:Unknown command: \"look\"",
    "wait",
]
TEMP = ["T:20.0 /0.0 B:21.0 /0.0", " T:20.1 /0.0 @:0", "echo: T:19.8 E:0 W:?"]
OK_PLAIN = ["ok", "ok", "ok", "ok T:21.5 /0.0 B:20.1 /0.0", "ok P15 B3", "ok N12"]
OK_ANYCASE = OK_PLAIN + ["OK", "Ok done"]
SURPLUS_OK = ["ok", "ok", "ok T:22.0 /0.0", "Ok"]
UNSOLICITED = ["ALARM:1", "Alarm: hard limit", "error:9", "!! kill() called", "Error:Heating failed, system stopped!"]
BAD = ["error: checksum mismatch", "Error:Printer halted. kill() called!", "Alarm: hard limit", "ALARM:1",
       "!! fatal", "error:20"]
# every spelling the statement names: the keyword in any case, bare or followed by text
ERR_WORDS = ("error", "alarm", "!!")
ERR_TAILS = ["", "", ":1", ":20", ": checksum mismatch", ":Printer halted. kill() called!", " hard limit",
             " Move out of range: 0.000 0.000 1000.000 [0.000]", " fatal"]
GREETINGS = ["Grbl 1.1h ['$' for help]", "Grbl 0.9j ['$' for help]", "Grbl 1.1f ['$' for help]"]
COMPARE_LIVE = ("noop", "phase", "online", "printing", "clear", "w", "ack", "err", "priq", "tx", "out", "draise", "ln")
COMPARE_HALTED = ("noop", "phase", "tx", "out", "draise")
OBSERVABLE = ("phase", "w", "tx", "out", "draise")


# ------------------------------------------------------------------ readings carried by the scripted lines
FIXED_READINGS = {
    "X:1.00 Y:2.00 Z:3.00 E:0.00 Count X:0 Y:0 Z:0": {"X": 1.0, "Y": 2.0, "Z": 3.0, "E": 0.0},
    "<Idle|MPos:0.000,0.000,0.000|FS:0,0>": {"X": 0.0, "Y": 0.0, "Z": 0.0, "F": 0.0, "S": 0.0},
    "T:20.0 /0.0 B:21.0 /0.0": {"T": 20.0, "B": 21.0},
    " T:20.1 /0.0 @:0": {"T": 20.1},
    "echo: T:19.8 E:0 W:?": {"T": 19.8, "E": 0.0},
    "ok T:21.5 /0.0 B:20.1 /0.0": {"T": 21.5, "B": 20.1},
    "ok T:22.0 /0.0": {"T": 22.0},
}
_DYN = [re.compile(r"^(?:ok )?T:(?P<T>-?\d+\.\d+) /0\.0 B:(?P<B>-?\d+\.\d+) /0\.0$"),
        re.compile(r"^(?:ok )?X:(?P<X>-?\d+\.\d+) Y:(?P<Y>-?\d+\.\d+) Z:(?P<Z>-?\d+\.\d+) E:(?P<E>-?\d+\.\d+) Count X:\d+ Y:\d+ Z:\d+$")]


# status / probe reports of Grbl-style controllers, in the layouts `status_report` writes (the harness's own grammar):
#   Grbl 1.1            <State|MPos:x,y,z|FS:f,s|WCO:..|Ov:..>     fields separated by `|`
#   Grbl 0.9 / Smoothie <State,MPos:x,y,z,WPos:x,y,z,Buf:n,RX:n>   the older layout, everything separated by `,`
#   probe               [PRB:x,y,z:1]
_NUM = r"-?\d+\.\d+"
_RX_STATUS = re.compile(r"^<[A-Za-z]+(?::\d)?[|,][^<>]*>$")
_RX_POS = re.compile(rf"(?:MPos|WPos):({_NUM}),({_NUM}),({_NUM})(?![\d.])")
_RX_FS = re.compile(r"[|,]FS:(\d+),(\d+)(?=[|>])")
_RX_F = re.compile(r"[|,]F:(\d+)(?=[|,>])")
_RX_PRB = re.compile(rf"^\[PRB:({_NUM}),({_NUM}),({_NUM}):[01]\]$")
GRBL_STATES = ["Idle", "Idle", "Run", "Jog", "Home", "Check", "Alarm", "Hold:0", "Hold:1", "Door:0", "Queue"]


def readings_of(text: str) -> dict:
    """Readings a scripted line reports (first occurrence of a key within the line); lines are either from the
    fixed vocabulary or built by `report_line` / `status_report` - the oracle never re-implements the writer's
    parser, it recognises the lines the generator writes."""
    if text in FIXED_READINGS:
        return FIXED_READINGS[text]
    for rx in _DYN:
        m = rx.match(text)
        if m:
            return {k: float(v) for k, v in m.groupdict().items()}
    m = _RX_PRB.match(text)
    if m:
        return dict(zip("XYZ", map(float, m.groups())))
    if _RX_STATUS.match(text):
        out = {}
        m = _RX_POS.search(text)      # the first position group of the report counts
        if m:
            out.update(zip("XYZ", map(float, m.groups())))
        m = _RX_FS.search(text)
        if m:
            out["F"], out["S"] = float(m.group(1)), float(m.group(2))
        else:
            m = _RX_F.search(text)
            if m:
                out["F"] = float(m.group(1))
        return out
    return {}


def report_line(rng, ok: bool) -> str:
    pre = "ok " if ok else ""
    if rng.random() < 0.6:
        return f"{pre}T:{rng.randint(150, 2500) / 10:.1f} /0.0 B:{rng.randint(150, 1100) / 10:.1f} /0.0"
    v = [rng.randint(-500, 500) / 10 for _ in range(4)]
    return f"{pre}X:{v[0]:.1f} Y:{v[1]:.1f} Z:{v[2]:.1f} E:{v[3]:.1f} Count X:{rng.randint(0, 9)} Y:7 Z:8"


def status_report(rng, layout=None) -> str:
    """A position / status report with fresh values in one of the layouts controllers use (none of them contains
    "T:", so each is an ordinary status line for printcore and for the model): Grbl 1.1 (`|` between the fields),
    the older comma-separated layout of Grbl 0.9 / Smoothieware, a probe report, a Marlin M114 answer.  The readings
    the line is meant to carry are fixed here, from the abstract values; `readings_of` must read the same back."""
    layout = layout or rng.choice(["pipes", "pipes", "commas", "commas", "probe", "m114"])
    dec = rng.choice([1, 2, 3, 3, 4])

    def coords():
        return [f"{rng.randint(-300000, 300000) / 1000:.{dec}f}" for _ in range(3)]

    if layout == "m114":
        v = coords() + [f"{rng.randint(0, 90000) / 1000:.{dec}f}"]
        line = f"X:{v[0]} Y:{v[1]} Z:{v[2]} E:{v[3]} Count X:{rng.randint(0, 9)} Y:7 Z:8"
        want = dict(zip("XYZE", map(float, v)))
    elif layout == "probe":
        v = coords()
        line = f"[PRB:{','.join(v)}:{rng.choice('01')}]"
        want = dict(zip("XYZ", map(float, v)))
    else:
        state = rng.choice(GRBL_STATES)
        first, second = coords(), coords()
        names = rng.choice([("MPos", "WPos"), ("MPos", "WPos"), ("WPos", "MPos"), ("MPos", None), ("WPos", None)])
        want = dict(zip("XYZ", map(float, first)))
        if layout == "pipes":
            fields = [f"{names[0]}:{','.join(first)}"]
            r = rng.random()
            if r < 0.5:
                f, s = rng.randint(0, 6000), rng.choice([0, 0, 1000, 12000])
                fields.append(f"FS:{f},{s}")
                want["F"], want["S"] = float(f), float(s)
            elif r < 0.7:
                f = rng.randint(0, 6000)
                fields.append(f"F:{f}")
                want["F"] = float(f)
            if names[1] and rng.random() < 0.3:
                fields.append(f"{names[1]}:{','.join(second)}")     # a second position group: the first one counts
            if rng.random() < 0.4:
                fields.append("WCO:" + ",".join(coords()))
            if rng.random() < 0.3:
                fields.append("Ov:100,100,100")
            if rng.random() < 0.3:
                fields.append(f"Bf:{rng.randint(0, 15)},{rng.randint(0, 128)}")
            if rng.random() < 0.2:
                fields.append("Pn:" + rng.choice(["X", "XYZ", "P", "D"]))
            line = "<" + "|".join([state] + fields) + ">"
        else:
            state = state.partition(":")[0]      # the older firmwares have no sub-states
            fields = [f"{names[0]}:{','.join(first)}"]
            if names[1]:
                fields.append(f"{names[1]}:{','.join(second)}")
            if rng.random() < 0.3:
                fields += [f"Buf:{rng.randint(0, 17)}", f"RX:{rng.randint(0, 127)}"]
            if rng.random() < 0.15:
                fields.append(f"Ln:{rng.randint(0, 999)}")
            line = "<" + ",".join([state] + fields) + ">"
    if readings_of(line) != want or "T:" in line:
        raise core.Infra(f"status_report wrote {line!r} for the readings {want!r}, readings_of reads {readings_of(line)!r}")
    return line


# ------------------------------------------------------------------ generation
def error_line(rng) -> str:
    """A reply that starts with error, alarm or !! (any case), with or without text after the keyword."""
    word = rng.choice(ERR_WORDS)
    style = rng.choice(["lower", "upper", "capital", "mixed"])
    if style == "upper":
        word = word.upper()
    elif style == "capital":
        word = word.capitalize()
    elif style == "mixed":
        word = "".join(ch.upper() if rng.random() < 0.5 else ch for ch in word)
    return word + rng.choice(ERR_TAILS)


def gen_stmt(rng, k):
    body = rng.choice([f"G1 X{k} Y{rng.randint(0, 99)} F{rng.choice([600, 1200])}", f"G0 Z{k}.5", f"M104 S{200 + k}",
                       f"M105 ; poll {k}", f"G92 E{k}", f"M117 msg {k} ok", f"G4 P{k + 1}"])
    pad_l = rng.choice(["", "", " ", "\t"])
    pad_r = rng.choice(["\n", "\n", "  \n", "\r\n", ""])
    return pad_l + body + pad_r


def gen_script(rng, handshake: bool, allow_temp: bool, p_err: float, p_report: float = 0.35):
    """reply lines for one consumed command: ([(text, errorish)], pre-word, term-word); p_report: how often the
    acknowledgement of a statement carries the reading itself (`ok T:… B:…`, `ok X:… Y:…`)"""
    n_pre = rng.choice([0, 0, 0, 1, 1, 2, 3])
    pre, lines = "", []
    for _ in range(n_pre):
        if allow_temp and rng.random() < 0.3:
            pre += "t"
            line = report_line(rng, False) if rng.random() < 0.6 else rng.choice(TEMP)
            if "T:" not in line:          # a position report is an ordinary status line for printcore
                pre = pre[:-1] + "s"
            lines.append((line, False))
        else:
            pre += "s"
            # a status / position report with fresh values in one of the layouts controllers use, or a fixed line
            lines.append((status_report(rng) if rng.random() < 0.4 else rng.choice(STATUS), False))
    if rng.random() < p_err:
        term = "b"
        lines.append((rng.choice(BAD) if rng.random() < 0.4 else error_line(rng), True))
    else:
        term = "o"
        if not handshake and rng.random() < p_report:
            line = report_line(rng, True)      # the reply itself carries the reading (ok T:… / ok X:…)
        else:
            line = rng.choice(OK_PLAIN if handshake else OK_ANYCASE)
        lines.append((line, False))
    return lines, (pre or "-"), term


def gen_case(rng, kind="serial", flavour=None, timeout=None, grbl=False, p_report=0.35):
    """A release script.  flavours: clean | backlog | connect-error | loss.  grbl: the device greets with `Grbl …`
    before anything else (no-line-number mode): the only handshake commands are the probes, and the greeting is on
    the wire ahead of the probe's reply, so that reply is always released after startprint() has run (released
    before, connect() never returns on the unchanged tree - liveness, outside C16; observation witness in Props/C16.lean)."""
    if flavour is None:
        flavour = rng.choices(["clean", "loss", "connect-error"], [0.8, 0.14, 0.06])[0]
    n = rng.choice([1, 2, 2, 3, 3, 4, 5])
    probes = 1
    ops = [["start"]]
    if flavour == "backlog":
        probes = rng.choice([2, 2, 3])
        ops += [["P"]] * (probes - 1)
    n_hs = probes if grbl else probes + 2   # handshake commands: probes (+ the two M110 in line-number mode)
    total = n_hs + n
    p_err_stmt = rng.choice([0.0, 0.15, 0.3, 0.5])
    sent, consumed, wire, heard = probes, 0, [], 0
    if grbl:
        ops.append(["G", rng.choice(GREETINGS)])
        wire.append(0)
    # number of terminal replies heard before the connection is lost (socket: while the last write is in flight)
    loss_after = (rng.randint(n_hs, n_hs + n - 1) if kind == "serial" else n_hs + n - 1) if flavour == "loss" else None
    bad_cmd = rng.randint(0, n_hs - 1) if flavour == "connect-error" else None
    guard = 0
    while (consumed < total or wire) and guard < 400:
        guard += 1
        if loss_after is not None and heard >= loss_after and (kind != "serial" or rng.random() < 0.5):
            ops.append(["L"])
            break
        can_d, can_r = consumed < sent, bool(wire)
        if not can_d and not can_r:
            break
        if can_d and (not can_r or rng.random() < 0.55):
            hs = consumed < n_hs
            # status lines containing "T:" bring printcore online: during the handshake that is the backlog flavour
            lines, pre, term = gen_script(rng, hs, allow_temp=(not hs) or flavour == "backlog",
                                          p_err=(1.0 if consumed == bad_cmd else 0.0) if hs else p_err_stmt,
                                          p_report=p_report)
            ops.append(["D", pre, term, lines])
            consumed += 1
            wire += [0] * (len(lines) - 1) + [1]
        else:
            if wire.pop(0):
                heard += 1
                sent = min(total, probes + heard)
            ops.append(["R"])
        if rng.random() < 0.04:
            ops.append(["D", "-", "o", [("ok", False)]] if rng.random() < 0.5 else ["R"])  # usually a no-op
    if ops[-1] != ["L"]:
        for _ in range(3):  # drain whatever the estimate above missed
            ops += [["D", "-", "o", [("ok", False)]], ["R"]]
    ops.append(["settle"])
    stmts = [gen_stmt(rng, k) for k in range(n)]
    case = {"kind": kind, "flavour": flavour, "n": n, "disc": rng.random() < 0.8, "stmts": stmts, "ops": ops}
    if grbl:
        case["grbl"] = True
        case["flavour"] = "grbl-" + flavour
    if timeout:
        # set_timeout() shorter than the device's latency (`Z` = the device takes its time before the next line)
        case["timeout"] = timeout
        seen, out = 0, []
        for op in ops:
            out.append(op)
            if op[0] == "D":
                seen += 1
                if seen > n_hs and rng.random() < 0.7:
                    out.append(["Z"])
        case["ops"] = out
        case["flavour"] = case["flavour"] + "+timeout"
    return case


def gen_gated_case(rng, hit: bool, grbl: bool = False, kind: str = "serial"):
    """The caller starts each call only when told to (`W`), so lines can be delivered *between* two calls.
    hit=False: surplus `ok` / unsolicited error lines are queued behind a statement's terminal reply and are
    therefore read while the caller is idle (harmless on the repaired code; the next call must raise a stored
    error).  hit=True (finding C16-surplus-reply): one such line is read while a write() waits for its own reply."""
    n = rng.choice([2, 2, 3, 3, 4])
    p_err = rng.choice([0.0, 0.2, 0.4])
    ops = [["start"]]
    if grbl:
        ops += [["G", rng.choice(GREETINGS)], ["R"]]   # greeting read (startprint runs), only then the probe's reply
    for _ in range(1 if grbl else 3):
        lines, pre, term = gen_script(rng, True, allow_temp=False, p_err=0.0)
        ops.append(["D", pre, term, lines])
        ops += [["R"]] * len(lines)

    def push_op(kind=None):
        kind = kind or rng.choice("ob")
        return ["X", kind, rng.choice(SURPLUS_OK) if kind == "o" else
                rng.choice(UNSOLICITED) if rng.random() < 0.5 else error_line(rng)]

    hit_at = rng.randrange(n) if hit else None
    k = 0
    while k < n:
        lines, pre, term = gen_script(rng, False, allow_temp=True, p_err=p_err)
        if k == hit_at and (k == n - 1 or rng.random() < 0.5):
            # the pushed line overtakes the reply: read while write(k) waits for its own reply
            ops += [["W"], push_op(), ["R"], ["D", pre, term, lines]] + [["R"]] * len(lines)
            k += 1
            continue
        ops += [["W"], ["D", pre, term, lines]]
        if k == hit_at:
            # the surplus line is read after the caller has entered write(k+1)
            lines2, pre2, term2 = gen_script(rng, False, allow_temp=False, p_err=0.0)
            ops += [push_op("o" if term == "b" or rng.random() < 0.6 else "b")] + [["R"]] * len(lines)
            ops += [["W"], ["R"], ["D", pre2, term2, lines2]] + [["R"]] * len(lines2)
            k += 2
            continue
        if term == "b" and rng.random() < 0.7:
            xs = [["X", "o", "ok"]]            # Marlin style: an error line, then the usual ok
        else:
            xs = []
        xs += [push_op() for _ in range(rng.choice([0, 0, 1, 1, 2]))]
        ops += xs + [["R"]] * (len(lines) + len(xs))
        k += 1
    disc = rng.random() < 0.8
    if disc:
        ops.append(["W"])
    ops += [["D", "-", "o", [("ok", False)]], ["R"], ["settle"]]
    stmts = [gen_stmt(rng, j) for j in range(n)]
    case = {"kind": kind, "flavour": "surplus-hit" if hit else "gated", "n": n, "disc": disc, "gated": True,
            "stmts": stmts, "ops": ops}
    if grbl:
        case["grbl"] = True
        case["flavour"] = "grbl-" + case["flavour"]
    return case


def fragment(rng, case, k=2):
    """Socket only: up to `k` of the lines released after the handshake reach the host in two TCP segments with a
    pause longer than the device's read time-out in between (`F <cut>` instead of `R`; the same step for the model:
    a line is delivered when it is complete).  Lines that carry a reading or are somebody's terminal reply are
    preferred; the cut position is uniform over the line."""
    n_hs = sum(1 for op in case["ops"] if op[0] == "P") + (1 if case.get("grbl") else 3)
    wire, cands, seen = [], [], 0
    for i, op in enumerate(case["ops"]):
        if op[0] == "D":
            wire += [(seen >= n_hs, text, j == len(op[3]) - 1) for j, (text, _) in enumerate(op[3])]
            seen += 1
        elif op[0] == "X":
            wire.append((seen >= n_hs, op[2], False))
        elif op[0] == "G":
            wire.append((False, op[1], False))
        elif op[0] == "R" and wire:
            stmt, text, terminal = wire.pop(0)
            if stmt and len(text) >= 2:
                cands.append((i, text, 3 if readings_of(text) else 2 if terminal else 1))
    chosen = []
    while cands and len(chosen) < k:
        pick = rng.choices(cands, [c[2] for c in cands])[0]
        cands.remove(pick)
        chosen.append(pick)
    ops = [list(op) for op in case["ops"]]
    for i, text, _ in chosen:
        ops[i] = ["F", str(rng.randint(1, len(text) - 1))]
    out = dict(case, ops=ops)
    out["flavour"] = case["flavour"] + "+fragmented"
    return out


def fragmented_cases(rng, n):
    """clean socket scripts (two out of three) and gated ones (surplus ok / unsolicited error lines read between two
    calls), each with two lines split"""
    return [fragment(rng, gen_gated_case(rng, hit=False, kind="socket") if k % 3 == 2 else
                     gen_case(rng, kind="socket", flavour="clean")) for k in range(n)]


def fragmented_corpus():
    """Hand-written members of the family: a position report cut inside a number (the reading is requested by the
    statement before), and an error reply cut inside its keyword, Klipper style (`!! ...` then `ok`, the ok read
    before the caller's next call)."""
    ok = [("ok", False)]
    hs = [["start"]] + [["D", "-", "o", ok], ["R"]] * 3
    a = {"kind": "socket", "flavour": "clean+fragmented", "n": 2, "disc": True, "stmts": ["M114\n", "G1 X5 Y5\n"],
         "ops": hs + [["D", "s", "o", [("X:123.5 Y:7.0 Z:0.0 E:0.0 Count X:1 Y:7 Z:8", False), ("ok", False)]], ["F", "4"],
                      ["R"], ["D", "-", "o", ok], ["R"], ["D", "-", "o", ok], ["R"], ["settle"]]}
    b = {"kind": "socket", "flavour": "gated+fragmented", "n": 2, "disc": True, "gated": True,
         "stmts": ["G1 X500\n", "G1 X5\n"],
         "ops": hs + [["W"], ["D", "-", "b", [("!! Move out of range", True)]], ["X", "o", "ok"], ["F", "1"], ["R"],
                      ["W"], ["D", "-", "o", ok], ["R"], ["W"], ["D", "-", "o", ok], ["R"], ["settle"]]}
    return [a, b]


# ------------------------------------------------------------------ ambient configuration: the program's logging set-up
# The writer logs through the logger of its module (INFO per call, DEBUG per device line and per stored reading).  A
# program that switches that on and sends the records to a sink that takes its time (a serial console, a network log,
# a file that is synced per record) makes the reader thread slow *inside* the handling of one device line - a schedule
# the instant device of sub-harness B never produces.  Nothing of the property depends on the logging set-up.
def gen_log_config(rng):
    sink = rng.choice(["sleep", "sleep", "sleep", "file"])
    return {"level": rng.choice(["DEBUG", "DEBUG", "DEBUG", "INFO"]),
            "at": rng.choice([0, 0, 0, 1, 2]),      # handler and level on the writer module's logger / 1, 2 packages above it
            "sink": sink,
            "delay_ms": rng.choice([3, 6, 12, 25]) if sink == "sleep" else rng.choice([0, 1, 3]),
            "debug_only": rng.random() < 0.3}


class SlowSink(logging.Handler):
    """A log handler that formats every record and then takes its time: sleeps, or writes to a file synced per record."""

    def __init__(self, cfg):
        super().__init__()
        self.delay = cfg.get("delay_ms", 0) / 1000.0
        self.debug_only = bool(cfg.get("debug_only"))
        self.fh = tempfile.TemporaryFile("w") if cfg.get("sink") == "file" else None
        self.records = 0
        self.setFormatter(logging.Formatter("%(asctime)s %(threadName)s %(name)s %(levelname)s %(message)s"))

    def emit(self, record):
        text = self.format(record)
        self.records += 1
        if self.fh is not None:
            self.fh.write(text + "\n")
            self.fh.flush()
            os.fsync(self.fh.fileno())
        if self.delay and (record.levelno <= logging.DEBUG or not self.debug_only):
            time.sleep(self.delay)

    def close(self):
        if self.fh is not None:
            self.fh.close()
            self.fh = None
        super().close()


@contextlib.contextmanager
def logging_config(cfg):
    """Install the case's logging set-up for the duration of the case and put everything back afterwards (levels,
    handlers, propagation, the process-wide `logging.disable` of run()).  Records never leave the package's loggers."""
    if not cfg:
        yield None
        return
    from gscrib.writers import printrun_writer
    parts = printrun_writer.__name__.split(".")
    target = logging.getLogger(".".join(parts[: len(parts) - int(cfg.get("at", 0))]))
    top = logging.getLogger(parts[0])
    saved = [(lg, lg.level, list(lg.handlers), lg.propagate, lg.disabled) for lg in {target, top}]
    saved_disable = logging.root.manager.disable
    sink = SlowSink(cfg)
    try:
        logging.disable(logging.NOTSET)
        top.propagate = False
        top.addHandler(logging.NullHandler())
        target.setLevel(cfg.get("level", "DEBUG"))
        target.addHandler(sink)
        yield sink
    finally:
        for lg, level, handlers, propagate, disabled in saved:
            lg.handlers[:] = handlers
            lg.setLevel(level)
            lg.propagate, lg.disabled = propagate, disabled
        logging.disable(saved_disable)
        sink.close()


def n_handshake_cmds(case) -> int:
    return sum(1 for op in case["ops"] if op[0] == "P") + (1 if case.get("grbl") else 3)


def reading_acks(case) -> int:
    """statements of the script whose acknowledgement line itself carries readings"""
    n_hs, seen, hits = n_handshake_cmds(case), 0, 0
    for op in case["ops"]:
        if op[0] == "D":
            seen += 1
            if seen > n_hs and op[2] == "o" and len(readings_of(op[3][-1][0])) >= 1:
                hits += 1
    return hits


def gen_logged_case(rng, kind="serial"):
    """A clean release script most of whose acknowledgements carry the requested reading on the `ok` line itself
    (Marlin `M105` -> `ok T:.. B:..`, `ok X:.. Y:..`), run under a logging set-up with a slow sink.  The clause judged
    is the existing one: when write() returns, the reading on its own acknowledgement is available."""
    for _ in range(20):
        case = gen_case(rng, kind=kind, flavour="clean", grbl=rng.random() < 0.25, p_report=0.8)
        if reading_acks(case) >= 1:
            break
    case["log"] = gen_log_config(rng)
    case["flavour"] += "+logging"
    return case


def logged_corpus():
    """Minimal member of the family: a Marlin-style temperature poll between moves, the answer on the acknowledgement
    line, DEBUG logging of the writer module to a sink that takes 10 ms per record."""
    ok = [("ok", False)]
    ops = [["start"]] + [["D", "-", "o", ok], ["R"]] * 3
    stmts = []
    for k, (t, b) in enumerate(((21.5, 60.0), (22.5, 61.0))):
        stmts += [f"G1 X{10 + k} F600\n", "M105\n" if k == 0 else "M105 ; again\n"]
        ops += [["D", "-", "o", ok], ["R"], ["D", "-", "o", [(f"ok T:{t:.1f} /0.0 B:{b:.1f} /0.0", False)]], ["R"]]
    ops += [["D", "-", "o", ok], ["R"], ["settle"]]
    return [{"kind": "serial", "flavour": "clean+logging", "n": len(stmts), "disc": True, "stmts": stmts, "ops": ops,
             "log": {"level": "DEBUG", "at": 0, "sink": "sleep", "delay_ms": 10, "debug_only": False}}]


# ------------------------------------------------------------------ two writers alive at once (two machines, one program)
def handshake_ops(case) -> int:
    """number of leading ops of a script that make up its handshake (up to the release of the terminal reply to the
    last handshake command); an estimate used for scheduling only - every schedule is a legal one"""
    n_hs, wire, heard = n_handshake_cmds(case), [], 0
    for i, op in enumerate(case["ops"]):
        if op[0] == "D":
            wire += [0] * (len(op[3]) - 1) + [1]
        elif op[0] in ("G", "X"):
            wire.append(0)
        elif op[0] in ("R", "F") and wire:
            heard += wire.pop(0)
            if heard >= n_hs:
                return i + 1
    return len(case["ops"])


def duo_schedule(rng, members, sequential: bool):
    """whose next op is played, op by op: short runs per writer, so that lines reach one writer while the other one's
    write() waits for an acknowledgement that is slow to come; `sequential`: the two handshakes one after the other"""
    lens, pos, sched = [len(m["ops"]) for m in members], [0, 0], []
    if sequential:
        for j in (0, 1):
            pos[j] = handshake_ops(members[j])
            sched += [j] * pos[j]
    while pos[0] < lens[0] or pos[1] < lens[1]:
        j = rng.randrange(2)
        if pos[j] >= lens[j]:
            j = 1 - j
        run = min(rng.choice([1, 1, 2, 2, 3, 4]), lens[j] - pos[j])
        sched += [j] * run
        pos[j] += run
    return sched


def make_duo(members, sched, sequential):
    kinds = "+".join(m["kind"] for m in members)
    return {"kind": kinds, "flavour": "duo:" + "|".join(m["flavour"] for m in members), "n": sum(m["n"] for m in members),
            "disc": all(m["disc"] for m in members), "stmts": [s for m in members for s in m["stmts"]],
            "duo": members, "sched": sched, "handshakes": "sequential" if sequential else "interleaved", "ops": []}


def gen_duo_case(rng):
    """Two direct-write writers alive in one process, each on its own device with its own script (one caller thread
    per writer), the two scripts interleaved op by op.  One script is a plain clean one; the other is a clean one too
    or a gated one whose device also pushes surplus `ok` / unsolicited alarm lines between its caller's calls (harmless
    for its own writer).  Every clause is judged per writer, on that writer's own event log; each writer is also
    compared with the model run of its own script - the other machine is no part of either."""
    kinds = rng.choice([("serial", "serial")] * 4 + [("serial", "socket"), ("socket", "serial")])
    quiet = gen_case(rng, kind=kinds[0], flavour="clean", grbl=rng.random() < 0.2)
    if rng.random() < 0.6:
        noisy = gen_gated_case(rng, hit=False, grbl=rng.random() < 0.2, kind=kinds[1])
    else:
        noisy = gen_case(rng, kind=kinds[1], flavour="clean", grbl=rng.random() < 0.2)
    members = [quiet, noisy]
    if rng.random() < 0.5:
        members.reverse()
    sequential = rng.random() < 0.7
    return make_duo(members, duo_schedule(rng, members, sequential), sequential)


def duo_corpus():
    """Machine A acknowledges its move at once and pushes an alarm while machine B is still busy with a dwell: B's
    write() may only return on B's own ok; A's alarm belongs to A's next call."""
    ok = [("ok", False)]
    hs = [["start"]] + [["D", "-", "o", ok], ["R"]] * 3
    a = {"kind": "serial", "flavour": "gated", "n": 2, "disc": True, "gated": True, "stmts": ["G1 X100 F300\n", "G1 X0 F300\n"],
         "ops": hs + [["W"], ["D", "-", "o", ok], ["X", "b", "ALARM:1"], ["R"], ["R"], ["W"], ["D", "-", "o", ok], ["R"],
                      ["W"], ["D", "-", "o", ok], ["R"], ["settle"]]}
    b = {"kind": "serial", "flavour": "clean", "n": 2, "disc": True, "stmts": ["G4 P1.5\n", "G1 Y5\n"],
         "ops": hs + [["D", "-", "o", ok], ["R"], ["D", "-", "o", ok], ["R"], ["D", "-", "o", ok], ["R"], ["settle"]]}
    h = len(hs)
    # A and B connect; B's dwell is consumed; A: write(0) acknowledged, alarm pushed and read; only then B's ok
    sched = [0] * h + [1] * h + [1] + [0] * 5 + [1] + [0] * (len(a["ops"]) - h - 5) + [1] * (len(b["ops"]) - h - 2)
    return [make_duo([a, b], sched, True)]


def exhaustive_cases():
    """Two statements; every reply shape per statement (no line / status / "T:" line, then ok / error) x the two
    extreme interleavings (device eager: consumes as soon as a command arrives; device lazy: every pending line
    is released before the next command is consumed) x with / without disconnect(wait=True)."""
    shapes = [(pre, term) for pre in ("-", "s", "t") for term in ("o", "b")]
    text = {"s": ("echo:lookahead ok soon", False), "t": ("T:20.0 /0.0 B:21.0 /0.0", False),
            "o": ("ok", False), "b": ("error: refused", True)}

    def d(pre, term):
        lines = [text[c] for c in pre if c != "-"] + [text[term]]
        return ["D", pre, term, lines]

    for s0 in shapes:
        for s1 in shapes:
            for eager in (True, False):
                for disc in (True, False):
                    ops = [["start"]]
                    for sc in (("-", "o"), ("-", "o"), ("-", "o"), s0, s1):
                        n_lines = (0 if sc[0] == "-" else len(sc[0])) + 1
                        if eager:
                            ops += [d(*sc)] + [["R"]] * n_lines
                        else:
                            ops += [["R"], d(*sc)] + [["R"]] * n_lines
                    ops.append(["settle"])
                    yield {"kind": "serial", "flavour": "exhaustive", "n": 2, "disc": disc,
                           "stmts": ["G1 X0 Y0\n", "G1 X1 Y1\n"], "ops": ops}


def model_lines(case):
    out = [f"cfg writes={case['n']} disc={1 if case['disc'] else 0} gated={1 if case.get('gated') else 0}"]
    for op in case["ops"]:
        out.append(" ".join(op[:3]) if op[0] == "D" else " ".join(op[:2]) if op[0] == "X" else
                   "settle" if op[0] == "Z" else "R" if op[0] == "F" else op[0])   # `G <text>` -> `G`
    return out


# ------------------------------------------------------------------ records
def parse_record(rec: str) -> dict:
    d = {}
    for tok in rec.replace("|", " ").split():
        if "=" in tok:
            k, v = tok.split("=", 1)
            d[k] = v
    return d


def project(d: dict) -> dict:
    keys = COMPARE_LIVE if d.get("phase") in ("connecting", "connected") else COMPARE_HALTED
    return {k: d[k] for k in keys if k in d}


def show(d: dict) -> str:
    return " ".join(f"{k}={v}" for k, v in d.items())


# ------------------------------------------------------------------ sub-harness A: release scripts on the real writer
class Drive:
    """One real writer driven through its script, one op per `step()`; `expected[i]` = model record (dict) after
    op i (wait hint and comparison).  A single-writer case is one Drive played to its end; a two-writer case is two
    Drives alive at once, stepped in the order of the case's schedule.  The session is started by the `start` op."""

    def __init__(self, case, expected, timeout=1.5, settle=0.012, port_name=None):
        self.case, self.expected, self.timeout, self.settle = case, expected, timeout, settle
        self.S = sim.Session(case["kind"], case["stmts"], case["disc"], gated=bool(case.get("gated")),
                             timeout=case.get("timeout"), port_name=port_name)
        self.impl, self.bad_step, self.i = [], None, 0

    def done(self) -> bool:
        return self.i >= len(self.case["ops"])

    def step(self):
        S, case, expected = self.S, self.case, self.expected
        i, op = self.i, self.case["ops"][self.i]
        self.i += 1
        if S.writer is None:
            S.start()
        want = project(expected[i + 1]) if expected else None
        if op[0] in "PDRFLXG" and S.snapshot()["phase"] in ("failed", "disconnected"):
            did = False  # the writer's device object is gone: nothing can be observed any more
        elif op[0] == "start":
            t_end = time.time() + 3.0
            while time.time() < t_end and not S.tx_lines():
                time.sleep(0.002)
            did = True
        elif op[0] == "P":
            did = S.probe_again()
        elif op[0] == "D":
            did = S.consume([tuple(x) for x in op[3]])
        elif op[0] == "R":
            did = S.release()
        elif op[0] == "F":
            did = S.release_split(int(op[1]))
        elif op[0] == "L":
            did = S.lose()
        elif op[0] == "X":
            did = S.push(op[2], op[1] == "b")
        elif op[0] == "G":
            did = S.greet(op[1])
        elif op[0] == "W":
            S.permit()
            did = True
        elif op[0] == "Z":
            time.sleep(1.6 * case.get("timeout", 0.05))
            did = True
        else:
            did = True
        noop = "0" if did else "1"
        snap = None
        if did or op[0] in ("settle", "Z"):
            # after the first disagreement the script is still played to its end for the oracle; the model's
            # prediction then only serves as a wait hint on the caller-visible part, with a short time-out
            t_end = time.time() + (self.timeout if self.bad_step is None else 0.35)
            while True:
                snap = S.snapshot()
                snap["noop"] = noop
                got = project(snap)
                if self.bad_step is not None and want is not None:
                    reached = all(got.get(k) == want.get(k) for k in OBSERVABLE)
                else:
                    reached = want is None or got == want
                if reached or time.time() > t_end:
                    break
                time.sleep(0.002)
            time.sleep(self.settle)
        snap = S.snapshot()
        snap["noop"] = noop
        if want is not None and want.get("online") == "1" and S.io() is not None:
            S.io().free_run = True  # reader may time out freely once the printer is online
        got = project(snap)
        self.impl.append(got)
        if want is not None and got != want and self.bad_step is None:
            self.bad_step = i


def run_case(case, expected, timeout=1.5, settle=0.012):
    """Drive the real writer through `case` (under the case's logging set-up, if it has one).  Returns (impl
    projections, events, first disagreeing step or None, leftover threads)."""
    with logging_config(case.get("log")):
        d = Drive(case, expected, timeout, settle)
        try:
            while not d.done():
                d.step()
            if d.bad_step is not None or not expected:
                # let whatever is still running finish so that the oracle sees the final picture
                time.sleep(0.15)
        finally:
            leftover = d.S.cleanup()
    return d.impl, list(d.S.ev), d.bad_step, leftover


def run_duo(case, expected, timeout=1.5, settle=0.012):
    """Two writers alive at once: `case["duo"]` = the two scripts, `case["sched"]` = whose next op is played.
    Returns ([(impl projections, events, first disagreeing step) per writer], leftover threads)."""
    drives = [Drive(m, exp, timeout, settle, port_name=f"/fake/c16-{'ab'[j]}")
              for j, (m, exp) in enumerate(zip(case["duo"], expected))]
    try:
        for j in case["sched"]:
            if not drives[j].done():
                drives[j].step()
        for d in drives:
            while not d.done():
                d.step()
        if any(d.bad_step is not None for d in drives):
            time.sleep(0.15)
    finally:
        for d in drives:
            d.S._stopping = True     # a call that only comes back during the teardown of either writer never completed
        drives[0].S.cleanup(check_threads=False)
        leftover = drives[1].S.cleanup()
    return [(d.impl, list(d.S.ev), d.bad_step) for d in drives], leftover


# ------------------------------------------------------------------ oracle (event log only)
def _stmt_tx_index(case, ev):
    stmts = [x.strip() for x in case["stmts"]]
    idx = {}
    for e in ev:
        if e[0] == "tx" and e[3] and e[2] in stmts and stmts.index(e[2]) not in idx:
            idx[stmts.index(e[2])] = e[1]
    return idx


def _flag_setting(text):
    return text.strip().lower().startswith(("ok", "error", "alarm", "!!"))


def structural_info(case, ev):
    """Structural facts about the run used by finding predicates (never the oracle's verdict)."""
    info = {"backlog_at_online": 0, "surplus_hit": 0}
    # a reply that starts with `Error` (printcore's own, case-sensitive test) reaches the writer through two callbacks
    # of the reader thread (recvcb, then errorcb, which logs the line before it stores the error a second time);
    # counted when the program has a log handler installed, i.e. when that log record takes time
    info["error_twice"] = sum(1 for e in ev if e[0] == "rel" and e[2].startswith("Error")) if case.get("log") else 0
    sent = terms = 0
    online_at = None
    for i, e in enumerate(ev):
        if e[0] == "tx" and e[3]:
            sent += 1
        elif e[0] == "rel":
            text = e[2]
            if e[3]:
                terms += 1
            if text.startswith(("ok", "start", "Grbl ")) or "T:" in text:
                # this line brings printcore online: commands sent so far that are still unanswered
                info["backlog_at_online"] = sent - terms
                info["online_line"] = text
                online_at = i
                if text.startswith("Grbl"):
                    # no line numbers: startprint sends no M110 and connect() awaits the ok of the one command that
                    # is still unanswered (the probe); only what is unanswered beyond that one is a backlog
                    # (model: backlogAt)
                    info["no_line_numbers"] = True
                    info["backlog_at_online"] = max(0, sent - terms - 1)
                break
    # surplus hit: a flag-setting line that is nobody's terminal reply is released while connect() awaits a
    # line-number reset (no line numbers: the probe's ok, from the greeting on), or while a write() is open whose
    # own terminal reply has not been released yet
    tx_index = _stmt_tx_index(case, ev)
    released, open_call, connect_done, resets = set(), None, False, 0
    for i, e in enumerate(ev):
        if info.get("no_line_numbers") and i == online_at:
            resets += 1   # stands for the awaited acknowledgement
        if e[0] == "tx" and e[3] and "M110" in e[2]:
            resets += 1
        elif e[0] in ("connected", "connect-raised"):
            connect_done = True
        elif e[0] == "call":
            open_call = e[1]
        elif e[0] == "ret":
            open_call = None
        elif e[0] == "rel":
            if e[3]:
                released.add(e[1])
            elif len(e) > 5 and e[5] == "x" and _flag_setting(e[2]):
                if (not connect_done and resets >= 1) or (
                        open_call is not None and tx_index.get(open_call, -1) not in released):
                    info["surplus_hit"] += 1
                    info.setdefault("surplus_line", e[2])
    return info


def oracle(case, ev):
    """C16 on what the implementation did.  Returns a list of (tag, message)."""
    fails = []
    stmts = [s.strip() for s in case["stmts"]]
    dev_log = [e[2] for e in ev if e[0] == "tx" and e[3]]
    user_log = [l for l in dev_log if l != sim.PROBE and "M110" not in l]
    calls = [e[1] for e in ev if e[0] == "call"]
    # (1) order, once, unmodified
    if user_log != stmts[: len(user_log)]:
        fails.append(("order", f"device received {user_log!r}, statements written were {stmts[:len(calls)]!r}"))
    tx_index = _stmt_tx_index(case, ev)
    loss_pos = next((i for i, e in enumerate(ev) if e[0] == "loss"), None)
    rel_pos = {}  # tx index -> (position of the terminal release, errorish)
    for i, e in enumerate(ev):
        if e[0] == "rel" and e[3]:
            rel_pos.setdefault(e[1], (i, e[4]))
    completions = [i for i, e in enumerate(ev) if e[0] in ("ret", "disc-ret", "connected", "connect-raised")]

    def error_line_since_previous_completion(i):
        prev = max([c for c in completions if c < i], default=-1)
        return any(x[0] == "rel" and x[4] for x in ev[prev + 1 : i])

    rets = {}
    for i, e in enumerate(ev):
        if e[0] == "ret":
            k, res = e[1], e[2]
            rets[k] = res
            lost = loss_pos is not None and loss_pos < i
            own = rel_pos.get(tx_index.get(k, -1))
            if lost and (own is None or own[0] > i):
                if res == "returned":
                    fails.append(("loss-not-raised", f"write({k}) returned normally after the connection was lost"))
                continue
            if own is None or own[0] > i:
                what = "returned" if res == "returned" else f"raised {res}"
                fails.append(("early-return", f"write({k}) {what} before the terminal reply to statement {k} was released"
                              + ("" if k in tx_index else " (the device had not even received it)")))
                continue
            if own[1] and res != "DeviceError":
                fails.append(("error-not-raised", f"statement {k} was answered with an error reply but write({k}) "
                              + ("returned normally" if res == "returned" else f"raised {res}")))
            if not own[1] and res != "returned" and not lost and not (
                    res == "DeviceError" and error_line_since_previous_completion(i)):
                fails.append(("spurious-raise", f"statement {k} was acknowledged with ok and no error line had been "
                              f"delivered since the previous call, but write({k}) raised {res}"))
            if res == "returned" and k not in tx_index:
                fails.append(("order", f"write({k}) returned but the device never received statement {k}"))
    # (2) every error/alarm/!! line delivered to a live writer is raised by the caller's next call to complete
    for i, e in enumerate(ev):
        if e[0] == "rel" and e[4] and (loss_pos is None or loss_pos > i):
            nxt = next((c for c in completions if c > i), None)
            if nxt is None:
                continue
            c = ev[nxt]
            raised = (c[0] == "ret" and c[2] != "returned") or (c[0] == "disc-ret" and c[1]) or c[0] == "connect-raised"
            if not raised:
                # (`connected` events carry no argument: build only the text that applies)
                what = (f"write({c[1]}) returned normally" if c[0] == "ret" else
                        "disconnect(wait=True) returned normally" if c[0] == "disc-ret" else "connect() returned normally")
                fails.append(("error-dropped", f"the device reported {e[2]!r}; the caller's next call to complete did not "
                              f"raise it: {what}"))
    # (2b) readings: when write() returns, get_parameter() gives, for every key, the value of the last report
    # received that carries it (first occurrence within that report)
    for i, e in enumerate(ev):
        if e[0] == "ret" and len(e) > 3 and isinstance(e[3], dict) and (loss_pos is None or loss_pos > i):
            expect, src = {}, {}
            for x in ev[:i]:
                if x[0] == "rel" and not x[4]:
                    for key, val in readings_of(x[2]).items():
                        expect[key], src[key] = val, x[2]
            wrong = {key: (e[3].get(key), val) for key, val in expect.items() if e[3].get(key) != val}
            if wrong:
                key = sorted(wrong)[0]
                fails.append(("stale-reading", f"after write({e[1]}) get_parameter({key!r}) = {wrong[key][0]!r}, but the last "
                              f"report received for it was {src[key]!r} ({wrong[key][1]!r})"))
                break
    # (3) a write whose acknowledgement was delivered must complete
    for k in calls:
        if k not in rets:
            own = rel_pos.get(tx_index.get(k, -1))
            if own is not None or loss_pos is not None:
                fails.append(("ack-lost", f"write({k}) never completed although "
                              + ("its terminal reply was delivered" if own is not None else "the connection was lost")))
    # (4) disconnect(wait=True)
    for i, e in enumerate(ev):
        if e[0] == "disc-ret" and (loss_pos is None or loss_pos > i):
            if e[1]:
                if not (e[1] == "DeviceError" and error_line_since_previous_completion(i)):
                    fails.append(("spurious-raise", f"disconnect(wait=True) raised {e[1]} although no error line had been "
                                  "delivered since the previous call"))
                continue
            sent_before = [x for x in ev[:i] if x[0] == "tx" and x[3]]
            un = [x[2] for x in sent_before if x[1] not in rel_pos or rel_pos[x[1]][0] > i]
            if un:
                fails.append(("disconnect-early", f"disconnect(wait=True) returned while {un!r} had not been acknowledged"))
            missing = [k for k in calls if k not in tx_index]
            if missing:
                fails.append(("disconnect-early", f"disconnect(wait=True) returned but statements {missing} were never sent"))
    return fails


SHIFT_KINDS = ("early-return", "error-not-raised", "spurious-raise", "disconnect-early")


def absorb_backlog(fl) -> bool:
    """HandshakeBacklog: when printcore went online, a command sent before (a connect probe) was still
    unanswered, and the failure is of the kind a shifted acknowledgement produces."""
    return fl.get("backlog_at_online", 0) >= 1 and fl.get("tag") in SHIFT_KINDS


def absorb_surplus(fl) -> bool:
    """SurplusReply: a flag-setting line that is nobody's terminal reply (the ok after an error line, a spurious
    ok, an unsolicited alarm) was delivered while connect() awaited a reset or while a write() was waiting for
    the reply to its own statement; the failure is of the kind a shifted acknowledgement produces."""
    return fl.get("surplus_hit", 0) >= 1 and fl.get("tag") in SHIFT_KINDS


def absorb_twice(fl) -> bool:
    """ErrorReportedTwice: a reply starting with `Error` was delivered to a writer whose log records take time (a
    handler is installed): the reader thread stores the error once from recvcb and, after logging it, once more from
    errorcb - by then the caller has raised the first copy and is inside its next call, which the second copy ends
    at once; the failure is of the kind a shifted acknowledgement produces."""
    return fl.get("error_twice", 0) >= 1 and fl.get("tag") in SHIFT_KINDS


def absorbed_by(fl, listed):
    for fid, pred in ((FID_BACKLOG, absorb_backlog), (FID_SURPLUS, absorb_surplus), (FID_TWICE, absorb_twice)):
        if pred(fl):
            return fid, fid in listed
    return None, False


# ------------------------------------------------------------------ running a batch of release scripts
def case_repr(case):
    out = {k: case[k] for k in ("kind", "flavour", "n", "disc", "gated", "grbl", "timeout", "log", "stmts", "ops",
                                "handshakes", "sched") if k in case}
    if "duo" in case:
        out["duo"] = [case_repr(m) for m in case["duo"]]
    return out


def model_records(cases):
    lines = []
    for c in cases:
        lines.append("reset")
        lines += model_lines(c)
    out = core.run_model("directwrite", lines)
    recs, i = [], 0
    for c in cases:
        k = len(c["ops"]) + 1
        recs.append([parse_record(r) for r in out[i + 1 : i + 1 + k]])
        i += 1 + k
    return recs


def fresh_failures(R):
    """oracle failures that no finding predicate absorbs"""
    return [fl for fl in R.failures if not absorbed_by(fl, ())[0]]


def judge(R, case, ev, label, listed):
    fails = oracle(case, ev)
    info = structural_info(case, ev)
    for tag, msg in fails:
        fl = dict(tag=tag, **info)
        fid, is_listed = absorbed_by(fl, listed)
        if fid and not is_listed:
            # recorded in harness/findings_c16.json but not yet merged into known_findings.json
            R.count("unmerged-finding:" + fid)
            continue
        R.fail(case_repr(case), msg, tag=tag, **info)
    return fails, info


def scripts_error_line(case) -> bool:
    """does the device of this script send a line that printcore itself treats as an error report (`Error...`)?"""
    return any(text.startswith("Error") for op in case["ops"] if op[0] == "D" for text, _ in op[3]) or any(
        op[2].startswith("Error") for op in case["ops"] if op[0] == "X")


def run_batch(R, cases, label, listed, compare=True, retry_on_disagreement=True):
    if not cases:
        return
    recs = model_records(cases)
    n_dis = n_failing = 0
    for case, exp in zip(cases, recs):
        tries, timeout, settle = 0, 1.5, 0.012
        while True:
            impl, ev, bad, leftover = run_case(case, exp, timeout, settle)
            if leftover:
                raise core.Infra(f"printcore threads left running after a case: {leftover}")
            tries += 1
            info = structural_info(case, ev)
            fails = [f for f in oracle(case, ev) if not absorbed_by(dict(tag=f[0], **info), listed)[0]]
            if ((bad is None or not retry_on_disagreement) and not fails) or tries >= (3 if n_dis < 4 and n_failing < 4 else 1):
                break
            timeout, settle = timeout * 1.5, settle * 2  # real threads: retry before it counts
        R.count(label, "kind:" + case["kind"], "flavour:" + case["flavour"], f"writes:{case['n']}",
                "disc" if case["disc"] else "no-disc", f"tries:{tries}",
                "handshake:grbl" if case.get("grbl") else "handshake:line-numbers")
        if case.get("log"):
            lc = case["log"]
            R.count(f"logging:{lc['level']}", f"logging-at:{lc['at']}", f"logging-sink:{lc['sink']}:{lc['delay_ms']}ms",
                    f"acks-with-readings:{min(reading_acks(case), 3)}")
        if case.get("grbl"):
            # did the no-line-number connect go all the way (greeting read, probe acknowledged later, connect() returned)?
            R.count("grbl:connect-returned" if any(e[0] == "connected" for e in ev) else
                    "grbl:connect-raised" if any(e[0] == "connect-raised" for e in ev) else "grbl:connect-unfinished")
        terms = sum(1 for e in ev if e[0] == "rel" and e[3])
        R.case(case_repr(case), nontrivial=(terms >= 4 and any(e[0] == "ret" for e in ev)))
        for e in ev:
            if e[0] == "seg":
                R.count("released:in-two-segments")
            if e[0] == "rel":
                R.count("released:" + ("error" if e[4] else "ok" if e[3] else "greeting" if len(e) > 5 and e[5] == "g" else
                                       "T-line" if "T:" in e[2] else "status"))
            elif e[0] == "ret":
                R.count("write:" + e[2])
            elif e[0] in ("loss", "connect-raised"):
                R.count("event:" + e[0])
        if bad is not None and compare:
            n_dis += 1
            R.disagree("directwrite-release-script", case_repr(case), show(impl[bad]), show(project(exp[bad + 1])),
                       step=f"op {bad}: {case['ops'][bad][:3]}")
        if fails:
            n_failing += 1
        judge(R, case, ev, label, listed)
        if n_dis >= 6 and len(fresh_failures(R)) >= 3:
            R.notes.append(f"{label}: stopped after {n_dis} disagreeing cases (enough to decide)")
            break


def run_duo_batch(R, cases, label, listed, compare=True):
    """Two-writer cases: each writer is compared with the model run of its own script and judged by the oracle on its
    own event log; a failure of either writer is a failure of the case."""
    n_dis = n_failing = 0
    for case in cases:
        exps = model_records(case["duo"])
        tries, timeout, settle = 0, 1.5, 0.012
        while True:
            res, leftover = run_duo(case, exps, timeout, settle)
            if leftover:
                raise core.Infra(f"printcore threads left running after a two-writer case: {leftover}")
            tries += 1
            judged = []
            for m, (impl, ev, bad) in zip(case["duo"], res):
                info = structural_info(m, ev)
                judged.append((info, [f for f in oracle(m, ev) if not absorbed_by(dict(tag=f[0], **info), listed)[0]]))
            clean = all(bad is None for _, _, bad in res) and not any(f for _, f in judged)
            if clean or tries >= (3 if n_dis < 4 and n_failing < 4 else 1):
                break
            timeout, settle = timeout * 1.5, settle * 2  # real threads: retry before it counts
        R.count(label, "kind:" + case["kind"], "flavour:two-writers", "handshakes:" + case["handshakes"], f"tries:{tries}")
        terms = [sum(1 for e in ev if e[0] == "rel" and e[3]) for _, ev, _ in res]
        R.case(case_repr(case), nontrivial=all(t >= 4 for t in terms) and all(any(e[0] == "ret" for e in ev) for _, ev, _ in res))
        # how often did a flag-setting line reach one writer while the other one's write() was waiting?
        for j, (_, ev, _) in enumerate(res):
            other = res[1 - j][1]
            R.count(f"two-writers:{'ab'[j]}:writes-completed:{min(sum(1 for e in ev if e[0] == 'ret'), 3)}")
            if any(e[0] == "rel" and _flag_setting(e[2]) for e in other) and any(e[0] == "call" for e in ev):
                R.count("two-writers:flag-lines-on-the-other-device")
        failing = False
        for j, (m, (impl, ev, bad)) in enumerate(zip(case["duo"], res)):
            who = "AB"[j]
            if bad is not None and compare:
                n_dis += 1
                R.disagree("directwrite-two-writers", case_repr(case), show(impl[bad]), show(project(exps[j][bad + 1])),
                           step=f"writer {who} op {bad}: {m['ops'][bad][:3]}")
            info = structural_info(m, ev)
            for tag, msg in oracle(m, ev):
                fl = dict(tag=tag, **info)
                fid, is_listed = absorbed_by(fl, listed)
                if fid and not is_listed:
                    R.count("unmerged-finding:" + fid)
                    continue
                failing = failing or not fid
                R.fail(case_repr(case), f"[writer {who} of two alive at once, {m['kind']}] {msg}", tag=tag, writer=who, **info)
        n_failing += 1 if failing else 0
        if n_dis >= 6 and len(fresh_failures(R)) >= 3:
            R.notes.append(f"{label}: stopped after {n_dis} disagreeing writers (enough to decide)")
            break


# ------------------------------------------------------------------ sub-harness B: schedule points inside write()
class SlowEvent(threading.Event):
    """`_ack_event` with a delay before `clear()` takes effect and/or before `wait()` starts."""

    def __init__(self, d_clear, d_wait):
        super().__init__()
        self.d_clear, self.d_wait = d_clear, d_wait

    def clear(self):
        if self.d_clear:
            time.sleep(self.d_clear)
        super().clear()

    def wait(self, timeout=None):
        if self.d_wait:
            time.sleep(self.d_wait)
        return super().wait(timeout)


def auto_device(reply_of):
    def auto(line):
        return [(r + "\n").encode() for r in reply_of(line)]
    return auto


def connect_auto(S, limit=4.0):
    """connect() against an instantly answering device; returns True when connected."""
    t = threading.Thread(target=lambda: (S.writer.connect(), S.ev.append(("connected",))), daemon=True)
    t.start()
    t.join(timeout=limit)
    return not t.is_alive() and any(e[0] == "connected" for e in S.ev)


def run_delay_case(d_clear, d_wait, n, with_status):
    stmts = [f"G1 X{k} Y{k}\n" for k in range(n)]
    S = sim.Session("serial", stmts, False)
    acked = []

    def reply_of(line):
        acked.append(line)
        S.ev.append(("rel", len(acked) - 1, "ok", True, False))
        return (["echo:lookahead ok soon"] if with_status else []) + ["ok"]

    S.auto = auto_device(reply_of)
    S.start(run_worker=False)
    try:
        if not connect_auto(S):
            return None, list(S.ev), "connect() did not return against an instantly answering device"
        S.io().free_run = True
        time.sleep(0.05)
        S.delegate._ack_event = SlowEvent(d_clear, d_wait)
        t = threading.Thread(target=S.do_writes, daemon=True)
        t.start()
        t.join(timeout=1.5 + n * (d_clear + d_wait + 0.05))
        time.sleep(0.02)
        snap = S.snapshot()
    finally:
        left = S.cleanup()
    if left:
        raise core.Infra(f"printcore threads left running: {left}")
    return snap, list(S.ev), None


def sub_delay(R, listed):
    variants = [(0.05, 0.0), (0.0, 0.05), (0.04, 0.04)]
    n = 3
    # the settle after the third R already performs wClear/wEnq/sSend for statement 0
    lines = ["reset", f"cfg writes=0 disc=0", "start", "D - o", "R", "D - o", "R", "D - o", "R"]
    for _ in range(n):
        lines += ["act wclear", "act wenq", "act ssend", "act dprocess - o", "act llisten", "act wwake", "act wfinish"]
    out = core.run_model("directwrite", lines)
    if "disabled" in out:
        raise core.Infra("delay-injection schedule is not a run of the model")
    want = parse_record(out[-1])
    for d_clear, d_wait in variants:
        for with_status in (False, True):
            case = {"sub": "delay-injection", "d_clear": d_clear, "d_wait": d_wait, "n": n, "status": with_status,
                    "stmts": [f"G1 X{k} Y{k}\n" for k in range(n)], "kind": "serial", "flavour": "delay", "disc": False,
                    "ops": []}
            for attempt in range(3):
                snap, ev, problem = run_delay_case(d_clear, d_wait, n, with_status)
                fails = [("ack-lost", problem)] if problem else oracle(case, ev)
                agree = snap is not None and snap["out"] == want["out"] and snap["tx"] == want["tx"]
                if agree and not fails:
                    break
            R.case(case, nontrivial=True)
            R.count("delay-injection", f"delay:clear={d_clear},wait={d_wait}")
            if not agree:
                R.disagree("directwrite-delay-injection", case,
                           "no snapshot" if snap is None else f"out={snap['out']} tx={snap['tx']}",
                           f"out={want['out']} tx={want['tx']}")
            for tag, msg in fails:
                R.fail(case, f"[slow _ack_event: clear +{d_clear}s, wait +{d_wait}s, instant device] {msg}", tag=tag,
                       backlog_at_online=0)


# ------------------------------------------------------------------ sub-harness C: disconnect(wait=True) with a statement queued
class GatedQueue(queue.Queue):
    """priority queue whose consumer side is held until the gate opens (producer side unaffected)"""

    def __init__(self):
        super().__init__(0)
        self.gate = threading.Event()

    def get(self, block=True, timeout=None):
        if not self.gate.is_set():
            if block:
                self.gate.wait(timeout if timeout is not None else 0.1)
            if not self.gate.is_set():
                raise queue.Empty
        return super().get(block, timeout)


def run_held_case(hold=0.35):
    stmts = ["G1 X7 Y7\n"]
    S = sim.Session("serial", stmts, True)
    acked = []

    def reply_of(line):
        acked.append(line)
        S.ev.append(("rel", len(acked) - 1, "ok", True, False))
        return ["ok"]

    S.auto = auto_device(reply_of)
    S.start(run_worker=False)
    obs = {}
    try:
        if not connect_auto(S):
            return {"problem": "connect() did not return"}, list(S.ev)
        S.io().free_run = True
        pc = S.printcore()
        gq = GatedQueue()
        pc.priqueue = gq
        time.sleep(0.13)  # the sender thread leaves its 0.1 s wait on the old queue
        tw = threading.Thread(target=S.do_writes, daemon=True)
        tw.start()
        t_end = time.time() + 1.0
        while time.time() < t_end and gq.qsize() == 0:
            time.sleep(0.002)
        obs["queued"] = gq.qsize() == 1
        td = threading.Thread(target=S.do_disconnect, daemon=True)
        td.start()
        td.join(timeout=hold)
        obs["disc_returned_while_queued"] = not td.is_alive()
        obs["sent_while_queued"] = any(l.strip() == stmts[0].strip() for (l, ok) in S.tx_lines())
        gq.gate.set()
        td.join(timeout=2.0)
        tw.join(timeout=1.0)
        obs["disc_returned"] = not td.is_alive()
        obs["write_done"] = not tw.is_alive()
    finally:
        left = S.cleanup()
    if left:
        raise core.Infra(f"printcore threads left running: {left}")
    return obs, list(S.ev)


def sub_held(R):
    lines = ["reset", "cfg writes=1 disc=0", "start", "D - o", "R", "D - o", "R", "D - o"]
    # last handshake acknowledgement without settling: the caller's steps are then taken one by one
    lines += ["act llisten", "act cpoll", "act wclear", "act wenq", "act cdisc", "act ssend", "act dprocess - o",
              "act llisten", "act wwake", "act wfinish", "act cdisc"]
    out = core.run_model("directwrite", lines)
    i_first = lines.index("act cdisc")
    model_blocked = out[i_first] == "disabled"
    model_final = parse_record(out[-1]) if out[-1] != "disabled" else {}
    case = {"sub": "held-queue", "kind": "serial", "flavour": "held", "n": 1, "disc": True, "stmts": ["G1 X7 Y7\n"], "ops": []}
    for attempt in range(3):
        obs, ev = run_held_case()
        fails = []
        if obs.get("problem"):
            fails.append(("ack-lost", obs["problem"]))
        elif obs.get("queued") and obs.get("disc_returned_while_queued") and not obs.get("sent_while_queued"):
            fails.append(("disconnect-early", "disconnect(wait=True) returned while statement 0 was still in the queue, never sent"))
        fails += [f for f in oracle(case, ev) if f[0] != "ack-lost" or obs.get("disc_returned")]
        impl_blocked = obs.get("queued") and not obs.get("disc_returned_while_queued")
        agree = (impl_blocked == model_blocked) and obs.get("disc_returned") == (model_final.get("phase") == "disconnected")
        if agree and not fails:
            break
    R.case(case, nontrivial=True)
    R.count("held-queue")
    if not agree:
        R.disagree("directwrite-disconnect-while-queued", case, json.dumps(obs),
                   f"disconnect blocked while queued={model_blocked}, final phase={model_final.get('phase')}")
    for tag, msg in fails:
        R.fail(case, msg, tag=tag, backlog_at_online=0)


# ------------------------------------------------------------------ known finding: witness
def backlog_case():
    ok = [("ok", False)]
    ops = [["start"], ["P"], ["D", "-", "o", ok], ["D", "-", "o", ok], ["R"], ["D", "-", "o", ok], ["R"],
           ["D", "-", "o", ok], ["R"], ["R"], ["D", "-", "o", ok], ["R"], ["D", "-", "o", ok], ["R"], ["settle"]]
    return {"kind": "serial", "flavour": "backlog", "n": 2, "disc": True, "stmts": ["G1 X0\n", "G1 X1\n"], "ops": ops}


def _witness(case, pred, what):
    exp = model_records([case])[0]
    for _ in range(2):
        impl, ev, bad, left = run_case(case, exp)
        fails = oracle(case, ev)
        info = structural_info(case, ev)
        hit = [f for f in fails if pred(dict(tag=f[0], **info))]
        if hit:
            return True, f"{what}: {hit[0][1]} (model agrees: {bad is None})"
    return False, what + ": no longer reproduces"


def witness_backlog():
    """Two connect probes pile up, the device answers both later: deterministic replay on the implementation."""
    return _witness(backlog_case(), absorb_backlog, "2 x 'G4 P0' before the first answer, both answered later")


def surplus_case():
    ok = [("ok", False)]
    ops = [["start"], ["D", "-", "o", ok], ["R"], ["D", "-", "o", ok], ["R"], ["D", "-", "o", ok], ["R"],
           ["W"], ["D", "-", "b", [("error:20", True)]], ["X", "o", "ok"], ["R"],   # statement 0: error:20, then ok
           ["W"], ["R"],                                                           # caller already in write(1)
           ["D", "-", "o", ok], ["R"], ["settle"]]
    return {"kind": "serial", "flavour": "surplus-hit", "n": 2, "disc": False, "gated": True,
            "stmts": ["G999\n", "G1 X2\n"], "ops": ops}


def grbl_case():
    """No line numbers: the greeting is read first (startprint runs, no M110), the probe's ok only afterwards - released
    late, as by a controller whose dwell waits for the planner; then two statements, the first one answered with a
    status report.  Part of the corpus of every run."""
    ok = [("ok", False)]
    ops = [["start"], ["G", GREETINGS[0]], ["R"], ["D", "s", "o", [(STATUS[3], False), ("ok", False)]], ["R"], ["R"],
           ["D", "s", "o", [(STATUS[6], False), ("ok", False)]], ["R"], ["R"], ["D", "-", "o", ok], ["R"], ["settle"]]
    return {"kind": "serial", "flavour": "grbl-clean", "grbl": True, "n": 2, "disc": True,
            "stmts": ["G1 X10 Y5 F600\n", "G1 X2 Y3\n"], "ops": ops}


def reports_case(kind="serial"):
    """Move, query, move, query - the way a caller follows the machine: every query is answered with a status report
    in another layout (Grbl 1.1 `|` fields; the older comma-separated layout of Grbl 0.9 / Smoothieware; a probe
    report) and then `ok`; the reading must be there when the write() of the query returns.  Part of the corpus."""
    ok = [("ok", False)]
    reports = ["<Idle|MPos:10.000,5.000,0.000|FS:0,0|WCO:0.000,0.000,0.000>",
               "<Idle,MPos:2.000,3.000,-1.500,WPos:-8.000,-2.000,-1.500>",
               "[PRB:2.000,3.000,-4.125:1]"]
    ops = [["start"]] + [["D", "-", "o", ok], ["R"]] * 3
    stmts = []
    for k, (move, query) in enumerate((("G1 X10 Y5 F600", "?"), ("G1 X2 Y3 Z-1.5", "$?"), ("G38.2 Z-10 F50", "M114"))):
        stmts += [move + "\n", query + "\n"]
        ops += [["D", "-", "o", ok], ["R"], ["D", "s", "o", [(reports[k], False), ("ok", False)]], ["R"], ["R"]]
    ops += [["D", "-", "o", ok], ["R"], ["settle"]]
    return {"kind": kind, "flavour": "clean", "n": len(stmts), "disc": True, "stmts": stmts, "ops": ops}


def witness_surplus():
    """error:20 + ok for statement 0; the ok is read after the caller entered write(1)."""
    return _witness(surplus_case(), absorb_surplus,
                    "statement 0 answered 'error:20' then 'ok', the ok read after write(1) had started")


def twice_case():
    """Statement 0 is refused with Marlin's `Error:...`, statement 1 acknowledged with ok; the writer's logger has a
    handler that takes 12 ms per record."""
    ok = [("ok", False)]
    ops = [["start"]] + [["D", "-", "o", ok], ["R"]] * 3
    ops += [["D", "-", "b", [("Error:Printer halted. kill() called!", True)]], ["R"], ["D", "-", "o", ok], ["R"],
            ["D", "-", "o", ok], ["R"], ["settle"]]
    return {"kind": "serial", "flavour": "clean+logging", "n": 2, "disc": True, "stmts": ["M104 S200\n", "G1 X5\n"], "ops": ops,
            "log": {"level": "ERROR", "at": 0, "sink": "sleep", "delay_ms": 12, "debug_only": False}}


def witness_twice():
    """One `Error:` reply, raised by write(0) and once more by write(1) before the device acknowledged statement 1."""
    return _witness(twice_case(), absorb_twice,
                    "statement 0 answered 'Error:Printer halted. kill() called!', ERROR records of the writer's logger take 12 ms")


FINDING_PREDICATES = {FID_BACKLOG: absorb_backlog, FID_SURPLUS: absorb_surplus, FID_TWICE: absorb_twice}
WITNESSES = {FID_BACKLOG: witness_backlog, FID_SURPLUS: witness_surplus, FID_TWICE: witness_twice}


# ------------------------------------------------------------------ entry points
def run(R: core.Run):
    R.rule = ("release scripts: 1-5 statements x per-command reply scripts (0-3 status/T: lines, some with 'ok' inside a "
              "word, 4 in 10 status lines a position / status report with fresh values - Grbl 1.1 '<..|MPos:..|FS:..>', the "
              "comma-separated layout of Grbl 0.9 / Smoothieware, '[PRB:..]', Marlin M114 -, then ok-variant or error/alarm/!! terminal - keyword in any case, bare or followed by text) x random interleaving of device consumption and line "
              "release x optional connection loss x optional disconnect(wait=True) x (socket) reply lines arriving in two segments "
              "more than the read time-out apart x handshake (line numbers: silent device, two "
              "M110; no line numbers: 'Grbl ...' greeting first, the probe's ok released later like any line); gated scripts: the caller starts each "
              "call on command, surplus ok / unsolicited error lines queued behind a reply are read between two calls; logging set-ups (clean scripts "
              "whose acknowledgements carry the reading themselves x level DEBUG/INFO on the writer module's logger or a package above it x a sink that "
              "sleeps 3-25 ms or syncs a file per record); two writers alive at once (serial/socket, each with its own script and caller thread, the two "
              "scripts interleaved op by op, handshakes one after the other or interleaved; judged and compared per writer); non-trivial = at least 4 terminal "
              "replies released and at least one write completed; distinct by hash")
    R.assumptions = [
        "one caller thread per writer (connect; writes; disconnect), as GCodeBuilder uses a writer; a second thread on the same "
        "writer only in sub-harness C; in the two-writer cases the writers share nothing but the process",
        "a log handler is installed only in the logging cases (elsewhere logging is disabled process-wide); scripts with an 'Error...' "
        "reply under a log handler are run on the implementation only (finding C16-error-reported-twice is outside the model)",
        "the device answers every received command with exactly one terminal reply (ok... or error.../alarm.../!!...), "
        "may push surplus ok / unsolicited error lines at any time (scripted as separate `X` lines), "
        "reports readings only in the scripted formats (T:/B: temperature, Marlin X/Y/Z/E position reports, Grbl status "
        "reports with three-axis MPos/WPos groups in the `|` and in the older `,` layout, probe reports, fixed vocabulary), "
        "and never sends 'start', 'Resend:'/'rs' or 'DEBUG_' lines; it greets at most once, with 'Grbl <version> ...', "
        "as the first line after the port is opened (then: no line numbers, no M110)",
        "after a 'Grbl' greeting the probe's reply reaches the host after startprint() has run (it is behind the greeting "
        "on the wire and released by a later step); released before, connect() never returns on the unchanged tree "
        "(nothing raises `clear` again: liveness, outside C16 - Props/C16.lean observation witness); greetings that "
        "switch line numbers off without bringing printcore online ('GrblHAL ...') are not simulated",
        "connect probes and resets are acknowledged with a lowercase 'ok...'",
        "after a connection loss both reads and writes on the port fail (fake port); on a socket the loss is the last event",
        "thread scheduling below the model's atomic steps is exercised only by sub-harness B (instrumented Event)",
    ]
    R.trusted = [
        "Lean 4.33 kernel; axioms propext, Classical.choice, Quot.sound only (audited per theorem)",
        "hand-written LTS Model/DirectWrite.lean tied to /repo by this run's correspondence on real threads",
        "Python harness: fake serial port / TCP peer, event log, oracle; quiescence = model-predicted observation "
        "reached (or 1.5 s time-out) plus a settle interval",
    ]
    logging.disable(logging.CRITICAL)  # printcore / writer log every device error
    listed = {f.get("id") for f in core.load_findings(PROP) if f.get("status") == "finding"}
    for fid in (FID_BACKLOG, FID_SURPLUS, FID_TWICE):
        if fid not in listed:
            R.notes.append(f"{fid} is not yet in known_findings.json: its cases are " +
                           ("run on the implementation only (the model stores an error line once) and "
                            if fid == FID_TWICE else "compared with the model but ") +
                           "their oracle failures are only counted (see harness/findings_c16.json)")
    n = R.n(40, 800)
    n_sock = max(2, n // 8)
    n_back = max(2, n // 14)
    n_gated = max(8, n // 4)
    n_hit = max(2, n // 14)
    n_grbl = max(4, n // 8)
    corpus = [backlog_case(), surplus_case(), grbl_case(), reports_case()]
    cases = [gen_case(R.rng) for _ in range(max(4, n - n_sock - n_back - n_gated - n_hit - n_grbl))]
    cases += [gen_case(R.rng, flavour="backlog") for _ in range(n_back)]
    # no-line-number handshakes (`Grbl …` greeting): mostly clean, some lost / refused / with probes piled up
    cases += [gen_case(R.rng, flavour=R.rng.choices(["clean", "loss", "connect-error", "backlog"], [0.7, 0.1, 0.08, 0.12])[0],
                       grbl=True) for _ in range(n_grbl)]
    n_gated_grbl = max(1, n_gated // 5)
    cases += [gen_gated_case(R.rng, hit=False) for _ in range(n_gated - n_gated_grbl)]
    cases += [gen_gated_case(R.rng, hit=False, grbl=True) for _ in range(n_gated_grbl)]
    cases += [gen_gated_case(R.rng, hit=True, grbl=R.rng.random() < 0.25) for _ in range(n_hit)]
    cases += [gen_case(R.rng, flavour="clean", timeout=0.05) for _ in range(max(3, n // 12))]
    R.rng.shuffle(cases)
    run_batch(R, corpus + cases, "serial", listed)
    sock_cases = []
    for k in range(n_sock):
        c = gen_case(R.rng, kind="socket", flavour=R.rng.choice(["clean", "clean", "clean", "loss"]),
                     grbl=(k == 1 or R.rng.random() < 0.2))   # at least one networked controller greets
        sock_cases.append(c)
    run_batch(R, sock_cases, "socket", listed)
    # reply lines that reach the host in two TCP segments, more than the device's read time-out apart (each such
    # release costs about 0.3 s: few cases, two split lines each)
    run_batch(R, fragmented_corpus() + fragmented_cases(R.rng, R.n(3, 24)), "socket-fragmented", listed)
    # the program's logging set-up as a dimension: acknowledgements that carry the reading themselves, the writer's
    # logger switched on with a sink that takes its time (the reader thread is slow inside the handling of one line)
    n_log = R.n(4, 60)
    logged = logged_corpus() + [gen_logged_case(R.rng, kind="socket" if k % 6 == 5 else "serial") for k in range(n_log)]
    run_batch(R, [c for c in logged if not scripts_error_line(c)], "logging", listed)
    # scripts with an `Error...` reply under a log handler run into finding C16-error-reported-twice, which the model
    # has no notion of (it stores an error line once): implementation + oracle only, absorbed failures are counted
    run_batch(R, [c for c in logged if scripts_error_line(c)], "logging+Error-reply", listed, compare=False,
              retry_on_disagreement=False)
    # two writers alive at once, each on its own device, their scripts interleaved
    run_duo_batch(R, duo_corpus() + [gen_duo_case(R.rng) for _ in range(R.n(4, 60))], "two-writers", listed)
    sub_delay(R, listed)
    sub_held(R)
    if R.thorough:
        ex = list(exhaustive_cases())
        run_batch(R, ex, "exhaustive-2-statements", listed)
        R.exhaustive = False
        R.extra["exhaustive_subrun"] = {
            "cases": len(ex), "exhaustive": True,
            "scope": "2 statements x {no, status, 'T:'} line x {ok, error} per statement x {eager, lazy} device x "
                     "{with, without} disconnect(wait=True), single answered probe"}
    for fid, w in WITNESSES.items():
        if fid not in listed:
            still, text = w()
            R.extra.setdefault("unmerged_finding_witness", {})[fid] = {"still_fails": still, "text": text}
    if R.broken and not fresh_failures(R):
        # failing-input search: fresh scripts judged by the oracle alone, biased to what the property talks about
        R.search_batches += 1
        extra = [gen_case(R.rng, flavour=f) for f in ["clean"] * R.n(10, 40) + ["loss"] * R.n(3, 10)]
        extra += [gen_case(R.rng, flavour="clean", grbl=True) for _ in range(R.n(4, 16))]
        extra += [gen_gated_case(R.rng, hit=False) for _ in range(R.n(10, 40))]
        extra += [gen_case(R.rng, flavour="clean", timeout=0.05) for _ in range(R.n(4, 12))]
        extra += fragmented_cases(R.rng, R.n(3, 10))
        extra += [gen_logged_case(R.rng) for _ in range(R.n(6, 24))]
        run_batch(R, extra, "search", listed, compare=False)
        run_duo_batch(R, [gen_duo_case(R.rng) for _ in range(R.n(6, 24))], "search-two-writers", listed, compare=False)
        sub_delay(R, listed)
    logging.disable(logging.NOTSET)
    return FINDING_PREDICATES, WITNESSES


def replay(data):
    core.use_repo()
    fl = data.get("failure") or data.get("first", {})
    case = fl.get("case")
    if not case:
        print("replay: no case recorded (", data.get("no_longer_checks"), ")")
        return 1
    if case.get("sub") == "delay-injection":
        snap, ev, problem = run_delay_case(case["d_clear"], case["d_wait"], case["n"], case["status"])
        fails = [("ack-lost", problem)] if problem else oracle(case, ev)
        print("impl :", snap)
        print("oracle:", fails or "ok")
        return 1 if fails else 0
    if case.get("sub") == "held-queue":
        obs, ev = run_held_case()
        print("impl :", obs)
        bad = obs.get("problem") or (obs.get("queued") and obs.get("disc_returned_while_queued") and not obs.get("sent_while_queued"))
        print("oracle:", "disconnect(wait=True) returned while the statement was still queued" if bad else "ok")
        return 1 if bad else 0
    if case.get("duo"):
        exps = model_records(case["duo"])
        res, left = run_duo(case, exps)
        rc = 0
        for j, (m, (impl, ev, bad)) in enumerate(zip(case["duo"], res)):
            fails = oracle(m, ev)
            print(f"--- writer {'AB'[j]} ({m['kind']}, {m['flavour']})")
            if bad is not None:
                print(f"op {bad} {m['ops'][bad][:3]}\n  impl : {show(impl[bad])}\n  model: {show(project(exps[j][bad + 1]))}")
            print("events:", ev)
            print("structure:", structural_info(m, ev))
            print("oracle:", fails or "ok")
            rc = 1 if (fails or bad is not None) else rc
        return rc
    exp = model_records([case])[0]
    impl, ev, bad, left = run_case(case, exp)
    fails = oracle(case, ev)
    for i, got in enumerate(impl):
        print(f"op {i} {case['ops'][i][:3]}\n  impl : {show(got)}\n  model: {show(project(exp[i + 1]))}")
    print("events:", ev)
    print("structure:", structural_info(case, ev))
    print("oracle:", fails or "ok")
    return 1 if (fails or bad is not None) else 0
